"""Effect / alias analysis (engine E of DESIGN.md).

Flow-insensitive, field-light, interprocedural by summaries computed to a
fix-point over the whole package.

Roots of a value:
  'P<i>'       parameter i of the analysed function (P0 = self for methods)
  'PERSIST'    anything loaded from an attribute of self (state that outlives the call)
  'FROZEN'     value returned by a functools.lru_cache / cache function (shared between callers)
  'FRESH'      allocated during the call (constructors, array constructors, .copy(), arithmetic,
               fancy/scalar indexing of arrays)
Views keep the roots of their base: plain assignment, basic slices, .T, reshape, ravel, view, squeeze,
np.asarray / np.reshape / np.transpose / np.atleast_*.

A *store* is: subscript/slice/attribute assignment, augmented assignment to a subscript/attribute (or to a
name that aliases a non-fresh array), in-place method from INPLACE, `out=` keyword, `del x[...]`,
np.put/np.place/np.copyto/np.fill_diagonal on x.
"""
from __future__ import annotations

import ast
from dataclasses import dataclass, field
from typing import Dict, List, Optional, Set, Tuple

from .model import ClassInfo, Model, ModuleInfo, decorator_names, norm_stmt, parent_map, walk_no_nested

INPLACE = {'append', 'extend', 'insert', 'pop', 'remove', 'clear', 'sort', 'reverse', 'update', 'setdefault',
           'fill', 'put', 'resize', 'itemset', 'setdiag', 'add', 'discard', 'popitem', 'setflags', 'partition',
           'eliminate_zeros', 'sum_duplicates', 'sort_indices'}
VIEW_METHODS = {'reshape', 'ravel', 'view', 'squeeze', 'transpose', 'swapaxes', 'flatten_view', 'getrow_view'}
VIEW_ATTRS = {'T', 'flat', 'real', 'imag', 'data', 'indices', 'indptr'}
COPY_METHODS = {'copy', 'astype', 'tolist', 'toarray', 'todense', 'tocsr', 'tocsc', 'tocoo', 'todok', 'flatten',
                'getrow', 'getcol', 'nonzero', 'sum', 'mean', 'any', 'all', 'min', 'max', 'argmin', 'argmax',
                'dot', 'cumsum', 'round', 'clip', 'conj', 'item', 'keys', 'values', 'items', 'get', 'count',
                'index', 'format', 'join', 'split', 'strip', 'std', 'var', 'prod', 'getnnz', 'diagonal',
                'multiply', 'power', 'decode', 'encode', 'lower', 'upper', 'replace', 'startswith', 'endswith',
                'random', 'choice', 'integers', 'beta', 'normal', 'uniform', 'shuffle_copy'}
NP_VIEW_FUNCS = {'asarray', 'reshape', 'transpose', 'atleast_1d', 'atleast_2d', 'squeeze', 'ravel', 'asanyarray',
                 'ascontiguousarray', 'swapaxes', 'moveaxis', 'broadcast_to', 'expand_dims'}
NP_STORE_FUNCS = {'put', 'place', 'copyto', 'fill_diagonal', 'putmask', 'put_along_axis'}
_COMMON_NAMES = INPLACE | COPY_METHODS | VIEW_METHODS | {'run', 'load', 'save', 'log', 'read', 'write', 'close',
                                                          'open', 'start', 'join', 'get_results'}


@dataclass(eq=False)
class Store:
    node: ast.AST
    roots: Set[str]
    how: str
    func: 'FuncInfo'
    attr: Optional[str] = None        # for PERSIST stores: the self attribute written (first component)
    guarded: bool = False             # guarded lazy-initialisation idiom


@dataclass(eq=False)
class FuncInfo:
    mi: ModuleInfo
    ci: Optional[ClassInfo]
    fn: ast.AST
    qual: str
    params: List[str] = field(default_factory=list)
    # summary
    mut_params: Set[int] = field(default_factory=set)
    ret_roots: Set[str] = field(default_factory=set)      # subset of {'P<i>', 'FROZEN', 'PERSIST', 'FRESH'}
    self_writes: List[Store] = field(default_factory=list)  # writes to own persistent state (direct + via self calls)
    stores: List[Store] = field(default_factory=list)       # all non-fresh stores in this function body
    calls: List[Tuple[ast.Call, List['FuncInfo'], Set[str]]] = field(default_factory=list)
    prop_loads: List[Tuple[ast.Attribute, List['FuncInfo'], Set[str]]] = field(default_factory=list)
    is_cached: bool = False

    @property
    def site(self) -> str:
        return f'{self.mi.relpath}:{self.fn.lineno}'


class Effects:
    def __init__(self, model: Model):
        self.model = model
        self.funcs: Dict[str, FuncInfo] = {}
        self.by_node: Dict[ast.AST, FuncInfo] = {}
        self.by_name: Dict[str, List[FuncInfo]] = {}
        self.attr_types: Dict[str, Dict[str, Set[str]]] = {}     # class qualname -> attr -> class names
        self._rc_cache: Dict[int, List[FuncInfo]] = {}
        self._rp_cache: Dict[int, List[FuncInfo]] = {}
        self._lt_cache: Dict[str, Dict[str, Set[str]]] = {}
        self._pm_cache: Dict[int, Dict] = {}
        self._cls_cache: Dict[str, Optional[ClassInfo]] = {}
        self._index()
        self._infer_attr_types()
        self._fixpoint()

    # ------------------------------------------------------------------ index
    def _all_functions_with_nested(self):
        for mi, ci, fn in self.model.all_functions():
            yield mi, ci, fn, None
            stack = [(fn, fn.name)]
            while stack:
                outer, path = stack.pop()
                for n in ast.walk(outer):
                    if n is outer:
                        continue
                    if isinstance(n, (ast.FunctionDef, ast.AsyncFunctionDef)) and self._direct_parent_func(outer, n):
                        yield mi, ci, n, path
                        stack.append((n, f'{path}.<locals>.{n.name}'))

    @staticmethod
    def _direct_parent_func(outer, inner) -> bool:
        # inner is nested directly in outer (not inside another nested def)
        for n in walk_no_nested(outer):
            if n is inner:
                return True
        return False

    def _index(self) -> None:
        for mi, ci, fn, outer in self._all_functions_with_nested():
            if outer is not None:
                qual = (f'{ci.name}.' if ci else f'{mi.name}.') + f'{outer}.<locals>.{fn.name}'
                fi = FuncInfo(mi, ci if (fn.args.args and fn.args.args[0].arg == 'self') else None, fn, qual)
                a = fn.args
                fi.params = [p.arg for p in a.posonlyargs + a.args] + ([a.vararg.arg] if a.vararg else []) \
                    + [p.arg for p in a.kwonlyargs] + ([a.kwarg.arg] if a.kwarg else [])
                self.funcs[f'{mi.name}:{qual}'] = fi
                self.by_node[fn] = fi
                continue
            qual = f'{ci.name}.{fn.name}' if ci else f'{mi.name}.{fn.name}'
            fi = FuncInfo(mi, ci, fn, qual)
            a = fn.args
            fi.params = [p.arg for p in a.posonlyargs + a.args] + ([a.vararg.arg] if a.vararg else []) \
                + [p.arg for p in a.kwonlyargs] + ([a.kwarg.arg] if a.kwarg else [])
            fi.is_cached = any(d.split('.')[-1] in ('lru_cache', 'cache', 'cached_property')
                               for d in decorator_names(fn))
            key = f'{mi.name}:{qual}'
            self.funcs[key] = fi
            self.by_node[fn] = fi
            self.by_name.setdefault(fn.name, []).append(fi)

    def func_of(self, ci: Optional[ClassInfo], mi: ModuleInfo, name: str) -> Optional[FuncInfo]:
        if ci is not None:
            r = ci.find_method(name)
            if r:
                return self.by_node.get(r[1])
        if name in mi.functions:
            return self.by_node.get(mi.functions[name])
        return None

    def method_impls(self, cls_name: str, name: str) -> List[FuncInfo]:
        """Method `name` as seen from class cls_name: the MRO definition and all overrides in subclasses."""
        out = []
        try:
            ci = self.model.cls(cls_name)
        except Exception:
            return out
        r = ci.find_method(name)
        if r:
            out.append(self.by_node[r[1]])
        for sub in self.model.subclasses(ci):
            if name in sub.methods:
                fi = self.by_node[sub.methods[name]]
                if fi not in out:
                    out.append(fi)
        return out

    def _class_of_call(self, mi: ModuleInfo, call: ast.AST) -> Optional[str]:
        if isinstance(call, ast.Call):
            try:
                d = ast.unparse(call.func)
            except Exception:
                return None
            r = self.model.resolve(mi, d) if all(p.isidentifier() for p in d.split('.')) else None
            if r and r[0] == 'class':
                return r[1].name
        return None

    def _ann_class(self, mi: ModuleInfo, ann: Optional[ast.AST]) -> Set[str]:
        out: Set[str] = set()
        if ann is None:
            return out
        for n in ast.walk(ann):
            if isinstance(n, (ast.Name, ast.Attribute)):
                try:
                    d = ast.unparse(n)
                except Exception:
                    continue
                r = self.model.resolve(mi, d) if all(p.isidentifier() for p in d.split('.')) else None
                if r and r[0] == 'class':
                    out.add(r[1].name)
            elif isinstance(n, ast.Constant) and isinstance(n.value, str) and n.value.isidentifier():
                r = self.model.resolve(mi, n.value)
                if r and r[0] == 'class':
                    out.add(r[1].name)
        return out

    def _infer_attr_types(self) -> None:
        for ci in self.model.classes:
            types: Dict[str, Set[str]] = {}
            ctor_types: Dict[str, Set[str]] = {}
            for b in ci.node.body:
                if isinstance(b, ast.AnnAssign) and isinstance(b.target, ast.Name):
                    t = self._ann_class(ci.module, b.annotation)
                    if t:
                        types.setdefault(b.target.id, set()).update(t)
            for fn in ci.methods.values():
                ann = {}
                a = fn.args
                for p in a.posonlyargs + a.args + a.kwonlyargs:
                    t = self._ann_class(ci.module, p.annotation)
                    if t:
                        ann[p.arg] = t
                for n in ast.walk(fn):
                    if isinstance(n, (ast.Assign, ast.AnnAssign)):
                        targets = n.targets if isinstance(n, ast.Assign) else [n.target]
                        val = n.value
                        for t in targets:
                            if isinstance(t, ast.Attribute) and isinstance(t.value, ast.Name) and t.value.id == 'self':
                                cls = set()
                                if val is not None:
                                    c = self._class_of_call(ci.module, val)
                                    if c:
                                        cls.add(c)
                                    if isinstance(val, ast.Name) and val.id in ann:
                                        cls |= ann[val.id]
                                    if isinstance(val, (ast.DictComp,)):
                                        c = self._class_of_call(ci.module, val.value)
                                        if c:
                                            cls.add(c)
                                    if isinstance(val, ast.Dict):
                                        for v in val.values:
                                            c = self._class_of_call(ci.module, v)
                                            if c:
                                                cls.add(c)
                                    if isinstance(val, (ast.ListComp,)):
                                        c = self._class_of_call(ci.module, val.elt)
                                        if c:
                                            cls.add(c)
                                if isinstance(n, ast.AnnAssign) and not cls:
                                    cls |= self._ann_class(ci.module, n.annotation)
                                if cls:
                                    ctor_types.setdefault(t.attr, set()).update(cls)
            for k, v in ctor_types.items():
                types[k] = set(v)           # what the constructor builds is more precise than an annotation
            self.attr_types[ci.qualname] = types
        # inherit
        for ci in self.model.classes:
            merged: Dict[str, Set[str]] = {}
            for c in reversed(ci.mro):
                for k, v in self.attr_types.get(c.qualname, {}).items():
                    merged.setdefault(k, set()).update(v)
            self.attr_types[ci.qualname] = merged

    # -------------------------------------------------------- receiver typing
    def receiver_classes(self, fi: FuncInfo, expr: ast.AST, local_types: Dict[str, Set[str]]) -> Set[str]:
        if isinstance(expr, ast.Name):
            if expr.id == 'self' and fi.ci is not None:
                return {fi.ci.name}
            return set(local_types.get(expr.id, set()))
        if isinstance(expr, ast.Attribute):
            base = self.receiver_classes(fi, expr.value, local_types)
            out: Set[str] = set()
            for b in base:
                try:
                    ci = self.model.cls(b)
                except Exception:
                    continue
                cands = [ci] + self.model.subclasses(ci)
                for c in cands:
                    out |= self.attr_types.get(c.qualname, {}).get(expr.attr, set())
            return out
        if isinstance(expr, ast.Subscript):
            return self.receiver_classes(fi, expr.value, local_types)    # containers of instances
        if isinstance(expr, ast.Call):
            c = self._class_of_call(fi.mi, expr)
            return {c} if c else set()
        return set()

    def resolve_call(self, fi: FuncInfo, call: ast.Call, local_types) -> List[FuncInfo]:
        k = id(call)
        if k not in self._rc_cache:
            self._rc_cache[k] = self._resolve_call(fi, call, local_types)
        return self._rc_cache[k]

    def _resolve_call(self, fi: FuncInfo, call: ast.Call, local_types) -> List[FuncInfo]:
        f = call.func
        if isinstance(f, ast.Name):
            r = self.model.resolve(fi.mi, f.id)
            if r and r[0] == 'func':
                t = self.by_node.get(r[2])
                return [t] if t else []
            if r and r[0] == 'class':
                init = r[1].find_method('__init__')
                return [self.by_node[init[1]]] if init and init[1] in self.by_node else []
            # nested function / local: ignore
            return []
        if isinstance(f, ast.Attribute):
            # super().m()
            if isinstance(f.value, ast.Call) and isinstance(f.value.func, ast.Name) and f.value.func.id == 'super' \
                    and fi.ci is not None:
                mro = fi.ci.mro
                for c in mro[1:]:
                    if f.attr in c.methods:
                        return [self.by_node[c.methods[f.attr]]]
                return []
            try:
                d = ast.unparse(f)
            except Exception:
                d = ''
            if d and all(p.isidentifier() for p in d.split('.')):
                r = self.model.resolve(fi.mi, d)
                if r and r[0] == 'func':
                    t = self.by_node.get(r[2])
                    return [t] if t else []
                if r and r[0] == 'class':
                    init = r[1].find_method('__init__')
                    return [self.by_node[init[1]]] if init and init[1] in self.by_node else []
                if r and r[0] == 'external':
                    return []
            classes = self.receiver_classes(fi, f.value, local_types)
            out: List[FuncInfo] = []
            attr = f.attr
            if attr.startswith('_get_undeformed_'):
                # StabilizerCode.deform saves the class-level get_<x> under self._get_undeformed_<x>
                attr = 'get_' + attr[len('_get_undeformed_'):]
            for c in classes:
                for t in self.method_impls(c, attr):
                    if t not in out:
                        out.append(t)
            if out or classes:
                return out
            # unknown receiver: name-based among project methods, common container/array names excluded
            if f.attr in _COMMON_NAMES:
                return []
            root = f.value
            while isinstance(root, (ast.Attribute, ast.Subscript, ast.Call)):
                root = root.value if not isinstance(root, ast.Call) else root.func
            if isinstance(root, ast.Name):
                r = self.model.resolve(fi.mi, root.id)
                if r and r[0] in ('external', 'module') and r[0] == 'external':
                    return []
            return [t for t in self.by_name.get(f.attr, []) if t.ci is not None]
        return []

    def resolve_property(self, fi: FuncInfo, attr: ast.Attribute, local_types) -> List[FuncInfo]:
        k = id(attr)
        if k not in self._rp_cache:
            self._rp_cache[k] = self._resolve_property(fi, attr, local_types)
        return self._rp_cache[k]

    def _resolve_property(self, fi: FuncInfo, attr: ast.Attribute, local_types) -> List[FuncInfo]:
        classes = self.receiver_classes(fi, attr.value, local_types)
        out = []
        for c in classes:
            try:
                ci = self.model.cls(c)
            except Exception:
                continue
            for cand in [ci] + self.model.subclasses(ci):
                r = cand.find_method(attr.attr)
                if r and 'property' in decorator_names(r[1]) and self.by_node[r[1]] not in out:
                    out.append(self.by_node[r[1]])
        return out

    # --------------------------------------------------------------- analysis
    def _local_types(self, fi: FuncInfo) -> Dict[str, Set[str]]:
        if fi.qual + fi.mi.name in self._lt_cache:
            return self._lt_cache[fi.qual + fi.mi.name]
        lt = self._local_types_uncached(fi)
        self._lt_cache[fi.qual + fi.mi.name] = lt
        return lt

    def _local_types_uncached(self, fi: FuncInfo) -> Dict[str, Set[str]]:
        lt: Dict[str, Set[str]] = {}
        a = fi.fn.args
        for p in a.posonlyargs + a.args + a.kwonlyargs:
            t = self._ann_class(fi.mi, p.annotation)
            if t:
                lt[p.arg] = set(t)
        for n in walk_no_nested(fi.fn):
            if isinstance(n, ast.Assign) and len(n.targets) == 1 and isinstance(n.targets[0], ast.Name):
                c = self._class_of_call(fi.mi, n.value)
                if c:
                    lt.setdefault(n.targets[0].id, set()).add(c)
                elif isinstance(n.value, (ast.Attribute, ast.Subscript)):
                    cs = self.receiver_classes(fi, n.value, lt)
                    if cs:
                        lt.setdefault(n.targets[0].id, set()).update(cs)
            if isinstance(n, (ast.For, ast.comprehension)) and isinstance(n.target, ast.Name):
                cs = self.receiver_classes(fi, n.iter, lt) if isinstance(n.iter, (ast.Attribute, ast.Subscript, ast.Name)) else set()
                if isinstance(n.iter, ast.Call) and isinstance(n.iter.func, ast.Attribute) \
                        and n.iter.func.attr == 'values':
                    cs = self.receiver_classes(fi, n.iter.func.value, lt)
                if cs:
                    lt.setdefault(n.target.id, set()).update(cs)
        return lt

    def _scalar_attrs(self, ci) -> Set[str]:
        """Attributes of a class that hold an immutable scalar: annotated int/float/bool/str at class level, or
        assigned in __init__ (only there) from a parameter so annotated or from a scalar constant."""
        key = 'scalar:' + ci.name
        cache = self.__dict__.setdefault('_scalar_cache', {})
        if key in cache:
            return cache[key]
        scal = ('int', 'float', 'bool', 'str')
        out: Set[str] = set()
        stores: Dict[str, int] = {}
        for c in ci.mro:
            for st in c.node.body:
                if isinstance(st, ast.AnnAssign) and isinstance(st.target, ast.Name) and ast.unparse(st.annotation) in scal:
                    out.add(st.target.id)
            for name, f in c.methods.items():
                ann = {a.arg: ast.unparse(a.annotation) for a in f.args.args + f.args.kwonlyargs if a.annotation is not None}
                for n in ast.walk(f):
                    if isinstance(n, (ast.Assign, ast.AugAssign, ast.AnnAssign)):
                        tg = n.targets if isinstance(n, ast.Assign) else [n.target]
                        for t in tg:
                            if isinstance(t, ast.Attribute) and isinstance(t.value, ast.Name) and t.value.id == 'self':
                                stores[t.attr] = stores.get(t.attr, 0) + 1
                                v = getattr(n, 'value', None)
                                ok = name == '__init__' and isinstance(n, ast.Assign) and (
                                    (isinstance(v, ast.Name) and ann.get(v.id) in scal)
                                    or (isinstance(v, ast.Constant) and isinstance(v.value, (int, float, bool, str))))
                                if not ok:
                                    stores[t.attr] += 100          # written some other way: not known to be scalar
        # class-level annotation counts only when every store is a plain scalar store in __init__ too
        res = {a for a in set(stores) | out if stores.get(a, 0) < 100 and (a in out or stores.get(a, 0) >= 1)}
        res = {a for a in res if a in out or stores.get(a, 0) >= 1}
        cache[key] = res
        return res

    def roots_of(self, fi: FuncInfo, e: Optional[ast.AST], env: Dict[str, Set[str]], lt) -> Set[str]:
        if e is None:
            return set()
        if isinstance(e, ast.Name):
            if e.id in env:
                return set(env[e.id])
            return {'FRESH'}
        if isinstance(e, ast.Constant):
            return {'FRESH'}
        if isinstance(e, ast.Attribute):
            if e.attr in ('shape', 'ndim', 'size', 'dtype', 'nnz'):
                return {'FRESH'}
            if isinstance(e.value, ast.Name) and e.value.id == 'self' and fi.ci is not None \
                    and e.attr in self._scalar_attrs(fi.ci):
                return {'FRESH'}            # an int / float / bool / str: immutable, a copy of it aliases nothing
            base = self.roots_of(fi, e.value, env, lt)
            props = self.resolve_property(fi, e, lt)
            if props:
                out: Set[str] = set()
                for p in props:
                    for r in p.ret_roots:
                        if r == 'P0' or r == 'PERSIST':
                            out |= {('PERSIST' if x in ('P0', 'PERSIST') else x) for x in base if x != 'FRESH'} or {'FRESH'}
                        elif r in ('FROZEN', 'FRESH'):
                            out.add(r)
                return out or {'FRESH'}
            out = set()
            for r in base:
                if r == 'P0' and fi.ci is not None:
                    out.add('PERSIST')
                else:
                    out.add(r)
            return out
        if isinstance(e, ast.Subscript):
            base = self.roots_of(fi, e.value, env, lt)
            if _is_basic_slice(e.slice):
                return base
            # element access: arrays give scalars/copies; containers give their elements.
            out = set()
            for r in base:
                if r in ('PERSIST', 'FROZEN'):
                    out.add(r)              # element of persistent/frozen container (or a row view)
                elif r.startswith('P') and _is_int_index(e.slice):
                    out.add(r)              # x[0] of a parameter: row view / element object
            return out or {'FRESH'}
        if isinstance(e, ast.Starred):
            return self.roots_of(fi, e.value, env, lt)
        if isinstance(e, (ast.Tuple, ast.List, ast.Set)):
            out = set()
            for x in e.elts:
                out |= self.roots_of(fi, x, env, lt)
            return out or {'FRESH'}
        if isinstance(e, ast.Dict):
            out = set()
            for x in e.values:
                out |= self.roots_of(fi, x, env, lt)
            return out or {'FRESH'}
        if isinstance(e, ast.IfExp):
            return self.roots_of(fi, e.body, env, lt) | self.roots_of(fi, e.orelse, env, lt)
        if isinstance(e, ast.BoolOp):
            out = set()
            for x in e.values:
                out |= self.roots_of(fi, x, env, lt)
            return out
        if isinstance(e, ast.NamedExpr):
            return self.roots_of(fi, e.value, env, lt)
        if isinstance(e, ast.Call):
            return self._call_roots(fi, e, env, lt)
        return {'FRESH'}     # arithmetic, comparisons, comprehensions, f-strings ...

    def _call_roots(self, fi: FuncInfo, c: ast.Call, env, lt) -> Set[str]:
        f = c.func
        if isinstance(f, ast.Attribute):
            if f.attr in VIEW_METHODS:
                return self.roots_of(fi, f.value, env, lt)
            try:
                d = ast.unparse(f)
            except Exception:
                d = ''
            head = d.split('.')[0]
            if head in ('np', 'numpy') and f.attr in NP_VIEW_FUNCS and c.args:
                return self.roots_of(fi, c.args[0], env, lt)
        targets = self.resolve_call(fi, c, lt)
        if targets:
            out: Set[str] = set()
            for t in targets:
                if t.is_cached:
                    out.add('FROZEN')
                    continue
                for r in t.ret_roots:
                    if r in ('FROZEN', 'FRESH'):
                        out.add(r)
                    elif r == 'PERSIST' or r == 'P0':
                        recv = self.roots_of(fi, f.value, env, lt) if isinstance(f, ast.Attribute) else {'FRESH'}
                        for x in recv:
                            out.add('PERSIST' if x in ('P0', 'PERSIST') else x)
                    elif r.startswith('P'):
                        i = int(r[1:])
                        arg = _arg_for_param(c, t, i)
                        if arg is not None:
                            out |= self.roots_of(fi, arg, env, lt)
            return out or {'FRESH'}
        return {'FRESH'}

    def _analyse(self, fi: FuncInfo) -> bool:
        """One pass over fi; returns True if its summary changed."""
        lt = self._local_types(fi)
        env: Dict[str, Set[str]] = {p: {f'P{i}'} for i, p in enumerate(fi.params)}
        stores: List[Store] = []
        calls = []
        prop_loads = []
        pm = self._pm_cache.get(id(fi.fn))
        if pm is None:
            pm = self._pm_cache[id(fi.fn)] = parent_map(fi.fn)
        seen_nodes = set()

        def add_store(node, target_expr, how):
            roots = self.roots_of(fi, target_expr, env, lt)
            roots = {r for r in roots if r != 'FRESH'}
            if not roots:
                return
            attr = _self_attr(target_expr, env)
            st = Store(node, roots, how, fi, attr)
            st.guarded = _guarded_lazy(node, attr, pm) if attr else False
            if st.guarded:
                gap = _memo_key_gap(node, fi.fn)
                if gap:
                    # a memo whose key does not determine the stored value is not a lazy initialisation
                    st.guarded = False
                    st.how = f'{how} into a memo ({gap})'
            stores.append(st)

        def bind(t, v, strong):
            for name, src in _bind(t, v):
                r = self.roots_of(fi, src, env, lt)
                if strong:
                    env[name] = set(r)
                else:
                    env[name] = env.get(name, set()) | r

        def effects_of_expr_nodes(root):
            """stores / calls / property loads inside one simple statement or expression"""
            for n in walk_no_nested(root):
                if id(n) in seen_nodes:
                    continue
                if isinstance(n, (ast.comprehension,)):
                    bind(n.target, ast.Subscript(value=n.iter, slice=ast.Constant(value=0), ctx=ast.Load()), False)
                if isinstance(n, ast.NamedExpr):
                    bind(n.target, n.value, False)
            for n in walk_no_nested(root):
                if id(n) in seen_nodes:
                    continue
                seen_nodes.add(id(n))
                if isinstance(n, ast.Call):
                    f = n.func
                    if isinstance(f, ast.Attribute) and f.attr in INPLACE:
                        add_store(n, f.value, f'in-place method .{f.attr}()')
                    for kw in n.keywords:
                        if kw.arg == 'out':
                            add_store(n, kw.value, 'out= argument')
                    if isinstance(f, ast.Attribute):
                        try:
                            d = ast.unparse(f)
                        except Exception:
                            d = ''
                        if d.split('.')[0] in ('np', 'numpy') and f.attr in NP_STORE_FUNCS and n.args:
                            add_store(n, n.args[0], f'np.{f.attr}')
                    targets = self.resolve_call(fi, n, lt)
                    recv_roots = self.roots_of(fi, f.value, env, lt) if isinstance(f, ast.Attribute) else set()
                    calls.append((n, targets, recv_roots))
                    for t in targets:
                        is_ctor = t.fn.name == '__init__' and not (isinstance(f, ast.Attribute) and f.attr == '__init__')
                        for i in t.mut_params:
                            if i == 0 and t.ci is not None:
                                continue            # receiver state handled through self_writes
                            arg = _arg_for_param(n, t, i, ctor=is_ctor)
                            if arg is not None:
                                r = {x for x in self.roots_of(fi, arg, env, lt) if x != 'FRESH'}
                                if r:
                                    stores.append(Store(n, r, f'passed to {t.qual}, which stores through its parameter '
                                                              f"'{t.params[i]}'", fi, _self_attr(arg, env)))
                        if t.self_writes and t.ci is not None and not is_ctor:
                            rr = {x for x in recv_roots if x != 'FRESH'}
                            if isinstance(f, ast.Attribute) and isinstance(f.value, ast.Call) \
                                    and isinstance(f.value.func, ast.Name) and f.value.func.id == 'super':
                                rr = {'P0'}
                            if rr:
                                for w in t.self_writes:
                                    st = Store(w.node if w.func is not fi else n, set(rr), w.how, w.func, w.attr)
                                    st.guarded = w.guarded or _call_guarded_once(n, t, pm)
                                    stores.append(st)
                elif isinstance(n, ast.Attribute) and isinstance(n.ctx, ast.Load):
                    props = self.resolve_property(fi, n, lt)
                    if props:
                        recv_roots = self.roots_of(fi, n.value, env, lt)
                        prop_loads.append((n, props, recv_roots))
                        rr = {x for x in recv_roots if x != 'FRESH'}
                        if rr:
                            for p_ in props:
                                for w in p_.self_writes:
                                    st = Store(w.node, set(rr), w.how, w.func, w.attr)
                                    st.guarded = w.guarded
                                    stores.append(st)

        def visit(stmts, strong):
            for n in stmts:
                if isinstance(n, (ast.FunctionDef, ast.AsyncFunctionDef, ast.ClassDef)):
                    continue
                if isinstance(n, (ast.Assign, ast.AnnAssign)):
                    if isinstance(n, ast.AnnAssign) and n.value is None:
                        continue
                    effects_of_expr_nodes(n.value)
                    targets = n.targets if isinstance(n, ast.Assign) else [n.target]
                    for t in targets:
                        for sub in _flatten_targets(t):
                            if isinstance(sub, ast.Subscript):
                                effects_of_expr_nodes(sub)
                                add_store(n, sub.value, 'item assignment')
                            elif isinstance(sub, ast.Attribute):
                                if isinstance(sub.value, ast.Name) and sub.value.id == 'self' and fi.ci is not None:
                                    st = Store(n, {'P0'}, 'attribute assignment', fi, sub.attr)
                                    st.guarded = _guarded_lazy(n, sub.attr, pm)
                                    stores.append(st)
                                else:
                                    add_store(n, sub.value, 'attribute assignment')
                    for t in targets:
                        bind(t, n.value, strong)
                elif isinstance(n, ast.AugAssign):
                    effects_of_expr_nodes(n.value)
                    t = n.target
                    if isinstance(t, ast.Subscript):
                        effects_of_expr_nodes(t)
                        add_store(n, t.value, 'augmented item assignment')
                    elif isinstance(t, ast.Attribute):
                        if isinstance(t.value, ast.Name) and t.value.id == 'self' and fi.ci is not None:
                            st = Store(n, {'P0'}, 'augmented attribute assignment', fi, t.attr)
                            st.guarded = _guarded_lazy(n, t.attr, pm)
                            stores.append(st)
                        else:
                            add_store(n, t, 'augmented attribute assignment (in place for arrays)')
                    elif isinstance(t, ast.Name):
                        r = {x for x in env.get(t.id, set()) if x != 'FRESH'}
                        if r:
                            stores.append(Store(n, r, 'augmented assignment (in place for arrays)', fi,
                                                _self_attr(t, env)))
                elif isinstance(n, ast.Delete):
                    for t in n.targets:
                        if isinstance(t, ast.Subscript):
                            add_store(n, t.value, 'del item')
                elif isinstance(n, ast.If):
                    effects_of_expr_nodes(n.test)
                    if strong:
                        # each arm sees its own rebindings (x = list(x); x[0] = ... inside the arm stores into the copy);
                        # the two arms are joined afterwards
                        before = {k_: set(v_) for k_, v_ in env.items()}
                        visit(n.body, True)
                        after_body = {k_: set(v_) for k_, v_ in env.items()}
                        env.clear()
                        env.update({k_: set(v_) for k_, v_ in before.items()})
                        visit(n.orelse, True)
                        for k_, v_ in after_body.items():
                            env[k_] = set(env.get(k_, set())) | v_
                    else:
                        visit(n.body, False)
                        visit(n.orelse, False)
                elif isinstance(n, (ast.For, ast.AsyncFor)):
                    effects_of_expr_nodes(n.iter)
                    for _ in range(2):
                        bind(n.target, ast.Subscript(value=n.iter, slice=ast.Constant(value=0), ctx=ast.Load()), False)
                        visit(n.body, False)
                    visit(n.orelse, False)
                elif isinstance(n, ast.While):
                    effects_of_expr_nodes(n.test)
                    for _ in range(2):
                        visit(n.body, False)
                    visit(n.orelse, False)
                elif isinstance(n, ast.Try):
                    visit(n.body, False)
                    for h in n.handlers:
                        visit(h.body, False)
                    visit(n.orelse, False)
                    visit(n.finalbody, False)
                elif isinstance(n, (ast.With, ast.AsyncWith)):
                    for it_ in n.items:
                        effects_of_expr_nodes(it_.context_expr)
                        if it_.optional_vars is not None:
                            bind(it_.optional_vars, it_.context_expr, False)
                    visit(n.body, strong)
                else:
                    effects_of_expr_nodes(n)

        visit(fi.fn.body, True)
        nodes = list(walk_no_nested(fi.fn))
        ret_env = env
        # summary
        mut = set()
        self_w: List[Store] = []
        for st in stores:
            for r in st.roots:
                if r.startswith('P') and r[1:].isdigit():
                    i = int(r[1:])
                    if i == 0 and fi.ci is not None:
                        self_w.append(st)
                    elif not st.guarded:
                        mut.add(i)          # guarded lazy caches of an argument object are benign
                elif r == 'PERSIST':
                    self_w.append(st)
        ret: Set[str] = set()
        for n in nodes:
            if isinstance(n, ast.Return) and n.value is not None:
                ret |= self.roots_of(fi, n.value, env, lt)
        if not ret:
            ret = {'FRESH'}
        key_old = (frozenset(fi.mut_params), frozenset(fi.ret_roots),
                   frozenset((id(s.node), s.attr, s.guarded) for s in fi.self_writes))
        fi.mut_params = mut
        fi.ret_roots = ret
        # de-duplicate self writes by (node, attr)
        seen = set()
        sw = []
        for s in self_w:
            k = (id(s.node), s.attr, s.func.qual)
            if k not in seen:
                seen.add(k)
                sw.append(s)
        fi.self_writes = sw
        uniq, seen_s = [], set()
        for st in stores:
            k = (id(st.node), st.how, st.attr, frozenset(st.roots), st.func.qual)
            if k not in seen_s:
                seen_s.add(k)
                uniq.append(st)
        fi.stores = uniq
        fi.calls = calls
        fi.prop_loads = prop_loads
        key_new = (frozenset(fi.mut_params), frozenset(fi.ret_roots),
                   frozenset((id(s.node), s.attr, s.guarded) for s in fi.self_writes))
        return key_new != key_old

    def _fixpoint(self) -> None:
        funcs = list(self.funcs.values())
        dirty = set(id(f) for f in funcs)
        by_id = {id(f): f for f in funcs}
        callers: Dict[int, Set[int]] = {}
        rounds = 0
        while dirty and rounds < 40:
            rounds += 1
            batch = [by_id[i] for i in dirty]
            dirty = set()
            for fi in batch:
                changed = self._analyse(fi)
                for _, targets, _ in fi.calls:
                    for t in targets:
                        callers.setdefault(id(t), set()).add(id(fi))
                for _, props, _ in fi.prop_loads:
                    for t in props:
                        callers.setdefault(id(t), set()).add(id(fi))
                if changed:
                    dirty |= callers.get(id(fi), set())
        self.rounds = rounds

    # ------------------------------------------------------------ reachability
    def reachable(self, roots: List[FuncInfo]) -> List[FuncInfo]:
        seen: List[FuncInfo] = []
        work = list(roots)
        while work:
            f = work.pop()
            if f in seen:
                continue
            seen.append(f)
            for _, targets, _ in f.calls:
                work.extend(targets)
            for _, props, _ in f.prop_loads:
                work.extend(props)
        return seen


# ------------------------------------------------------------------ helpers

def _is_basic_slice(s: ast.AST) -> bool:
    if isinstance(s, ast.Slice):
        return True
    if isinstance(s, ast.Tuple):
        return all(isinstance(x, ast.Slice) or _is_int_index(x) or
                   (isinstance(x, ast.Constant) and x.value in (None, Ellipsis)) for x in s.elts) \
            and any(isinstance(x, ast.Slice) for x in s.elts)
    return False


def _is_int_index(s: ast.AST) -> bool:
    if isinstance(s, ast.Constant) and isinstance(s.value, int):
        return True
    if isinstance(s, ast.UnaryOp) and isinstance(s.op, ast.USub) and isinstance(s.operand, ast.Constant):
        return True
    return False


def _flatten_targets(t: ast.AST):
    if isinstance(t, (ast.Tuple, ast.List)):
        for e in t.elts:
            yield from _flatten_targets(e)
    elif isinstance(t, ast.Starred):
        yield from _flatten_targets(t.value)
    else:
        yield t


def _bind(t: ast.AST, v: ast.AST):
    """(name, source expr) pairs of an assignment, position-wise for tuple displays."""
    if isinstance(t, ast.Name):
        yield t.id, v
    elif isinstance(t, (ast.Tuple, ast.List)):
        if isinstance(v, (ast.Tuple, ast.List)) and len(v.elts) == len(t.elts) \
                and not any(isinstance(e, ast.Starred) for e in t.elts):
            for a, b in zip(t.elts, v.elts):
                yield from _bind(a, b)
        else:
            for a in t.elts:
                yield from _bind(a.value if isinstance(a, ast.Starred) else a, v)
    elif isinstance(t, ast.Starred):
        yield from _bind(t.value, v)


def _self_attr(e: ast.AST, env) -> Optional[str]:
    """First attribute of self on the access path of e (self.a.b[c] -> 'a'); follows local aliases by name
    only when the local is bound exactly once from such a path (best effort, for messages and guard checks)."""
    chain = []
    while isinstance(e, (ast.Attribute, ast.Subscript, ast.Call)):
        if isinstance(e, ast.Attribute):
            chain.append(e.attr)
            e = e.value
        elif isinstance(e, ast.Subscript):
            e = e.value
        else:
            e = e.func
    if isinstance(e, ast.Name) and e.id == 'self' and chain:
        return chain[-1]
    return None


def _only_scalar_rhs(n: ast.AugAssign) -> bool:
    return False


def _arg_for_param(call: ast.Call, t: FuncInfo, i: int, ctor: Optional[bool] = None) -> Optional[ast.AST]:
    """Argument expression bound to parameter index i of target t at this call (None if not passed)."""
    is_method = t.ci is not None
    if ctor is None:
        ctor = t.fn.name == '__init__' and not (isinstance(call.func, ast.Attribute) and call.func.attr == '__init__')
    bound_self = is_method and (isinstance(call.func, ast.Attribute) or ctor)
    static = any(d == 'staticmethod' for d in decorator_names(t.fn))
    if static:
        bound_self = False
    pos = i - 1 if bound_self else i
    if i == 0 and bound_self:
        return call.func.value if isinstance(call.func, ast.Attribute) else None
    name = t.params[i] if i < len(t.params) else None
    for kw in call.keywords:
        if kw.arg == name:
            return kw.value
    plain = [a for a in call.args]
    if 0 <= pos < len(plain) and not any(isinstance(a, ast.Starred) for a in plain[:pos + 1]):
        return plain[pos]
    return None


def _guarded_lazy(node: ast.AST, attr: Optional[str], pm: Dict[ast.AST, ast.AST]) -> bool:
    """Store to self.<attr> that is control dependent on a test of the same attribute."""
    if not attr:
        return False
    def mentions(test) -> bool:
        for a in ast.walk(test):
            if isinstance(a, ast.Attribute) and isinstance(a.value, ast.Name) and a.value.id == 'self' \
                    and a.attr == attr:
                return True
            if isinstance(a, ast.Call) and isinstance(a.func, ast.Name) and a.func.id == 'hasattr' \
                    and len(a.args) == 2 and isinstance(a.args[1], ast.Constant) and a.args[1].value == attr:
                return True
        return False
    cur = node
    while cur in pm:
        par = pm[cur]
        if isinstance(par, ast.If) and cur in par.body and mentions(par.test):
            return True
        # guard-clause form: `if <already initialised>: return ...` earlier in the same block
        for field in ('body', 'orelse', 'finalbody'):
            block = getattr(par, field, None)
            if isinstance(block, list) and cur in block:
                for prev in block[:block.index(cur)]:
                    if isinstance(prev, ast.If) and mentions(prev.test) and prev.body and \
                            isinstance(prev.body[-1], (ast.Return, ast.Raise, ast.Continue)):
                        return True
        cur = par
    return False


_LOSSLESS_METHODS = {'tobytes', 'tolist', 'astype', 'copy', 'ravel', 'flatten', 'items', 'tostring'}
_LOSSLESS_FUNCS = {'tuple', 'bytes', 'id', 'frozenset', 'list'}


def _memo_key_gap(node: ast.AST, fn: ast.AST, include_self: bool = False) -> Optional[str]:
    """For `self.memo[key] = value`: the parameters of `fn` the value is computed from that the key does not
    cover losslessly (the parameter itself, id(), tuple()/bytes()/tolist()/tobytes() of it).  A key built from
    a projection (`.shape`, `len()`, a sum ...) lets two different inputs share one entry."""
    if not (isinstance(node, ast.Assign) and len(node.targets) == 1 and isinstance(node.targets[0], ast.Subscript)):
        return None
    key, val = node.targets[0].slice, node.value
    a = fn.args
    params = {x.arg for x in a.posonlyargs + a.args + a.kwonlyargs}
    if not include_self:
        params -= {'self', 'cls'}           # a memo kept ON the object need not name the object
    if a.vararg:
        params.add(a.vararg.arg)
    if a.kwarg:
        params.add(a.kwarg.arg)
    defs: Dict[str, List[ast.AST]] = {}
    for n in walk_no_nested(fn):
        if isinstance(n, ast.Assign):
            for t in n.targets:
                if isinstance(t, ast.Name):
                    defs.setdefault(t.id, []).append(n.value)
                elif isinstance(t, (ast.Tuple, ast.List)):
                    for e in ast.walk(t):
                        if isinstance(e, ast.Name):
                            defs.setdefault(e.id, []).append(n.value)
        elif isinstance(n, (ast.AugAssign, ast.AnnAssign)) and isinstance(n.target, ast.Name) and n.value is not None:
            defs.setdefault(n.target.id, []).append(n.value)
        elif isinstance(n, (ast.For, ast.comprehension)):
            for e in ast.walk(n.target):
                if isinstance(e, ast.Name):
                    defs.setdefault(e.id, []).append(n.iter)

    def deps(e, seen) -> Set[str]:
        out: Set[str] = set()
        for x in ast.walk(e):
            if isinstance(x, ast.Name) and isinstance(x.ctx, ast.Load):
                if x.id in params and x.id not in defs:
                    out.add(x.id)
                elif x.id in defs and x.id not in seen:
                    seen.add(x.id)
                    if x.id in params:
                        out.add(x.id)
                    for d in defs[x.id]:
                        out |= deps(d, seen)
        return out

    def cover(e, seen) -> Set[str]:
        if isinstance(e, ast.Name):
            if e.id in params and e.id not in defs:
                return {e.id}
            if len(defs.get(e.id, ())) == 1 and e.id not in seen:
                return cover(defs[e.id][0], seen | {e.id})
            return set()
        if isinstance(e, (ast.Tuple, ast.List)):
            out: Set[str] = set()
            for x in e.elts:
                out |= cover(x, seen)
            return out
        if isinstance(e, ast.Call) and not e.keywords:
            if isinstance(e.func, ast.Name) and e.func.id in _LOSSLESS_FUNCS and len(e.args) == 1:
                return cover(e.args[0], seen)
            if isinstance(e.func, ast.Attribute) and e.func.attr in _LOSSLESS_METHODS:
                return cover(e.func.value, seen)
        return set()

    need = deps(val, set())
    have = cover(key, set())
    missing = sorted(need - have)
    if missing:
        return (f'the stored value is computed from {missing} but the key `{norm_stmt(key, 80)}` does not determine '
                f'{"it" if len(missing) == 1 else "them"}: different inputs share one entry')
    return None


def _call_guarded_once(call: ast.Call, target: FuncInfo, pm: Dict[ast.AST, ast.AST]) -> bool:
    """`if not self.FLAG: self.init()` where init() ends up setting self.FLAG = True."""
    flags = set()
    for n in ast.walk(target.fn):
        if isinstance(n, ast.Assign) and len(n.targets) == 1 and isinstance(n.targets[0], ast.Attribute) \
                and isinstance(n.targets[0].value, ast.Name) and n.targets[0].value.id == 'self' \
                and isinstance(n.value, ast.Constant) and n.value.value is True:
            flags.add(n.targets[0].attr)
    if not flags:
        return False
    cur = call
    while cur in pm:
        par = pm[cur]
        if isinstance(par, ast.If) and cur in par.body:
            t = par.test
            if isinstance(t, ast.UnaryOp) and isinstance(t.op, ast.Not) and isinstance(t.operand, ast.Attribute) \
                    and isinstance(t.operand.value, ast.Name) and t.operand.value.id == 'self' \
                    and t.operand.attr in flags:
                return True
        cur = par
    return False
