"""Self-test of the checker on scratch-copy variants of /repo/panqec.

Each variant is a small textual edit of one instance that still compiles:
  fire   - breaks the property; the check must exit 1 and the report must name
           the expected rule
  silent - behaviour-preserving; the check must exit 0 (exit 2 counts as a
           failure of the checker, keeping fail-closed extractors honest)
Variants live in pqv/variants.py.  Scratch copies are created under $TMPDIR,
analysed and deleted within the run; nothing is kept.
"""
from __future__ import annotations

import contextlib
import importlib
import io
import os
import shutil
import sys
import tempfile
from concurrent.futures import ProcessPoolExecutor
from typing import Dict, List, Optional, Tuple

from .report import run_check


def _copy_tree(root: str, dst: str) -> None:
    src = os.path.join(root, 'panqec')
    shutil.copytree(src, os.path.join(dst, 'panqec'),
                    ignore=shutil.ignore_patterns('__pycache__', '*.pyc', 'static', 'templates'))


def _apply_patch(dst: str, patch_rel: str) -> Optional[str]:
    """A variant given as a unified diff (seeded/<id>/patch.diff, refactors/<name>.diff), relative to /verif."""
    import subprocess
    here = os.path.dirname(os.path.dirname(os.path.abspath(__file__)))
    path = os.path.join(here, patch_rel)
    if not os.path.exists(path):
        return f'patch file {patch_rel} missing'
    r = subprocess.run(['patch', '-p1', '-s', '--no-backup-if-mismatch', '-i', path], cwd=dst, capture_output=True, text=True)
    if r.returncode != 0:
        return f'edit anchor: patch {patch_rel} does not apply: {(r.stdout + r.stderr)[-200:]}'
    return None


def _apply(dst: str, edits) -> Optional[str]:
    if isinstance(edits, str):
        return _apply_patch(dst, edits)
    for rel, old, new in edits:
        p = os.path.join(dst, rel)
        with open(p, encoding='utf-8') as f:
            s = f.read()
        if s.count(old) != 1:
            return f'edit anchor occurs {s.count(old)} times in {rel}: {old[:60]!r}'
        s = s.replace(old, new)
        if rel.endswith('.py'):
            try:
                compile(s, rel, 'exec')
            except SyntaxError as e:
                return f'variant does not compile: {e}'
        elif rel.endswith('.json'):
            import json
            try:
                json.loads(s)
            except ValueError as e:
                return f'variant is not valid JSON: {e}'
        with open(p, 'w', encoding='utf-8') as f:
            f.write(s)
    return None


def run_variant(args) -> dict:
    root, var = args
    vid, prop, kind, edits, expect_rule = var
    tmp = tempfile.mkdtemp(prefix='pqv-var-')
    try:
        _copy_tree(root, tmp)
        err = _apply(tmp, edits)
        if err:
            return {'id': vid, 'prop': prop, 'kind': kind, 'ok': False, 'why': err, 'stale': True}
        mod = importlib.import_module(f'pqv.rules.{prop.lower()}')
        buf = io.StringIO()
        with contextlib.redirect_stdout(buf):
            rc = run_check(prop, mod.run, tmp, 'quick', 0, mod.EXPLANATION, write_evidence=False, quiet=True)
        out = buf.getvalue()
        if kind == 'fire':
            ok = rc == 1 and (expect_rule is None or any(
                line.strip().startswith(expect_rule + ' ') for line in out.splitlines()))
            why = '' if ok else f'expected VIOLATION naming {expect_rule}, got rc={rc}: {out[-400:]}'
        else:
            ok = rc == 0
            why = '' if ok else f'expected silence, got rc={rc}: {out[-400:]}'
        return {'id': vid, 'prop': prop, 'kind': kind, 'ok': ok, 'why': why, 'rc': rc}
    except Exception as e:  # noqa
        return {'id': vid, 'prop': prop, 'kind': kind, 'ok': False, 'why': f'exception {e!r}'}
    finally:
        shutil.rmtree(tmp, ignore_errors=True)


def run_selftest(root: str, prop: Optional[str] = None, jobs: int = 16) -> dict:
    from . import variants
    vs = [v for v in variants.VARIANTS if prop is None or v[1] == prop]
    if not vs:
        return {'variants': 0, 'passed': 0, 'failed': []}
    with ProcessPoolExecutor(max_workers=min(jobs, len(vs))) as ex:
        res = list(ex.map(run_variant, [(root, v) for v in vs]))
    failed = [r for r in res if not r['ok']]
    return {'variants': len(res), 'passed': len(res) - len(failed),
            'fire': sum(1 for r in res if r['kind'] == 'fire'),
            'silent': sum(1 for r in res if r['kind'] == 'silent'),
            'failed': failed}
