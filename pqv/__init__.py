"""pqv - repository-specific static analysis of panqec (see /verif/DESIGN.md)."""
