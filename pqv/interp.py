"""A small abstract interpreter over Python ASTs (engine F/S of DESIGN.md).

It is *not* an executor of panqec: it interprets single functions of the
package over abstract values.  Unknown values are `TOP`; a branch on an unknown
condition forks the path (all paths are enumerated by replaying the function
with a choice oracle); abstract domains are ordinary Python classes that
overload operators (events of a Pauli channel, halves of a BSF vector, linear
forms ...) so the interpreter itself stays generic.  Anything it does not
understand on a path that matters raises `Unsupported`, which rules turn into
ANALYSIS-ERROR (fail closed).
"""
from __future__ import annotations

import ast
import operator
from typing import Any, Callable, Dict, List, Optional, Tuple

from .model import AnalysisError, ClassInfo, Model, ModuleInfo


class Unsupported(Exception):
    def __init__(self, node: Optional[ast.AST], msg: str):
        super().__init__(msg)
        self.node = node
        self.msg = msg


class PathRaise(Exception):
    """The interpreted path raises an exception."""

    def __init__(self, exc_name: str, node: Optional[ast.AST] = None):
        super().__init__(exc_name)
        self.exc_name = exc_name
        self.node = node


class _Return(Exception):
    def __init__(self, value):
        self.value = value


class _Break(Exception):
    pass


class _Continue(Exception):
    pass


class TooManyPaths(Exception):
    pass


NOT_HANDLED = object()

# Host-implemented abstract containers (e.g. numpy object arrays holding symbolic
# entries, used by the analyser as its own data structure): attribute access,
# indexing, operators and bound-method calls on them are performed for real.
HOST_TYPES: tuple = ()


def register_host_type(t) -> None:
    global HOST_TYPES
    if t not in HOST_TYPES:
        HOST_TYPES = HOST_TYPES + (t,)


_HOST_BUILTINS = {'builtins.str': str, 'builtins.int': int, 'builtins.float': float, 'builtins.bool': bool}


def to_host_index(idx):
    if isinstance(idx, Ext) and idx.name in _HOST_BUILTINS:
        return _HOST_BUILTINS[idx.name]
    if isinstance(idx, Ext) and idx.name.startswith('numpy.') and idx.name.count('.') == 1:
        import numpy
        t = getattr(numpy, idx.name[6:], None)
        if isinstance(t, type):
            return t
    if isinstance(idx, SliceV):
        return slice(idx.lo, idx.hi, idx.step)
    if isinstance(idx, tuple):
        return tuple(to_host_index(i) for i in idx)
    return idx


class TopT:
    """Unknown value: absorbs every operation."""
    _inst = None

    def __new__(cls):
        if cls._inst is None:
            cls._inst = super().__new__(cls)
        return cls._inst

    def __repr__(self):
        return 'TOP'

    def _t(self, *a, **k):
        return self

    __add__ = __radd__ = __sub__ = __rsub__ = __mul__ = __rmul__ = _t
    __truediv__ = __rtruediv__ = __floordiv__ = __rfloordiv__ = _t
    __mod__ = __rmod__ = __pow__ = __rpow__ = __neg__ = __pos__ = __invert__ = _t
    __and__ = __rand__ = __or__ = __ror__ = __xor__ = __rxor__ = _t
    __matmul__ = __rmatmul__ = __lshift__ = __rshift__ = _t
    __hash__ = object.__hash__


TOP = TopT()


def is_top(v) -> bool:
    return v is TOP


class Ext:
    """A name from outside the package (numpy.log, pymatching.Matching, ...)."""

    def __init__(self, name: str):
        self.name = name

    def __repr__(self):
        return f'Ext({self.name})'

    def __eq__(self, o):
        return isinstance(o, Ext) and o.name == self.name

    def __hash__(self):
        return hash(('Ext', self.name))


class ClassRef:
    def __init__(self, ci: ClassInfo):
        self.ci = ci

    def __repr__(self):
        return f'ClassRef({self.ci.name})'


class ModuleRef:
    def __init__(self, mi: ModuleInfo):
        self.mi = mi


_LOCALS_CACHE: Dict[int, frozenset] = {}


def _local_names(fn) -> frozenset:
    r = _LOCALS_CACHE.get(id(fn))
    if r is None:
        names, declared = set(), set()
        stack = list(fn.body)
        while stack:
            n = stack.pop()
            if isinstance(n, (ast.FunctionDef, ast.AsyncFunctionDef, ast.ClassDef)):
                names.add(n.name)
                continue
            if isinstance(n, ast.Lambda):
                continue
            if isinstance(n, (ast.Global, ast.Nonlocal)):
                declared |= set(n.names)
            if isinstance(n, ast.Name) and isinstance(n.ctx, ast.Store):
                names.add(n.id)
            if isinstance(n, (ast.ListComp, ast.SetComp, ast.GeneratorExp, ast.DictComp)):
                # the targets of a comprehension live in its own scope
                stack.extend([n.key, n.value] if isinstance(n, ast.DictComp) else [n.elt])
                for g in n.generators:
                    stack.append(g.iter)
                    stack.extend(g.ifs)
                continue
            stack.extend(ast.iter_child_nodes(n))
        r = _LOCALS_CACHE[id(fn)] = frozenset(names - declared)
    return r


class GenList(list):
    """The values of a generator (expression or function), produced eagerly; next() consumes from the front."""


_GEN_CACHE: Dict[int, bool] = {}


def _is_generator(fn) -> bool:
    r = _GEN_CACHE.get(id(fn))
    if r is None:
        r = False
        stack = list(fn.body)
        while stack:
            n = stack.pop()
            if isinstance(n, (ast.FunctionDef, ast.AsyncFunctionDef, ast.ClassDef, ast.Lambda)):
                continue
            if isinstance(n, (ast.Yield, ast.YieldFrom)):
                r = True
                break
            stack.extend(ast.iter_child_nodes(n))
        _GEN_CACHE[id(fn)] = r
    return r


def _concrete_number(x) -> bool:
    import numpy as _np
    if isinstance(x, (bool, int, float, complex, _np.generic)):
        return True
    return isinstance(x, _np.ndarray) and x.dtype != object


class Closure:
    def __init__(self, fn, module: ModuleInfo, cls: Optional[ClassInfo] = None, env: Optional['Env'] = None):
        self.fn = fn
        self.module = module
        self.cls = cls
        self.env = env

    def __repr__(self):
        return f'Closure({getattr(self.fn, "name", "<lambda>")})'


class Obj:
    """Abstract instance of a project class."""
    _n = 0

    def __init__(self, ci: Optional[ClassInfo], label: str = ''):
        self.ci = ci
        self.fields: Dict[str, Any] = {}
        Obj._n += 1
        self.label = label or f'{ci.name if ci else "obj"}#{Obj._n}'

    def __repr__(self):
        return f'Obj({self.label})'


class BoundMethod:
    def __init__(self, obj, closure: Closure):
        self.obj = obj
        self.closure = closure


class SuperRef:
    def __init__(self, obj: Obj, after: ClassInfo):
        self.obj = obj
        self.after = after


class Env:
    def __init__(self, module: ModuleInfo, cls: Optional[ClassInfo] = None, parent: Optional['Env'] = None):
        self.vars: Dict[str, Any] = {}
        self.module = module
        self.cls = cls
        self.parent = parent

    def lookup(self, name: str):
        e = self
        while e is not None:
            if name in e.vars:
                return e.vars[name]
            e = e.parent
        return NOT_HANDLED


def truth(v) -> Optional[bool]:
    if v is TOP:
        return None
    t = getattr(v, 'pqv_truth', None)
    if t is not None:
        return t()
    if isinstance(v, (Obj, Ext, ClassRef, Closure, BoundMethod, ModuleRef)):
        return True
    if HOST_TYPES and isinstance(v, HOST_TYPES):
        try:
            return bool(v)
        except Exception:
            return None
    try:
        return bool(v)
    except Exception:
        return None


_BIN = {
    ast.Add: operator.add, ast.Sub: operator.sub, ast.Mult: operator.mul, ast.Div: operator.truediv,
    ast.FloorDiv: operator.floordiv, ast.Mod: operator.mod, ast.Pow: operator.pow,
    ast.BitAnd: operator.and_, ast.BitOr: operator.or_, ast.BitXor: operator.xor,
    ast.MatMult: operator.matmul, ast.LShift: operator.lshift, ast.RShift: operator.rshift,
}
_CONCRETE = (int, float, str, bool, tuple, list, dict, set, frozenset, bytes, type(None), range, complex)

_SAFE_BUILTINS: Dict[str, Callable] = {
    'len': len, 'tuple': tuple, 'list': list, 'dict': dict, 'set': set, 'frozenset': frozenset,
    'int': int, 'float': float, 'str': str, 'bool': bool, 'range': range, 'enumerate': enumerate,
    'zip': zip, 'min': min, 'max': max, 'sum': sum, 'any': any, 'all': all, 'sorted': sorted,
    'abs': abs, 'reversed': reversed, 'repr': repr, 'round': round, 'divmod': divmod,
}


def _contains_top(v, depth=0) -> bool:
    if v is TOP:
        return True
    if depth > 3:
        return False
    if isinstance(v, (list, tuple, set, frozenset)):
        return any(_contains_top(x, depth + 1) for x in v)
    if isinstance(v, dict):
        return any(_contains_top(x, depth + 1) for x in v.values()) or any(k is TOP for k in v)
    return False


class AbstractKey:
    """Key of a dictionary entry stored under a key the analysis cannot name (it contains TOP)."""

    def __init__(self, idx):
        self.idx = idx

    def __repr__(self):
        return f'<key {self.idx!r}>'


def _is_abstract(v) -> bool:
    if isinstance(v, GenList):
        return False                # a list of values (produced by a generator): as concrete as its elements
    if HOST_TYPES and isinstance(v, HOST_TYPES):
        return False
    if isinstance(v, _CONCRETE):
        return False
    return type(v).__module__ != 'builtins' or callable(v)


def _deep_abstract(v, depth=0) -> bool:
    if _is_abstract(v):
        return True
    if depth > 3:
        return False
    if isinstance(v, (list, tuple, set, frozenset)):
        return any(_deep_abstract(x, depth + 1) for x in v)
    if isinstance(v, dict):
        return any(_deep_abstract(x, depth + 1) for x in v.values())
    return False


def _hashable_in(idx, d) -> bool:
    try:
        return idx in d
    except TypeError:
        return False


class Hooks:
    """Override in rules.  Every hook may return NOT_HANDLED."""

    def global_name(self, it: 'Interp', name: str, env: Env):
        return NOT_HANDLED

    def attr(self, it: 'Interp', obj, name: str, node: ast.AST):
        return NOT_HANDLED

    def call(self, it: 'Interp', func, args: list, kwargs: dict, node: ast.Call, env: Env):
        return NOT_HANDLED

    def subscript(self, it: 'Interp', obj, idx, node: ast.Subscript, env: Env):
        return NOT_HANDLED

    def store_subscript(self, it: 'Interp', obj, idx, value, node: ast.AST, env: Env):
        return NOT_HANDLED

    def store_attr(self, it: 'Interp', obj, name: str, value, node: ast.AST, env: Env):
        return NOT_HANDLED

    def compare(self, it: 'Interp', op: ast.cmpop, a, b, node: ast.AST):
        return NOT_HANDLED

    def iterate(self, it: 'Interp', value, node: ast.AST):
        return NOT_HANDLED

    def on_stmt(self, it: 'Interp', stmt: ast.stmt, env: Env):
        return None


class Outcome:
    def __init__(self, kind: str, value=None, env: Optional[Env] = None, exc: str = '', node=None,
                 choices: Optional[list] = None):
        self.kind = kind        # 'return' | 'raise'
        self.value = value
        self.env = env
        self.exc = exc
        self.node = node
        self.choices = choices or []

    def __repr__(self):
        return f'Outcome({self.kind}, {self.value if self.kind == "return" else self.exc})'


class Interp:
    MAX_PATHS = 20000
    MAX_DEPTH = 40
    MAX_LOOP = 100000

    def __init__(self, model: Model, hooks: Optional[Hooks] = None):
        self.model = model
        self.hooks = hooks or Hooks()
        self._choices: List[int] = []
        self._arity: List[int] = []
        self._pos = 0
        self._depth = 0
        self.trace: List[Tuple[str, Any]] = []   # free-form facts recorded by hooks on this path

    # ------------------------------------------------------------ path oracle
    def choose(self, n: int, node: Optional[ast.AST] = None) -> int:
        if n <= 1:
            return 0
        if self._pos < len(self._choices):
            c = self._choices[self._pos]
            if self._pos >= len(self._arity):
                self._arity.append(n)
        else:
            c = 0
            self._choices.append(0)
            self._arity.append(n)
        self._pos += 1
        return c

    def _next_choices(self) -> bool:
        while self._choices:
            i = len(self._choices) - 1
            if self._choices[i] + 1 < self._arity[i]:
                self._choices[i] += 1
                self._arity = self._arity[:i + 1]
                return True
            self._choices.pop()
            self._arity = self._arity[:len(self._choices)]
        return False

    def explore(self, thunk: Callable[[], Any], fresh: Optional[Callable[[], None]] = None) -> List[Outcome]:
        """Run `thunk` once per path (choice sequence); collect outcomes."""
        outcomes: List[Outcome] = []
        self._choices, self._arity = [], []
        n = 0
        import copy as _copy
        dc0 = getattr(self, '_default_cache', {})
        while True:
            self._pos = 0
            self._depth = 0
            self.trace = []
            # mutable default arguments live as long as the function: every path starts from the state the previous
            # explore() left (paths are alternatives, not a sequence)
            try:
                self._default_cache = _copy.deepcopy(dc0)
            except Exception:
                self._default_cache = {}
            if fresh:
                fresh()
            try:
                v = thunk()
                outcomes.append(Outcome('return', v, choices=list(self._choices)))
            except PathRaise as e:
                outcomes.append(Outcome('raise', exc=e.exc_name, node=e.node, choices=list(self._choices)))
            outcomes[-1].trace = list(self.trace)
            n += 1
            if n > self.MAX_PATHS:
                raise TooManyPaths()
            if not self._next_choices():
                break
        return outcomes

    # ------------------------------------------------------------- functions
    def call_closure(self, clo: Closure, args: list, kwargs: dict, node: Optional[ast.AST] = None,
                     self_obj=None):
        fn = clo.fn
        self._depth += 1
        if self._depth > self.MAX_DEPTH:
            self._depth -= 1
            if getattr(self, 'recursion_raises', True):
                raise PathRaise('RecursionError', node)
            return TOP
        try:
            env = Env(clo.module, clo.cls, clo.env)
            env.fn = fn
            if isinstance(fn, ast.Lambda):
                self._bind_args(fn.args, args, kwargs, env, fn)
                return self.ev(fn.body, env)
            self._bind_args(fn.args, ([self_obj] if self_obj is not None else []) + list(args), kwargs, env, fn)
            if _is_generator(fn):
                # generator function: evaluated eagerly, the values it yields collected in order (exact for generators
                # whose body has no effect the consumer could observe between two values)
                env.yields = GenList()
                try:
                    self.exec_block(fn.body, env)
                except _Return:
                    pass
                return env.yields
            try:
                self.exec_block(fn.body, env)
            except _Return as r:
                return r.value
            return None
        finally:
            self._depth -= 1

    def _ev_Yield(self, node, env):
        e = env
        while e is not None and not hasattr(e, 'yields'):
            e = e.parent
        if e is None:
            raise Unsupported(node, 'yield outside a generator function')
        e.yields.append(self.ev(node.value, env) if node.value is not None else None)
        return None

    def _ev_YieldFrom(self, node, env):
        e = env
        while e is not None and not hasattr(e, 'yields'):
            e = e.parent
        if e is None:
            raise Unsupported(node, 'yield from outside a generator function')
        v = self.ev(node.value, env)
        if v is TOP:
            raise Unsupported(node, 'yield from an untracked iterable')
        e.yields.extend(self.iterate(v, node))
        return None

    def _bind_args(self, a: ast.arguments, args: list, kwargs: dict, env: Env, fn) -> None:
        params = [p.arg for p in a.posonlyargs + a.args]
        defaults = a.defaults
        nd = len(defaults)
        kwargs = dict(kwargs)
        for i, p in enumerate(params):
            if i < len(args):
                env.vars[p] = args[i]
            elif p in kwargs:
                env.vars[p] = kwargs.pop(p)
            else:
                di = i - (len(params) - nd)
                if di >= 0:
                    env.vars[p] = self._default_value(defaults[di], env)
                else:
                    env.vars[p] = TOP
        extra = args[len(params):]
        if a.vararg:
            env.vars[a.vararg.arg] = tuple(extra)
        for p, d in zip(a.kwonlyargs, a.kw_defaults):
            if p.arg in kwargs:
                env.vars[p.arg] = kwargs.pop(p.arg)
            elif d is not None:
                env.vars[p.arg] = self._default_value(d, env)
            else:
                env.vars[p.arg] = TOP
        if a.kwarg:
            env.vars[a.kwarg.arg] = kwargs

    def _default_value(self, node: ast.expr, env: Env):
        """Default values are evaluated once, when the function is defined: a mutable default (`opts={}`) is one
        object shared by all calls."""
        cache = self.__dict__.setdefault('_default_cache', {})
        k = id(node)
        if k in cache:
            return cache[k]
        v = self.ev(node, env)
        if isinstance(v, (dict, list, set)):
            cache[k] = v
        return v

    # ------------------------------------------------------------ statements
    def exec_block(self, stmts: List[ast.stmt], env: Env) -> None:
        for s in stmts:
            self.exec(s, env)

    def exec(self, s: ast.stmt, env: Env) -> None:
        self.hooks.on_stmt(self, s, env)
        if isinstance(s, ast.Expr):
            self.ev(s.value, env)
        elif isinstance(s, ast.Assign):
            v = self.ev(s.value, env)
            for t in s.targets:
                self.assign(t, v, env)
        elif isinstance(s, ast.AnnAssign):
            if s.value is not None:
                self.assign(s.target, self.ev(s.value, env), env)
        elif isinstance(s, ast.AugAssign):
            cur = self.ev(_as_load(s.target), env)
            rhs = self.ev(s.value, env)
            self.assign(s.target, self.binop(s.op, cur, rhs, s), env, aug=True)
        elif isinstance(s, ast.Return):
            raise _Return(self.ev(s.value, env) if s.value is not None else None)
        elif isinstance(s, ast.If):
            t = truth(self.ev(s.test, env))
            if t is None:
                t = self.choose(2, s) == 0
                self.trace.append(('branch', s, t))
            else:
                self.trace.append(('branch-known', s, t))
            self.exec_block(s.body if t else s.orelse, env)
        elif isinstance(s, ast.For):
            self._for(s, env)
        elif isinstance(s, ast.While):
            self._while(s, env)
        elif isinstance(s, ast.Raise):
            name = 'Exception'
            if s.exc is not None:
                e = s.exc.func if isinstance(s.exc, ast.Call) else s.exc
                try:
                    name = ast.unparse(e)
                except Exception:
                    pass
            raise PathRaise(name, s)
        elif isinstance(s, (ast.Pass, ast.Import, ast.ImportFrom, ast.Global, ast.Nonlocal)):
            if isinstance(s, (ast.Import, ast.ImportFrom)):
                self._local_import(s, env)
        elif isinstance(s, ast.Assert):
            t = truth(self.ev(s.test, env))
            if t is False:
                raise PathRaise('AssertionError', s)
        elif isinstance(s, (ast.FunctionDef, ast.AsyncFunctionDef)):
            env.vars[s.name] = Closure(s, env.module, env.cls, env)
        elif isinstance(s, ast.Break):
            raise _Break()
        elif isinstance(s, ast.Continue):
            raise _Continue()
        elif isinstance(s, ast.Try):
            self._try(s, env)
        elif isinstance(s, ast.With):
            for item in s.items:
                v = self.ev(item.context_expr, env)
                if item.optional_vars is not None:
                    self.assign(item.optional_vars, v, env)
            self.exec_block(s.body, env)
        elif isinstance(s, ast.Delete):
            for t in s.targets:
                if isinstance(t, ast.Name):
                    env.vars.pop(t.id, None)
        else:
            raise Unsupported(s, f'statement {type(s).__name__}')

    def _local_import(self, s, env: Env) -> None:
        if isinstance(s, ast.Import):
            for a in s.names:
                nm = a.asname or a.name.split('.')[0]
                dotted = a.name if a.asname else a.name.split('.')[0]
                env.vars[nm] = ModuleRef(self.model.modules[dotted]) if dotted in self.model.modules else Ext(dotted)
        else:
            base = s.module or ''
            if s.level:
                parts = env.module.name.split('.')
                if not env.module.is_package:
                    parts = parts[:-1]
                if s.level > 1:
                    parts = parts[:-(s.level - 1)]
                p = '.'.join(parts)
                base = f'{p}.{base}' if base else p
            for a in s.names:
                nm = a.asname or a.name
                if base in self.model.modules:
                    r = self.model.resolve(self.model.modules[base], a.name)
                    env.vars[nm] = self._wrap_resolved(r, a.name)
                else:
                    env.vars[nm] = Ext(f'{base}.{a.name}')

    def _try(self, s: ast.Try, env: Env) -> None:
        try:
            self.exec_block(s.body, env)
        except PathRaise as e:
            for h in s.handlers:
                names = []
                if h.type is None:
                    names = ['*']
                elif isinstance(h.type, ast.Tuple):
                    names = [ast.unparse(x) for x in h.type.elts]
                else:
                    names = [ast.unparse(h.type)]
                if '*' in names or e.exc_name in names or 'Exception' in names or 'BaseException' in names:
                    if h.name:
                        env.vars[h.name] = TOP
                    self.exec_block(h.body, env)
                    break
            else:
                self.exec_block(s.finalbody, env)
                raise
        else:
            self.exec_block(s.orelse, env)
        self.exec_block(s.finalbody, env)

    def iterate(self, v, node: ast.AST):
        """Return a list of items to iterate over (TOP iterables: one abstract item)."""
        r = self.hooks.iterate(self, v, node)
        if r is not NOT_HANDLED:
            return r
        if v is TOP:
            return [TOP]
        if isinstance(v, GenList):
            # a generator / map / filter object is exhausted by the first iteration over it
            items = list(v)
            del v[:]
            return items
        if HOST_TYPES and isinstance(v, HOST_TYPES):
            try:
                return list(v)
            except TypeError:
                return [TOP]
        if isinstance(v, dict):
            return list(v.keys())
        if isinstance(v, (list, tuple, set, frozenset, str, range)):
            if isinstance(v, range) and len(v) > self.MAX_LOOP:
                raise Unsupported(node, 'range too large')
            return list(v)
        if isinstance(v, (enumerate, zip, reversed, map, filter)) or hasattr(v, '__next__'):
            return list(v)
        if type(v).__module__ == 'builtins' and hasattr(v, '__iter__'):
            return list(v)          # dict views etc.
        return [TOP]

    def _for(self, s: ast.For, env: Env) -> None:
        items = self.iterate(self.ev(s.iter, env), s)
        broke = False
        for it in items:
            self.assign(s.target, it, env)
            try:
                self.exec_block(s.body, env)
            except _Break:
                broke = True
                break
            except _Continue:
                continue
        if not broke:
            self.exec_block(s.orelse, env)

    def _while(self, s: ast.While, env: Env) -> None:
        n = 0
        while True:
            t = truth(self.ev(s.test, env))
            if t is False:
                break
            try:
                self.exec_block(s.body, env)
            except _Break:
                return
            except _Continue:
                pass
            if t is None:
                break        # unknown condition: body summarised by one iteration
            n += 1
            if n > self.MAX_LOOP:
                raise Unsupported(s, 'while loop bound exceeded')
        self.exec_block(s.orelse, env)

    def assign(self, t: ast.AST, v, env: Env, aug: bool = False) -> None:
        if isinstance(t, ast.Name):
            env.vars[t.id] = v
        elif isinstance(t, (ast.Tuple, ast.List)):
            if v is TOP:
                for e in t.elts:
                    self.assign(e.value if isinstance(e, ast.Starred) else e, TOP, env)
                return
            up = getattr(v, 'pqv_unpack', None)
            if up is not None:
                vals = up(len(t.elts))
            else:
                try:
                    vals = list(v)
                except TypeError:
                    vals = [TOP] * len(t.elts)
            if any(isinstance(e, ast.Starred) for e in t.elts):
                k = [i for i, e in enumerate(t.elts) if isinstance(e, ast.Starred)][0]
                after = len(t.elts) - k - 1
                head, star, tail = vals[:k], vals[k:len(vals) - after], vals[len(vals) - after:]
                for e, x in zip(t.elts[:k], head):
                    self.assign(e, x, env)
                self.assign(t.elts[k].value, list(star), env)
                for e, x in zip(t.elts[k + 1:], tail):
                    self.assign(e, x, env)
                return
            if len(vals) != len(t.elts):
                raise PathRaise('ValueError', t)
            for e, x in zip(t.elts, vals):
                self.assign(e, x, env)
        elif isinstance(t, ast.Subscript):
            obj = self.ev(t.value, env)
            idx = self.ev_index(t.slice, env)
            r = self.hooks.store_subscript(self, obj, idx, v, t, env)
            if r is not NOT_HANDLED:
                return
            if HOST_TYPES and isinstance(obj, HOST_TYPES) and not _contains_top(idx):
                try:
                    obj[to_host_index(idx)] = v
                except (IndexError, KeyError, TypeError, ValueError) as e:
                    raise PathRaise(type(e).__name__, t)
                return
            if HOST_TYPES and isinstance(obj, HOST_TYPES) and type(obj).__name__ in ('ndarray', 'MiniCSR'):
                # a store at a position the analysis does not know: dropping it would leave the tracked array wrong
                raise Unsupported(t, f'store into a tracked array at an unknown index {idx!r}')
            si = getattr(obj, 'pqv_setitem', None)
            if si is not None:
                si(idx, v)
                return
            if isinstance(obj, (dict, list)) and not _contains_top(idx) and not isinstance(idx, slice):
                try:
                    obj[idx] = v
                except (IndexError, KeyError, TypeError):
                    raise PathRaise('IndexError', t)
            elif isinstance(obj, dict) and _contains_top(idx):
                obj[AbstractKey(idx)] = v       # an entry under a key the analysis cannot name
            elif obj is not TOP and _is_abstract(obj) and not isinstance(obj, (Obj, Ext)):
                # an abstract value that does not model stores: dropping the store would leave later reads of
                # it wrong without anyone noticing
                raise Unsupported(t, f'item store into {type(obj).__name__} {obj!r}')
            # otherwise: a store into TOP / an opaque object; nothing to track
        elif isinstance(t, ast.Attribute):
            obj = self.ev(t.value, env)
            r = self.hooks.store_attr(self, obj, t.attr, v, t, env)
            if r is not NOT_HANDLED:
                return
            if isinstance(obj, Obj):
                obj.fields[t.attr] = v
            elif hasattr(obj, 'pqv_setattr'):
                try:
                    obj.pqv_setattr(t.attr, v)
                except AttributeError:
                    raise Unsupported(t, f'attribute store {t.attr} on {type(obj).__name__}')
            elif isinstance(obj, (Closure, BoundMethod)) and t.attr in ('__name__', '__qualname__', '__doc__', '__module__',
                                                                         '__wrapped__', '__annotations__'):
                pass                    # metadata of a function object: nothing the interpreted code computes with
            elif obj is not TOP:
                # an effect on a value the analysis tracks but cannot update: never dropped silently
                raise Unsupported(t, f'attribute store {t.attr} on {type(obj).__name__}')
        elif isinstance(t, ast.Starred):
            self.assign(t.value, v, env)
        else:
            raise Unsupported(t, f'assignment target {type(t).__name__}')

    # ----------------------------------------------------------- expressions
    def ev_index(self, node: ast.AST, env: Env):
        if isinstance(node, ast.Slice):
            lo = self.ev(node.lower, env) if node.lower is not None else None
            hi = self.ev(node.upper, env) if node.upper is not None else None
            st = self.ev(node.step, env) if node.step is not None else None
            return SliceV(lo, hi, st)
        if isinstance(node, ast.Tuple):
            return tuple(self.ev_index(e, env) for e in node.elts)
        return self.ev(node, env)

    def binop(self, op: ast.operator, a, b, node: ast.AST):
        f = _BIN.get(type(op))
        if f is None:
            raise Unsupported(node, f'operator {type(op).__name__}')
        if isinstance(a, (list, tuple, dict)) and _contains_top(a) and not isinstance(op, (ast.Add, ast.Mult)):
            return TOP
        if isinstance(op, (ast.BitAnd, ast.BitOr, ast.BitXor)) and (hasattr(a, 'pqv_truth') or hasattr(b, 'pqv_truth')) \
                and all(isinstance(x, bool) or hasattr(x, 'pqv_truth') for x in (a, b)) \
                and not hasattr(a, '__and__') and not hasattr(b, '__and__'):
            ta, tb = truth(a), truth(b)
            if ta is None or tb is None:
                return TOP
            return {ast.BitAnd: ta and tb, ast.BitOr: ta or tb, ast.BitXor: ta != tb}[type(op)]
        try:
            return f(a, b)
        except ZeroDivisionError:
            raise PathRaise('ZeroDivisionError', node)
        except (TypeError, ValueError, OverflowError) as e:
            # both operands are concrete Python / NumPy numbers (no abstract element anywhere): the exception is what the
            # program does
            if _concrete_number(a) and _concrete_number(b):
                raise PathRaise(type(e).__name__, node)
            return TOP

    def ev(self, node: Optional[ast.AST], env: Env):
        if node is None:
            return None
        m = getattr(self, '_ev_' + type(node).__name__, None)
        if m is None:
            raise Unsupported(node, f'expression {type(node).__name__}')
        return m(node, env)

    def _ev_Constant(self, node, env):
        return node.value

    def _wrap_resolved(self, r, name: str):
        if r is None:
            return NOT_HANDLED
        if r[0] == 'class':
            return ClassRef(r[1])
        if r[0] == 'func':
            return Closure(r[2], r[1])
        if r[0] == 'module':
            return ModuleRef(r[1])
        if r[0] == 'external':
            return Ext(r[1])
        if r[0] == 'value':
            return self.ev(r[2], Env(r[1]))
        return NOT_HANDLED

    def _ev_Name(self, node, env):
        v = env.lookup(node.id)
        if v is not NOT_HANDLED:
            return v
        v = self.hooks.global_name(self, node.id, env)
        if v is not NOT_HANDLED:
            return v
        if node.id == 'super':
            return Ext('super')
        if node.id == '__name__':
            return env.module.name
        if node.id == '__file__':
            return env.module.relpath
        if node.id in ('True', 'False', 'None'):  # pragma: no cover
            return {'True': True, 'False': False, 'None': None}[node.id]
        r = self.model.resolve(env.module, node.id)
        v = self._wrap_resolved(r, node.id)
        if v is not NOT_HANDLED:
            return v
        if node.id in _SAFE_BUILTINS:
            return Ext('builtins.' + node.id)
        if node.id in ('isinstance', 'hasattr', 'getattr', 'print', 'type', 'id', 'hash', 'open', 'map',
                       'filter', 'iter', 'next', 'ValueError', 'TypeError', 'KeyError', 'NotImplementedError',
                       'Exception', 'KeyboardInterrupt', 'IndexError', 'RuntimeError', 'object', 'setattr', 'slice'):
            return Ext('builtins.' + node.id)
        # a name the function assigns somewhere is local to it: read on a path that has not assigned it, Python raises
        fn = getattr(env, 'fn', None)
        if fn is not None and not isinstance(fn, ast.Lambda) and node.id in _local_names(fn):
            raise PathRaise('UnboundLocalError', node)
        import builtins as _b
        if not hasattr(_b, node.id) and self.model.resolve(env.module, node.id) is None \
                and node.id not in getattr(env.module, 'assigns', {}) and node.id not in getattr(env.module, 'imports', {}):
            # neither a local of any enclosing function, nor a name of the module, nor a builtin: Python raises
            raise PathRaise('NameError', node)
        raise Unsupported(node, f'unbound name {node.id}')

    def _ev_Tuple(self, node, env):
        return tuple(self._elts(node.elts, env))

    def _ev_List(self, node, env):
        return list(self._elts(node.elts, env))

    def _ev_Set(self, node, env):
        vals = self._elts(node.elts, env)
        try:
            return set(vals)
        except TypeError:
            return TOP

    def _elts(self, elts, env):
        out = []
        for e in elts:
            if isinstance(e, ast.Starred):
                v = self.ev(e.value, env)
                out.extend(self.iterate(v, e))
            else:
                out.append(self.ev(e, env))
        return out

    def _ev_Dict(self, node, env):
        d = {}
        for k, v in zip(node.keys, node.values):
            if k is None:
                sv = self.ev(v, env)
                if isinstance(sv, dict):
                    d.update(sv)
                else:
                    return TOP
            else:
                kv = self.ev(k, env)
                try:
                    d[kv] = self.ev(v, env)
                except TypeError:
                    return TOP
        return d

    def _ev_JoinedStr(self, node, env):
        parts = []
        for v in node.values:
            if isinstance(v, ast.Constant):
                parts.append(str(v.value))
            else:
                x = self.ev(v.value, env)
                if _is_abstract(x) or _contains_top(x):
                    return TOP
                if v.format_spec is not None:
                    fs = self.ev(v.format_spec, env)
                    if fs is TOP:
                        return TOP
                    try:
                        parts.append(format(x, fs))
                    except Exception:
                        return TOP
                else:
                    conv = {-1: str, 115: str, 114: repr, 97: ascii}[v.conversion]
                    parts.append(conv(x))
        return ''.join(parts)

    def _ev_FormattedValue(self, node, env):  # pragma: no cover
        return self._ev_JoinedStr(ast.JoinedStr(values=[node]), env)

    def _ev_UnaryOp(self, node, env):
        v = self.ev(node.operand, env)
        if isinstance(node.op, ast.Not):
            pn = getattr(v, 'pqv_not', None)
            if pn is not None:
                return pn()
            t = truth(v)
            return TOP if t is None else (not t)
        try:
            if isinstance(node.op, ast.USub):
                return -v
            if isinstance(node.op, ast.UAdd):
                return +v
            if isinstance(node.op, ast.Invert):
                return ~v
        except TypeError:
            return TOP
        raise Unsupported(node, 'unary op')

    def _ev_BinOp(self, node, env):
        return self.binop(node.op, self.ev(node.left, env), self.ev(node.right, env), node)

    def _ev_BoolOp(self, node, env):
        is_and = isinstance(node.op, ast.And)
        unknown = False
        last = None
        for e in node.values:
            v = self.ev(e, env)
            t = truth(v)
            last = v
            if t is None:
                unknown = True
                continue
            if is_and and t is False:
                return v if not unknown else False
            if (not is_and) and t is True:
                return v if not unknown else True
        return TOP if unknown else last

    def _ev_IfExp(self, node, env):
        t = truth(self.ev(node.test, env))
        if t is None:
            t = self.choose(2, node) == 0
        return self.ev(node.body if t else node.orelse, env)

    def _ev_Compare(self, node, env):
        left = self.ev(node.left, env)
        result = True
        unknown = False
        for op, rn in zip(node.ops, node.comparators):
            right = self.ev(rn, env)
            r = self.compare(op, left, right, node)
            if len(node.ops) == 1 and r is not TOP and not isinstance(r, bool):
                return r            # abstract comparison result (term, symbolic array, ...)
            t = truth(r)
            if t is False:
                return False
            if t is None:
                unknown = True
            left = right
        return TOP if unknown else result

    def compare(self, op, a, b, node):
        r = self.hooks.compare(self, op, a, b, node)
        if r is not NOT_HANDLED:
            return r
        if isinstance(op, (ast.Is, ast.IsNot)):
            if a is TOP or b is TOP:
                return TOP
            res = (a is b) or (a is None and b is None) or \
                  (isinstance(a, (bool, type(None))) and isinstance(b, (bool, type(None))) and a == b
                   and type(a) is type(b))
            return res if isinstance(op, ast.Is) else not res
        if isinstance(op, (ast.In, ast.NotIn)):
            if isinstance(b, dict) and any(isinstance(k, AbstractKey) for k in b) \
                    and not (not _contains_top(a) and _hashable_in(a, b)):
                return TOP
            if b is TOP or _is_abstract(b):
                c = getattr(b, 'pqv_contains', None)
                if c is None:
                    return TOP
                res = c(a)
                if res is TOP:
                    return TOP
            else:
                if a is TOP:
                    return TOP
                if _is_abstract(a) and not hasattr(a, 'pqv_concrete_eq'):
                    try:
                        if any(x is a for x in (b.keys() if isinstance(b, dict) else b)):
                            return True if isinstance(op, ast.In) else False
                    except TypeError:
                        pass
                    return TOP          # symbolic value: membership in constants is unknown
                if _contains_top(b):
                    try:
                        if any(x == a for x in (b.keys() if isinstance(b, dict) else b) if x is not TOP):
                            res = True
                        else:
                            return TOP
                    except Exception:
                        return TOP
                else:
                    try:
                        res = a in b
                    except TypeError:
                        return TOP
            return res if isinstance(op, ast.In) else not res
        if a is TOP or b is TOP:
            return TOP
        pc = getattr(a, 'pqv_compare', None)
        pc2 = getattr(b, 'pqv_compare', None)
        if pc is not None:
            r = pc(op, b, False)
            if r is TOP and pc2 is not None:
                r = pc2(op, a, True)
            return r
        if pc2 is not None:
            return pc2(op, a, True)
        if _contains_top(a) or _contains_top(b):
            return TOP
        try:
            if isinstance(op, ast.Eq):
                return a == b
            if isinstance(op, ast.NotEq):
                return a != b
            if _is_abstract(a) or _is_abstract(b):
                return TOP
            if isinstance(op, ast.Lt):
                return a < b
            if isinstance(op, ast.LtE):
                return a <= b
            if isinstance(op, ast.Gt):
                return a > b
            if isinstance(op, ast.GtE):
                return a >= b
        except TypeError:
            return TOP
        except ValueError:
            # e.g. dictionaries holding a list on one side and an array on the other: the comparison itself raises
            raise PathRaise('ValueError', node)
        raise Unsupported(node, 'comparison')

    def _ev_Attribute(self, node, env):
        obj = self.ev(node.value, env)
        return self.getattr(obj, node.attr, node, env)

    def getattr(self, obj, name: str, node, env: Optional[Env] = None):
        r = self.hooks.attr(self, obj, name, node)
        if r is not NOT_HANDLED:
            return r
        if obj is TOP:
            return TOP
        if isinstance(obj, Obj):
            if name in obj.fields:
                return obj.fields[name]
            if name == '__class__':
                return ClassRef(obj.ci) if obj.ci else TOP
            if obj.ci is not None:
                m = obj.ci.find_method(name)
                if m:
                    c, fn = m
                    clo = Closure(fn, c.module, c)
                    if c.is_property(name):
                        return self.call_closure(clo, [], {}, node, self_obj=obj)
                    if any(d == 'staticmethod' for d in _decos(fn)):
                        return clo
                    return BoundMethod(obj, clo)
                a = obj.ci.find_attr(name)
                if a:
                    return self.ev(a[1], Env(a[0].module, a[0]))
            return TOP
        if isinstance(obj, SuperRef):
            mro = obj.obj.ci.mro if obj.obj.ci else []
            if obj.after in mro:
                for c in mro[mro.index(obj.after) + 1:]:
                    if name in c.methods:
                        return BoundMethod(obj.obj, Closure(c.methods[name], c.module, c))
            return TOP
        if isinstance(obj, ClassRef):
            if name == '__name__':
                return obj.ci.name
            a = obj.ci.find_attr(name)
            if a:
                return self.ev(a[1], Env(a[0].module, a[0]))
            m = obj.ci.find_method(name)
            if m:
                return Closure(m[1], m[0].module, m[0])
            return TOP
        if isinstance(obj, ModuleRef):
            r = self.model.resolve(obj.mi, name)
            v = self._wrap_resolved(r, name)
            return TOP if v is NOT_HANDLED else v
        if isinstance(obj, Ext):
            return Ext(f'{obj.name}.{name}')
        if HOST_TYPES and isinstance(obj, HOST_TYPES):
            try:
                return getattr(obj, name)
            except AttributeError:
                raise PathRaise('AttributeError', node)
        if isinstance(obj, _CONCRETE):
            if _contains_top(obj) and name not in ('append', 'extend', 'insert', 'items', 'keys', 'values',
                                                   'add', 'update', 'copy', 'pop', 'get', 'setdefault'):
                return TOP
            try:
                return getattr(obj, name)
            except AttributeError:
                raise PathRaise('AttributeError', node)
        g = getattr(obj, 'pqv_getattr', None)
        if g is not None:
            return g(name)
        return TOP

    def _ev_Subscript(self, node, env):
        obj = self.ev(node.value, env)
        idx = self.ev_index(node.slice, env)
        r = self.hooks.subscript(self, obj, idx, node, env)
        if r is not NOT_HANDLED:
            return r
        return self.subscript(obj, idx, node)

    def subscript(self, obj, idx, node):
        if obj is TOP:
            return TOP
        g = getattr(obj, 'pqv_getitem', None)
        if g is not None:
            return g(idx)
        if HOST_TYPES and isinstance(obj, HOST_TYPES):
            if _contains_top(idx):
                return TOP
            try:
                return obj[to_host_index(idx)]
            except (IndexError, KeyError, TypeError, ValueError) as e:
                raise PathRaise(type(e).__name__, node)
        if isinstance(obj, dict):
            if any(isinstance(k, AbstractKey) for k in obj) and not (not _contains_top(idx) and _hashable_in(idx, obj)):
                return TOP                      # may or may not be one of the entries stored under unknown keys
            if idx is TOP or _contains_top(idx) or (_deep_abstract(idx) and not _hashable_in(idx, obj)):
                vals = list(obj.values())
                if not vals:
                    raise PathRaise('KeyError', node)
                return vals[self.choose(len(vals), node)]
            try:
                return obj[idx]
            except KeyError:
                raise PathRaise('KeyError', node)
            except TypeError:
                return TOP
        if isinstance(obj, (list, tuple, str, range)):
            if isinstance(idx, SliceV):
                if _contains_top((idx.lo, idx.hi, idx.step)) or any(
                        _is_abstract(x) for x in (idx.lo, idx.hi, idx.step)):
                    return TOP
                return obj[slice(idx.lo, idx.hi, idx.step)]
            if idx is TOP or _is_abstract(idx):
                if len(obj) == 0:
                    raise PathRaise('IndexError', node)
                if isinstance(obj, str):
                    return TOP
                return obj[self.choose(len(obj), node)]
            try:
                return obj[idx]
            except IndexError:
                raise PathRaise('IndexError', node)
            except TypeError:
                return TOP
        return TOP

    def _ev_Slice(self, node, env):  # pragma: no cover
        return self.ev_index(node, env)

    def _ev_Lambda(self, node, env):
        return Closure(node, env.module, env.cls, env)

    def _ev_Starred(self, node, env):  # pragma: no cover
        return self.ev(node.value, env)

    def _ev_NamedExpr(self, node, env):
        v = self.ev(node.value, env)
        self.assign(node.target, v, env)
        return v

    def _comp(self, node, env, kind):
        out = []
        cenv = Env(env.module, env.cls, env)

        def rec(i):
            if i == len(node.generators):
                if kind == 'dict':
                    out.append((self.ev(node.key, cenv), self.ev(node.value, cenv)))
                else:
                    out.append(self.ev(node.elt, cenv))
                return
            g = node.generators[i]
            for it in self.iterate(self.ev(g.iter, cenv), g.iter):
                self.assign(g.target, it, cenv)
                ok = True
                for c in g.ifs:
                    t = truth(self.ev(c, cenv))
                    if t is None:
                        t = self.choose(2, c) == 0
                    if not t:
                        ok = False
                        break
                if ok:
                    rec(i + 1)
        rec(0)
        return out

    def _ev_ListComp(self, node, env):
        return self._comp(node, env, 'list')

    def _ev_GeneratorExp(self, node, env):
        return GenList(self._comp(node, env, 'list'))

    def _ev_SetComp(self, node, env):
        try:
            return set(self._comp(node, env, 'list'))
        except TypeError:
            return TOP

    def _ev_DictComp(self, node, env):
        try:
            return dict(self._comp(node, env, 'dict'))
        except TypeError:
            return TOP

    # ----------------------------------------------------------------- calls
    def _ev_Call(self, node, env):
        # super() is resolved syntactically
        if isinstance(node.func, ast.Name) and node.func.id == 'super' and not node.args:
            self_obj = env.lookup('self')
            e = env
            while e is not None and e.cls is None:
                e = e.parent
            if isinstance(self_obj, Obj) and e is not None and e.cls is not None:
                return SuperRef(self_obj, e.cls)
            return TOP
        func = self.ev(node.func, env)
        args = []
        for a in node.args:
            if isinstance(a, ast.Starred):
                v = self.ev(a.value, env)
                if v is TOP:
                    args.append(TOP)
                else:
                    args.extend(self.iterate(v, a))
            else:
                args.append(self.ev(a, env))
        kwargs = {}
        for k in node.keywords:
            v = self.ev(k.value, env)
            if k.arg is None:
                if isinstance(v, dict):
                    kwargs.update({kk: vv for kk, vv in v.items() if isinstance(kk, str)})
            else:
                kwargs[k.arg] = v
        return self.call(func, args, kwargs, node, env)

    def call(self, func, args, kwargs, node, env):
        r = self.hooks.call(self, func, args, kwargs, node, env)
        if r is not NOT_HANDLED:
            return r
        if func is TOP:
            return TOP
        if isinstance(func, BoundMethod):
            return self.call_closure(func.closure, args, kwargs, node, self_obj=func.obj)
        if isinstance(func, Closure):
            return self.call_closure(func, args, kwargs, node)
        if isinstance(func, ClassRef):
            return self.instantiate(func.ci, args, kwargs, node)
        if isinstance(func, Ext):
            return self.call_ext(func, args, kwargs, node, env)
        c = getattr(func, 'pqv_call', None)
        if c is not None:
            return c(*args, **kwargs)
        if HOST_TYPES and callable(func) and isinstance(getattr(func, '__self__', None), HOST_TYPES):
            if any(a is TOP for a in args) or any(v is TOP for v in kwargs.values()):
                return TOP
            try:
                return func(*[to_host_index(a) for a in args], **kwargs)
            except (KeyError, IndexError, ValueError, TypeError, AttributeError) as e:
                raise PathRaise(type(e).__name__, node)
        if callable(func) and getattr(func, '__self__', None) is not None \
                and isinstance(func.__self__, _CONCRETE):
            # bound method of a concrete builtin value (str.split, list.append, dict.items, ...)
            name = func.__name__
            mutators = ('append', 'extend', 'insert', 'add', 'update', 'setdefault', 'pop', 'remove',
                        'clear', 'sort', 'reverse', 'discard')
            if name in ('index', 'count') and isinstance(func.__self__, (list, tuple)) \
                    and (_contains_top(func.__self__) or _deep_abstract(func.__self__)):
                return TOP                # a search among elements the analysis does not know
            if any(_contains_top(a) or _deep_abstract(a) for a in args) and name not in mutators:
                if name in ('get',) and isinstance(func.__self__, dict):
                    vals = list(func.__self__.values()) + ([args[1]] if len(args) > 1 else [None])
                    return vals[self.choose(len(vals), node)]
                return TOP
            try:
                return func(*args, **kwargs)
            except (KeyError, IndexError, ValueError, TypeError, AttributeError) as e:
                raise PathRaise(type(e).__name__, node)
        return TOP

    def instantiate(self, ci: ClassInfo, args, kwargs, node):
        obj = Obj(ci)
        m = ci.find_method('__init__')
        if m:
            self.call_closure(Closure(m[1], m[0].module, m[0]), args, kwargs, node, self_obj=obj)
            return obj
        # record classes without a hand-written constructor: typing.NamedTuple subclasses and @dataclass classes get
        # one field per annotated class attribute, positional arguments in declaration order
        is_nt = any(str(b).split('.')[-1] == 'NamedTuple' for b in ci.external_bases)
        is_dc = any(d.split('.')[-1].split('(')[0] == 'dataclass' for d in _decos(ci.node))
        if is_nt or is_dc:
            names, defaults = [], {}
            for st in ci.node.body:
                if isinstance(st, ast.AnnAssign) and isinstance(st.target, ast.Name):
                    names.append(st.target.id)
                    if st.value is not None:
                        defaults[st.target.id] = st.value
            if len(args) > len(names) or set(kwargs) - set(names):
                raise PathRaise('TypeError', node)
            env = Env(ci.module)
            for i, nm in enumerate(names):
                if i < len(args):
                    obj.fields[nm] = args[i]
                elif nm in kwargs:
                    obj.fields[nm] = kwargs[nm]
                elif nm in defaults:
                    obj.fields[nm] = self.ev(defaults[nm], env)
                else:
                    raise PathRaise('TypeError', node)
        return obj

    def call_ext(self, func: Ext, args, kwargs, node, env):
        name = func.name
        if name in ('copy.deepcopy', 'copy.copy') and len(args) == 1:
            v = args[0]
            if _contains_top(v):
                return TOP
            if isinstance(v, (dict, list, set)) or (HOST_TYPES and isinstance(v, HOST_TYPES)):
                import copy as _copy
                try:
                    return _copy.deepcopy(v) if name.endswith('deepcopy') else _copy.copy(v)
                except Exception:
                    return TOP
            if isinstance(v, _CONCRETE):
                return v                      # immutable
        if name == 'builtins.next' and args and isinstance(args[0], GenList) and not kwargs and len(args) <= 2:
            if args[0]:
                return args[0].pop(0)
            if len(args) == 2:
                return args[1]
            raise PathRaise('StopIteration', node)
        if name == 'builtins.iter' and len(args) == 1 and isinstance(args[0], (list, tuple, GenList)) and not _contains_top(args[0]):
            return args[0] if isinstance(args[0], GenList) else GenList(args[0])
        if name.startswith('builtins.'):
            b = name[len('builtins.'):]
            if b in _SAFE_BUILTINS:
                if b == 'len' and args and hasattr(args[0], 'pqv_len'):
                    return args[0].pqv_len()
                if b == 'bool' and len(args) == 1 and _is_abstract(args[0]):
                    t = truth(args[0])
                    return TOP if t is None else t
                if any(_is_abstract(a) for a in args):
                    if b in ('tuple', 'list') and len(args) == 1 and hasattr(args[0], 'pqv_unpack'):
                        return TOP
                    return TOP
                if b in ('len',) and _contains_top(args[0]) and isinstance(args[0], (list, tuple, dict)):
                    return len(args[0])
                if b in ('enumerate', 'zip', 'reversed', 'tuple', 'list', 'dict', 'range', 'set', 'sorted') \
                        and not any(a is TOP for a in args):
                    try:
                        r = _SAFE_BUILTINS[b](*args, **kwargs)
                        if b in ('enumerate', 'zip', 'reversed'):
                            r = GenList(r)         # materialised now; one-shot like the object it stands for
                        for a_ in args:
                            if isinstance(a_, GenList):
                                del a_[:]          # consumed
                        if b in ('enumerate', 'zip', 'reversed'):
                            r = list(r)
                        return r
                    except TypeError:
                        return TOP
                if any(_contains_top(a) for a in args):
                    if b in ('any', 'all') and len(args) == 1 and isinstance(args[0], (list, tuple)):
                        ts = [truth(x) for x in args[0]]
                        if b == 'any':
                            return True if True in ts else (TOP if None in ts else False)
                        return False if False in ts else (TOP if None in ts else True)
                    return TOP
                try:
                    r = _SAFE_BUILTINS[b](*args, **kwargs)
                    if b in ('enumerate', 'zip', 'reversed'):
                        r = list(r)
                    return r
                except (TypeError, ValueError) as e:
                    raise PathRaise(type(e).__name__, node)
            if b == 'slice' and 1 <= len(args) <= 3 and not kwargs:
                if len(args) == 1:
                    return SliceV(None, args[0], None)
                return SliceV(args[0], args[1], args[2] if len(args) == 3 else None)
            if b in ('map', 'filter') and len(args) == 2:
                f, seq = args
                if seq is TOP:
                    return TOP
                items = self.iterate(seq, node)
                out = []
                for x in items:
                    if isinstance(f, Ext) and f.name.startswith('builtins.') and f.name[9:] in _SAFE_BUILTINS:
                        r = self.call_ext(f, [x], {}, node, env)
                    else:
                        r = self.call(f, [x], {}, node, env)
                    if b == 'map':
                        out.append(r)
                    else:
                        t = truth(r)
                        if t is None:
                            return TOP
                        if t:
                            out.append(x)
                return GenList(out)          # one-shot, like the map / filter object it stands for
            if b == 'isinstance':
                return self._isinstance(args, node)
            if b == 'print':
                return None
            if b == 'getattr' and 2 <= len(args) <= 3 and isinstance(args[1], str):
                obj = args[0]
                if isinstance(obj, Obj):
                    known = args[1] in obj.fields or (obj.ci is not None and (
                        obj.ci.find_method(args[1]) or obj.ci.find_attr(args[1])))
                    if not known and len(args) == 3:
                        exact = obj.ci is not None and all(not c.external_bases for c in obj.ci.mro)
                        return args[2] if exact else TOP
                return self.getattr(obj, args[1], node, env)
            if b == 'setattr' and len(args) == 3 and isinstance(args[1], str):
                obj = args[0]
                r = self.hooks.store_attr(self, obj, args[1], args[2], node, env)
                if r is not NOT_HANDLED:
                    return None
                if isinstance(obj, Obj):
                    obj.fields[args[1]] = args[2]
                    return None
                if obj is TOP:
                    return None
                raise Unsupported(node, f'setattr on {type(obj).__name__}')
            if b == 'hasattr':
                if len(args) == 2 and isinstance(args[0], Obj) and isinstance(args[1], str):
                    if args[1] in args[0].fields:
                        return True
                    if args[0].ci and (args[0].ci.find_method(args[1]) or args[0].ci.find_attr(args[1])):
                        return True
                    if args[0].ci is not None and not args[0].ci.external_bases and \
                            all(not c.external_bases for c in args[0].ci.mro):
                        return False        # fields of abstract instances are tracked exactly
                    return TOP
                return TOP
            return TOP
        if name in ('collections.Counter', 'collections.OrderedDict', 'collections.defaultdict'):
            import collections as _c
            try:
                if name.endswith('Counter') and not _contains_top(args) and not kwargs:
                    return _c.Counter(*args)
                if name.endswith('OrderedDict') and not _contains_top(args):
                    return dict(*args, **kwargs)          # insertion ordered like every dict
                if name.endswith('defaultdict') and len(args) <= 1 and not kwargs:
                    fac = args[0] if args else None
                    facs = {'builtins.int': int, 'builtins.list': list, 'builtins.dict': dict, 'builtins.set': set,
                            'builtins.float': float, 'builtins.str': str}
                    if fac is None:
                        return _c.defaultdict()
                    if isinstance(fac, Ext) and fac.name in facs:
                        return _c.defaultdict(facs[fac.name])
            except TypeError:
                pass
            return TOP
        if name.startswith('numpy.'):
            # an array function nobody modelled: harmless if it is a pure function (the result is unknown), but it may
            # also write into an array we track (np.add.at, np.put, np.copyto, rng.shuffle ...) - then every later
            # read of that array would be wrong without notice
            from .symnp import _PURE as _pure
            last = name.split('.')[-1]
            if last not in _pure or name.count('.') > 1:
                tracked = [a for a in list(args) + list(kwargs.values())
                           if (HOST_TYPES and isinstance(a, HOST_TYPES) and not isinstance(a, (int, float, complex)))
                           and type(a).__name__ in ('ndarray', 'MiniCSR')]
                if tracked and (last in ('at', 'put', 'place', 'copyto', 'fill_diagonal', 'putmask', 'put_along_axis',
                                         'shuffle', 'setfield', 'resize') or name.count('.') > 1 and last == 'at'):
                    raise Unsupported(node, f'{name} writes into an array the analysis tracks')
        return TOP

    def _isinstance(self, args, node):
        if len(args) != 2:
            return TOP
        v, t = args
        if v is TOP or t is TOP:
            return TOP
        types = t if isinstance(t, tuple) else (t,)
        known = {'builtins.list': list, 'builtins.dict': dict, 'builtins.tuple': tuple, 'builtins.str': str,
                 'builtins.int': int, 'builtins.float': float, 'builtins.bool': bool, 'builtins.set': set}
        if isinstance(v, _CONCRETE):
            res = False
            for x in types:
                if isinstance(x, Ext) and x.name in known:
                    if isinstance(v, known[x.name]):
                        res = True
                elif isinstance(x, Ext) or isinstance(x, ClassRef):
                    continue
                else:
                    return TOP
            return res
        if isinstance(v, Obj) and v.ci is not None:
            for x in types:
                if isinstance(x, ClassRef) and x.ci in v.ci.mro:
                    return True
            if all(isinstance(x, (ClassRef,)) or (isinstance(x, Ext) and x.name in known) for x in types):
                return False
        h = getattr(v, 'pqv_isinstance', None)
        if h is not None:
            return h(types)
        if HOST_TYPES and isinstance(v, HOST_TYPES):
            tn = type(v).__name__
            for x in types:
                if isinstance(x, Ext) and x.name.split('.')[-1] == tn:
                    return True
            if all(isinstance(x, (Ext, ClassRef)) for x in types):
                return False
        return TOP


class SliceV:
    def __init__(self, lo, hi, step=None):
        self.lo, self.hi, self.step = lo, hi, step

    def __repr__(self):
        return f'SliceV({self.lo!r}:{self.hi!r}:{self.step!r})'

    def __eq__(self, o):
        return isinstance(o, SliceV) and (self.lo, self.hi, self.step) == (o.lo, o.hi, o.step)

    def __hash__(self):
        return hash(('SliceV', repr(self)))


def _decos(fn) -> List[str]:
    out = []
    for d in fn.decorator_list:
        if isinstance(d, ast.Call):
            d = d.func
        try:
            out.append(ast.unparse(d))
        except Exception:  # pragma: no cover
            pass
    return out


def _as_load(t: ast.AST) -> ast.AST:
    import copy
    n = copy.copy(t)
    if hasattr(n, 'ctx'):
        n.ctx = ast.Load()
    return n


def site_of(mi: ModuleInfo, node: Optional[ast.AST]) -> str:
    return f'{mi.relpath}:{getattr(node, "lineno", 0)}'


def guard(rule: str, mi: ModuleInfo, fn) -> Callable:
    """Decorator-like helper: convert interpreter failures into AnalysisError."""
    def wrap(thunk):
        try:
            return thunk()
        except Unsupported as e:
            raise AnalysisError(rule, site_of(mi, e.node), f'unsupported construct: {e.msg}')
        except TooManyPaths:
            raise AnalysisError(rule, site_of(mi, fn), 'too many paths')
        except RecursionError:
            raise AnalysisError(rule, site_of(mi, fn), 'recursion limit in abstract interpretation')
    return wrap
