"""Engine A: canonical-form comparison of closed arithmetic expressions.

Expressions are extracted from the AST of straight-line functions (locals
inlined, np.sqrt/np.log/... mapped to symbolic functions) and compared with
the formula stated in the property by sympy (tooling interpreter python3-vt,
one subprocess for a batch of queries).  A difference is reported as a
violation only with a concrete numeric witness (rational point where the two
sides differ); `equal` needs simplify(lhs - rhs) == 0 or agreement at 12
random points when sympy cannot finish the proof (reported as 'numeric').
"""
from __future__ import annotations

import ast
import json
import os
import shutil
import subprocess
from typing import Dict, List, Optional, Tuple

from .model import AnalysisError

_NP_FUNCS = {'sqrt': 'sqrt', 'log': 'log', 'exp': 'exp', 'abs': 'Abs', 'power': 'Pow'}

_WORKER = r'''
import json, sys, random
from sympy import symbols, sympify, simplify, sqrt, log, exp, Abs, Pow, Rational, N, diff, Symbol
qs = json.load(sys.stdin)
out = []
for q in qs:
    names = q["symbols"]
    syms = {n: Symbol(n, positive=True) for n in names}
    ns = dict(syms); ns.update(dict(sqrt=sqrt, log=log, exp=exp, Abs=Abs, Pow=Pow, diff=diff))
    try:
        lhs = sympify(q["lhs"], locals=ns)
        rhs = sympify(q["rhs"], locals=ns)
        d = simplify(lhs - rhs)
        proved = (d == 0)
        rnd = random.Random(12345)
        witness = None
        agree = 0
        for _ in range(12):
            pt = {}
            for n in names:
                lo, hi = q.get("ranges", {}).get(n, [0.05, 0.95])
                pt[syms[n]] = Rational(rnd.randint(int(lo*1000), int(hi*1000)), 1000)
            try:
                a = complex(N(lhs.subs(pt))); b = complex(N(rhs.subs(pt)))
            except Exception:
                continue
            if abs(a - b) > 1e-9 * max(1.0, abs(a), abs(b)):
                witness = {str(k): str(v) for k, v in pt.items()}
                witness["lhs"] = str(a); witness["rhs"] = str(b)
                break
            agree += 1
        out.append({"proved": bool(proved), "witness": witness, "agree": agree, "diff": str(d)})
    except Exception as e:
        out.append({"error": repr(e)})
json.dump(out, sys.stdout)
'''


def to_sympy_src(expr: ast.AST, env: Optional[Dict[str, ast.AST]] = None, depth: int = 0) -> str:
    """Serialise an arithmetic AST expression to sympy syntax, inlining local definitions from env."""
    env = env or {}
    if depth > 20:
        raise ValueError('inlining too deep')

    def rec(n: ast.AST) -> str:
        if isinstance(n, ast.Constant) and isinstance(n.value, (int, float)):
            if isinstance(n.value, float):
                from fractions import Fraction
                f = Fraction(n.value).limit_denominator(10 ** 9)
                return f'Rational({f.numerator},{f.denominator})'
            return str(n.value)
        if isinstance(n, ast.Name):
            if n.id in env:
                return '(' + to_sympy_src(env[n.id], {k: v for k, v in env.items() if k != n.id}, depth + 1) + ')'
            return n.id
        if isinstance(n, ast.BinOp):
            ops = {ast.Add: '+', ast.Sub: '-', ast.Mult: '*', ast.Div: '/', ast.Pow: '**'}
            if type(n.op) not in ops:
                raise ValueError(f'operator {type(n.op).__name__}')
            return f'({rec(n.left)} {ops[type(n.op)]} {rec(n.right)})'
        if isinstance(n, ast.UnaryOp) and isinstance(n.op, ast.USub):
            return f'(-{rec(n.operand)})'
        if isinstance(n, ast.UnaryOp) and isinstance(n.op, ast.UAdd):
            return rec(n.operand)
        if isinstance(n, ast.Call):
            f = ast.unparse(n.func)
            last = f.split('.')[-1]
            if last in _NP_FUNCS and f.split('.')[0] in ('np', 'numpy', 'math', last):
                return f'{_NP_FUNCS[last]}(' + ', '.join(rec(a) for a in n.args) + ')'
            raise ValueError(f'call {f}')
        if isinstance(n, ast.Subscript):
            # dictionary entries such as simulation_data['p_est'] are treated as symbols
            if isinstance(n.slice, ast.Constant) and isinstance(n.slice.value, str):
                key = f'{ast.unparse(n.value)}[{n.slice.value!r}]'
                if key in env:
                    return '(' + to_sympy_src(env[key], {k: v for k, v in env.items() if k != key}, depth + 1) + ')'
                return _symname(n)
            raise ValueError('subscript')
        if isinstance(n, ast.Attribute):
            return _symname(n)
        raise ValueError(f'node {type(n).__name__}')
    return rec(expr)


def _symname(n: ast.AST) -> str:
    s = ast.unparse(n)
    out = ''.join(c if c.isalnum() else '_' for c in s).strip('_')
    return out


class Algebra:
    def __init__(self):
        self.queries: List[dict] = []

    def add(self, lhs: str, rhs: str, symbols: List[str], ranges: Optional[dict] = None) -> int:
        self.queries.append({'lhs': lhs, 'rhs': rhs, 'symbols': symbols, 'ranges': ranges or {}})
        return len(self.queries) - 1

    def solve(self, rule: str) -> List[dict]:
        if not self.queries:
            return []
        exe = shutil.which('python3-vt') or '/opt/veriftools/pyvenv/bin/python'
        if not os.path.exists(exe) and shutil.which('python3-vt') is None:
            raise AnalysisError(rule, 'pqv/alg.py', 'tooling interpreter with sympy (python3-vt) not available')
        try:
            p = subprocess.run([exe, '-c', _WORKER], input=json.dumps(self.queries), capture_output=True, text=True,
                               timeout=300)
        except Exception as e:
            raise AnalysisError(rule, 'pqv/alg.py', f'sympy worker failed to run: {e!r}')
        if p.returncode != 0:
            raise AnalysisError(rule, 'pqv/alg.py', f'sympy worker failed: {p.stderr[-400:]}')
        try:
            res = json.loads(p.stdout[p.stdout.index('['):])
        except Exception:
            raise AnalysisError(rule, 'pqv/alg.py', f'sympy worker output unreadable: {p.stdout[-300:]}')
        return res


def verdict(r: dict) -> Tuple[Optional[bool], str]:
    """(ok, detail): ok None = undecidable here (analysis error)."""
    if 'error' in r:
        return None, f'sympy could not parse/evaluate: {r["error"]}'
    if r['witness'] is not None:
        return False, f'differs at {r["witness"]}'
    if r['proved']:
        return True, 'simplify(lhs - rhs) == 0'
    if r['agree'] >= 8:
        return True, f'numerically identical at {r["agree"]} random rational points (sympy left {r["diff"]})'
    return None, f'neither proved nor refuted (residual {r["diff"]})'
