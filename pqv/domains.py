"""Abstract value domains used with pqv.interp (operator-overloading classes)."""
from __future__ import annotations

import ast
from fractions import Fraction
import numpy as np
from typing import Dict, FrozenSet, Optional, Tuple

from .interp import TOP

PAULIS = ('I', 'X', 'Y', 'Z')
BITS = {'I': (0, 0), 'X': (1, 0), 'Y': (1, 1), 'Z': (0, 1)}
FROM_BITS = {v: k for k, v in BITS.items()}


class Sym:
    """Opaque symbolic value (hashable by name)."""

    def __init__(self, name: str):
        self.name = name

    def __repr__(self):
        return f'Sym({self.name})'

    def __eq__(self, o):
        return isinstance(o, Sym) and o.name == self.name

    def __hash__(self):
        return hash(('Sym', self.name))

    def pqv_compare(self, op, other, swapped):
        import ast as _ast
        if isinstance(other, Sym) and isinstance(op, (_ast.Eq, _ast.NotEq)):
            eq = other.name == self.name
            return eq if isinstance(op, _ast.Eq) else not eq
        return TOP


# --------------------------------------------------------------------- Poly

class Poly:
    """Multivariate polynomial with rational coefficients (exact)."""

    def __init__(self, terms: Optional[Dict[Tuple[Tuple[str, int], ...], Fraction]] = None):
        self.terms = {m: c for m, c in (terms or {}).items() if c != 0}

    @staticmethod
    def var(name: str) -> 'Poly':
        return Poly({((name, 1),): Fraction(1)})

    @staticmethod
    def const(c) -> 'Poly':
        return Poly({(): Fraction(c)})

    @staticmethod
    def lift(x) -> Optional['Poly']:
        if isinstance(x, Poly):
            return x
        if isinstance(x, bool):
            return Poly.const(int(x))
        if isinstance(x, (int, Fraction)):
            return Poly.const(x)
        if isinstance(x, float):
            return Poly.const(Fraction(x).limit_denominator(10 ** 12))
        return None

    def __add__(self, o):
        o = Poly.lift(o)
        if o is None:
            return NotImplemented
        t = dict(self.terms)
        for m, c in o.terms.items():
            t[m] = t.get(m, 0) + c
        return Poly(t)

    __radd__ = __add__

    def __neg__(self):
        return Poly({m: -c for m, c in self.terms.items()})

    def __pos__(self):
        return self

    def __sub__(self, o):
        o = Poly.lift(o)
        if o is None:
            return NotImplemented
        return self + (-o)

    def __rsub__(self, o):
        o = Poly.lift(o)
        if o is None:
            return NotImplemented
        return o + (-self)

    def __mul__(self, o):
        o = Poly.lift(o)
        if o is None:
            return NotImplemented
        t: Dict = {}
        for m1, c1 in self.terms.items():
            for m2, c2 in o.terms.items():
                d = dict(m1)
                for v, e in m2:
                    d[v] = d.get(v, 0) + e
                m = tuple(sorted(d.items()))
                t[m] = t.get(m, 0) + c1 * c2
        return Poly(t)

    __rmul__ = __mul__

    def __truediv__(self, o):
        o = Poly.lift(o)
        if o is None or len(o.terms) != 1 or () not in o.terms:
            return TOP
        return self * Poly.const(1 / o.terms[()])

    def __pow__(self, e):
        if isinstance(e, int) and 0 <= e <= 8:
            r = Poly.const(1)
            for _ in range(e):
                r = r * self
            return r
        return TOP

    def __mod__(self, m):
        if isinstance(m, int) and m > 0 and all(c.denominator == 1 for c in self.terms.values()):
            return Poly({k: Fraction(int(c) % m) for k, c in self.terms.items()})
        return TOP

    def __and__(self, m):
        # the lowest bit of an integer is its parity (the variables stand for integers)
        if isinstance(m, (int, np.integer)) and not isinstance(m, bool) and int(m) == 1:
            return self % 2
        return TOP

    __rand__ = __and__

    def __eq__(self, o):
        o = Poly.lift(o)
        return o is not None and self.terms == o.terms

    def __hash__(self):
        return hash(tuple(sorted(self.terms.items())))

    def is_zero(self) -> bool:
        return not self.terms

    def pqv_truth(self):
        if not self.terms:
            return False
        if len(self.terms) == 1 and () in self.terms:
            return True
        return None

    def pqv_getitem(self, idx):
        return self            # an array of identical per-qubit entries: element view

    def __repr__(self):
        if not self.terms:
            return '0'
        parts = []
        for m, c in sorted(self.terms.items()):
            mono = '*'.join(v if e == 1 else f'{v}^{e}' for v, e in m)
            if mono:
                parts.append(f'{c}*{mono}' if c != 1 else mono)
            else:
                parts.append(str(c))
        return ' + '.join(parts)


# -------------------------------------------------------------------- Event

class Bad:
    """An ill-formed probability expression (e.g. sum of overlapping events)."""

    def __init__(self, why: str):
        self.why = why

    def __repr__(self):
        return f'Bad({self.why})'

    def _b(self, *a):
        return self
    __add__ = __radd__ = __sub__ = __rsub__ = __mul__ = __rmul__ = __truediv__ = __rtruediv__ = _b
    __neg__ = _b

    def pqv_getitem(self, idx):
        return self


def _is_reg(x) -> bool:
    return isinstance(x, (int, float)) and not isinstance(x, bool) and 0 <= abs(x) < 1e-6


class Event:
    """P(per-qubit Pauli in `s`), `s` a subset of {I,X,Y,Z}."""

    def __init__(self, s):
        self.s: FrozenSet[str] = frozenset(s)

    def __repr__(self):
        return 'P{' + ''.join(p for p in PAULIS if p in self.s) + '}'

    def __eq__(self, o):
        return isinstance(o, Event) and o.s == self.s

    def __hash__(self):
        return hash(('Event', self.s))

    def __add__(self, o):
        if _is_reg(o):
            return self
        if isinstance(o, Event):
            if self.s & o.s:
                return Bad(f'sum of overlapping events {self}+{o}')
            return Event(self.s | o.s)
        if isinstance(o, Bad):
            return o
        return TOP

    __radd__ = __add__

    def __rsub__(self, o):
        if isinstance(o, (int, float)) and o == 1:
            return Event(frozenset(PAULIS) - self.s)
        if isinstance(o, Bad):
            return o
        return TOP

    def __sub__(self, o):
        if _is_reg(o):
            return self
        if isinstance(o, Event):
            if not o.s <= self.s:
                return Bad(f'difference {self}-{o} of non-nested events')
            return Event(self.s - o.s)
        if isinstance(o, Bad):
            return o
        return TOP

    def __truediv__(self, o):
        if isinstance(o, Event):
            return Ratio(self, o)
        if isinstance(o, Bad):
            return o                     # an ill-formed denominator makes the quotient ill-formed
        return TOP

    def __mul__(self, o):
        return TOP

    __rmul__ = __mul__

    def pqv_getitem(self, idx):
        return self

    def pqv_truth(self):
        return None

    def pqv_compare(self, op, other, swapped):
        return TOP


class Ratio:
    def __init__(self, num: Event, den: Event):
        self.num, self.den = num, den

    def __repr__(self):
        return f'{self.num}/{self.den}'

    def __eq__(self, o):
        return isinstance(o, Ratio) and (o.num, o.den) == (self.num, self.den)

    def __hash__(self):
        return hash(('Ratio', self.num, self.den))

    def pqv_getitem(self, idx):
        return self


class LogRatio:
    def __init__(self, r: Ratio, sign: int = 1):
        self.r, self.sign = r, sign

    def __neg__(self):
        return LogRatio(self.r, -self.sign)

    def __repr__(self):
        return f'{"-" if self.sign < 0 else ""}log({self.r})'

    def __eq__(self, o):
        return isinstance(o, LogRatio) and (o.r, o.sign) == (self.r, self.sign)

    def __hash__(self):
        return hash(('LogRatio', self.r, self.sign))

    def pqv_getitem(self, idx):
        return self


FLIP = {'X': Event({'X', 'Y'}), 'Z': Event({'Z', 'Y'})}
