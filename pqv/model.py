"""Program model of /repo/panqec built from source text only.

Nothing here imports or executes panqec.  Every panqec/**/*.py file is parsed
with `ast`; modules, classes (with resolved bases and linearised MRO),
functions and import bindings are tabulated so that rules can ask semantic
questions ("all subclasses of BaseDecoder", "the method `decode` as seen from
class C", "what does the name `Matching` in this module refer to").
"""
from __future__ import annotations

import ast
import hashlib
import json
import os
from dataclasses import dataclass, field
from typing import Dict, Iterator, List, Optional, Tuple, Union

PKG = 'panqec'
MIN_FILES = 55          # confirmed by hand: 63 files on the pinned tree
GUI_CONFIG = os.path.join('panqec', 'codes', 'gui-config.json')


class AnalysisError(Exception):
    """The analysis itself cannot be trusted (vanished anchor, unknown idiom).

    Reported as `ANALYSIS-ERROR ...` with exit status 2, never as a pass and
    never as a violation.
    """

    def __init__(self, rule: str, site: str, msg: str):
        super().__init__(f'rule={rule} site={site} :: {msg}')
        self.rule = rule
        self.site = site
        self.msg = msg


FuncNode = Union[ast.FunctionDef, ast.AsyncFunctionDef]


@dataclass(eq=False)
class ModuleInfo:
    name: str                    # dotted, e.g. panqec.bpauli
    relpath: str                 # panqec/bpauli.py
    source: str
    tree: ast.Module
    is_package: bool
    # name -> ('module', dotted) | ('from', dotted_module, attr)
    imports: Dict[str, Tuple] = field(default_factory=dict)
    functions: Dict[str, FuncNode] = field(default_factory=dict)
    classes: Dict[str, 'ClassInfo'] = field(default_factory=dict)
    assigns: Dict[str, ast.AST] = field(default_factory=dict)   # last module-level assignment value

    def site(self, node: ast.AST) -> str:
        return f'{self.relpath}:{getattr(node, "lineno", 0)}'


@dataclass(eq=False)
class ClassInfo:
    name: str
    module: ModuleInfo
    node: ast.ClassDef
    base_exprs: List[ast.expr]
    bases: List['ClassInfo'] = field(default_factory=list)
    external_bases: List[str] = field(default_factory=list)
    mro: List['ClassInfo'] = field(default_factory=list)
    methods: Dict[str, FuncNode] = field(default_factory=dict)
    attrs: Dict[str, ast.AST] = field(default_factory=dict)      # class-level assignments (value nodes)

    @property
    def qualname(self) -> str:
        return f'{self.module.name}.{self.name}'

    def site(self, node: Optional[ast.AST] = None) -> str:
        return self.module.site(node if node is not None else self.node)

    def find_method(self, name: str) -> Optional[Tuple['ClassInfo', FuncNode]]:
        for c in self.mro:
            if name in c.methods:
                return c, c.methods[name]
        return None

    def find_attr(self, name: str) -> Optional[Tuple['ClassInfo', ast.AST]]:
        for c in self.mro:
            if name in c.attrs:
                return c, c.attrs[name]
        return None

    def is_subclass_of(self, other: 'ClassInfo') -> bool:
        return other in self.mro

    def is_property(self, name: str) -> bool:
        r = self.find_method(name)
        if not r:
            return False
        return any(_decorator_name(d) in ('property', 'functools.cached_property', 'cached_property')
                   for d in r[1].decorator_list)


def _decorator_name(d: ast.expr) -> str:
    if isinstance(d, ast.Call):
        d = d.func
    try:
        return ast.unparse(d)
    except Exception:  # pragma: no cover
        return ''


def decorator_names(fn: FuncNode) -> List[str]:
    return [_decorator_name(d) for d in fn.decorator_list]


class Model:
    def __init__(self, root: str):
        self.root = os.path.abspath(root)
        self.modules: Dict[str, ModuleInfo] = {}
        self.by_relpath: Dict[str, ModuleInfo] = {}
        self.classes: List[ClassInfo] = []
        self._gui_config = None
        self._load()

    # ------------------------------------------------------------------ load
    def _load(self) -> None:
        pkg_dir = os.path.join(self.root, PKG)
        if not os.path.isdir(pkg_dir):
            raise AnalysisError('model', pkg_dir, 'package directory not found')
        n = 0
        for dirpath, dirnames, filenames in os.walk(pkg_dir):
            dirnames[:] = sorted(d for d in dirnames if d != '__pycache__')
            for fn in sorted(filenames):
                if not fn.endswith('.py'):
                    continue
                path = os.path.join(dirpath, fn)
                rel = os.path.relpath(path, self.root)
                with open(path, encoding='utf-8') as f:
                    src = f.read()
                try:
                    tree = ast.parse(src, filename=rel)
                except SyntaxError as e:
                    raise AnalysisError('model', rel, f'syntax error: {e}')
                parts = rel[:-3].split(os.sep)
                is_pkg = parts[-1] == '__init__'
                if is_pkg:
                    parts = parts[:-1]
                name = '.'.join(parts)
                mi = ModuleInfo(name, rel, src, tree, is_pkg)
                self.modules[name] = mi
                self.by_relpath[rel] = mi
                n += 1
        if n < MIN_FILES:
            raise AnalysisError('model', pkg_dir, f'only {n} python files parsed; floor is {MIN_FILES}')
        for mi in self.modules.values():
            self._index_module(mi)
        for mi in self.modules.values():
            for ci in mi.classes.values():
                self._resolve_bases(ci)
        for ci in self.classes:
            ci.mro = self._linearise(ci, ())

    def _index_module(self, mi: ModuleInfo) -> None:
        def pkg_of(level: int) -> str:
            parts = mi.name.split('.')
            if not mi.is_package:
                parts = parts[:-1]
            if level > 1:
                parts = parts[:-(level - 1)]
            return '.'.join(parts)

        def visit(stmts):
            for node in stmts:
                if isinstance(node, ast.Import):
                    for a in node.names:
                        if a.asname:
                            mi.imports[a.asname] = ('module', a.name)
                        else:
                            mi.imports[a.name.split('.')[0]] = ('module', a.name.split('.')[0])
                elif isinstance(node, ast.ImportFrom):
                    base = node.module or ''
                    if node.level:
                        p = pkg_of(node.level)
                        base = f'{p}.{base}' if base else p
                    for a in node.names:
                        mi.imports[a.asname or a.name] = ('from', base, a.name)
                elif isinstance(node, (ast.FunctionDef, ast.AsyncFunctionDef)):
                    mi.functions[node.name] = node
                elif isinstance(node, ast.ClassDef):
                    ci = ClassInfo(node.name, mi, node, list(node.bases))
                    for b in node.body:
                        if isinstance(b, (ast.FunctionDef, ast.AsyncFunctionDef)):
                            ci.methods[b.name] = b
                        elif isinstance(b, ast.Assign):
                            for t in b.targets:
                                if isinstance(t, ast.Name):
                                    ci.attrs[t.id] = b.value
                        elif isinstance(b, ast.AnnAssign) and isinstance(b.target, ast.Name) and b.value is not None:
                            ci.attrs[b.target.id] = b.value
                    mi.classes[node.name] = ci
                    self.classes.append(ci)
                elif isinstance(node, ast.Assign):
                    for t in node.targets:
                        if isinstance(t, ast.Name):
                            mi.assigns[t.id] = node.value
                elif isinstance(node, ast.AnnAssign) and isinstance(node.target, ast.Name) and node.value is not None:
                    mi.assigns[node.target.id] = node.value
                elif isinstance(node, (ast.If, ast.Try)):
                    # module-level conditional definitions (rare); index bodies too
                    for body in (getattr(node, 'body', []), getattr(node, 'orelse', []),
                                 getattr(node, 'finalbody', [])):
                        visit(body)
        visit(mi.tree.body)

    # --------------------------------------------------------------- resolve
    def resolve(self, mi: ModuleInfo, name: str, _depth: int = 0):
        """Resolve a (possibly dotted) name used in module `mi`.

        Returns ('class', ClassInfo) | ('func', ModuleInfo, FunctionDef) |
        ('value', ModuleInfo, ast node) | ('module', ModuleInfo) |
        ('external', dotted) | None.
        """
        if _depth > 12:
            return None
        head, _, rest = name.partition('.')
        r = self._resolve_simple(mi, head, _depth)
        while r and rest:
            head, _, rest = rest.partition('.')
            if r[0] == 'module':
                r = self._resolve_simple(r[1], head, _depth + 1, local_only=False)
            elif r[0] == 'external':
                r = ('external', f'{r[1]}.{head}')
            else:
                return None
        return r

    def _resolve_simple(self, mi: ModuleInfo, name: str, depth: int, local_only: bool = False):
        if name in mi.classes:
            return ('class', mi.classes[name])
        if name in mi.functions:
            return ('func', mi, mi.functions[name])
        if name in mi.imports:
            imp = mi.imports[name]
            if imp[0] == 'module':
                dotted = imp[1]
                if dotted in self.modules:
                    return ('module', self.modules[dotted])
                return ('external', dotted)
            _, modname, attr = imp
            sub = f'{modname}.{attr}'
            if sub in self.modules:
                return ('module', self.modules[sub])
            if modname in self.modules:
                return self._resolve_simple(self.modules[modname], attr, depth + 1)
            return ('external', f'{modname}.{attr}')
        if name in mi.assigns:
            return ('value', mi, mi.assigns[name])
        # submodule of a package
        sub = f'{mi.name}.{name}'
        if sub in self.modules:
            return ('module', self.modules[sub])
        return None

    def _resolve_bases(self, ci: ClassInfo) -> None:
        for b in ci.base_exprs:
            try:
                dotted = ast.unparse(b)
            except Exception:  # pragma: no cover
                continue
            r = self.resolve(ci.module, dotted)
            if r and r[0] == 'class':
                ci.bases.append(r[1])
            else:
                ci.external_bases.append(dotted)

    def _linearise(self, ci: ClassInfo, seen) -> List[ClassInfo]:
        if ci in seen:
            return []
        out = [ci]
        for b in ci.bases:
            for c in self._linearise(b, seen + (ci,)):
                if c not in out:
                    out.append(c)
        return out

    # ------------------------------------------------------------ accessors
    def module(self, dotted: str) -> ModuleInfo:
        if dotted not in self.modules:
            raise AnalysisError('model', dotted, 'module not found (vanished anchor)')
        return self.modules[dotted]

    def cls(self, name: str) -> ClassInfo:
        found = [c for c in self.classes if c.name == name]
        if not found:
            raise AnalysisError('model', name, 'class not found (vanished anchor)')
        if len(found) > 1:
            raise AnalysisError('model', name, f'class name ambiguous: {[c.qualname for c in found]}')
        return found[0]

    def subclasses(self, base: ClassInfo, strict: bool = True) -> List[ClassInfo]:
        return [c for c in self.classes if base in c.mro and (not strict or c is not base)]

    def func(self, dotted_module: str, name: str) -> Tuple[ModuleInfo, FuncNode]:
        mi = self.module(dotted_module)
        if name not in mi.functions:
            # moved to another module and imported back under the same name: follow the import
            r = self.resolve(mi, name)
            if r and r[0] == 'func':
                return r[1], r[2]
            raise AnalysisError('model', f'{dotted_module}.{name}', 'function not found (vanished anchor)')
        return mi, mi.functions[name]

    def method(self, cls_name: str, meth: str) -> Tuple[ClassInfo, FuncNode]:
        ci = self.cls(cls_name)
        r = ci.find_method(meth)
        if not r:
            raise AnalysisError('model', f'{cls_name}.{meth}', 'method not found (vanished anchor)')
        return r

    def own_method(self, cls_name: str, meth: str) -> Tuple[ClassInfo, FuncNode]:
        ci = self.cls(cls_name)
        if meth not in ci.methods:
            raise AnalysisError('model', f'{cls_name}.{meth}', 'method not defined in class (vanished anchor)')
        return ci, ci.methods[meth]

    def all_functions(self) -> Iterator[Tuple[ModuleInfo, Optional[ClassInfo], FuncNode]]:
        for mi in self.modules.values():
            for fn in mi.functions.values():
                yield mi, None, fn
            for ci in mi.classes.values():
                for fn in ci.methods.values():
                    yield mi, ci, fn

    def gui_config(self) -> dict:
        if self._gui_config is None:
            p = os.path.join(self.root, GUI_CONFIG)
            if not os.path.isfile(p):
                raise AnalysisError('model', GUI_CONFIG, 'gui-config.json not found (vanished anchor)')
            with open(p, encoding='utf-8') as f:
                try:
                    self._gui_config = json.load(f)
                except json.JSONDecodeError as e:
                    raise AnalysisError('model', GUI_CONFIG, f'not valid JSON: {e}')
        return self._gui_config

    def digest(self) -> str:
        h = hashlib.sha256()
        for name in sorted(self.modules):
            h.update(name.encode())
            h.update(self.modules[name].source.encode())
        return h.hexdigest()[:16]

    def stats(self) -> dict:
        nfun = sum(1 for _ in self.all_functions())
        ncalls = 0
        for mi in self.modules.values():
            ncalls += sum(1 for n in ast.walk(mi.tree) if isinstance(n, ast.Call))
        return {'files': len(self.modules), 'classes': len(self.classes),
                'functions': nfun, 'call_expressions': ncalls, 'digest': self.digest()}


# ---------------------------------------------------------------- AST helpers

def strip_docstring(body: List[ast.stmt]) -> List[ast.stmt]:
    if body and isinstance(body[0], ast.Expr) and isinstance(body[0].value, ast.Constant) \
            and isinstance(body[0].value.value, str):
        return body[1:]
    return body


def norm_stmt(node: ast.AST, limit: int = 160) -> str:
    """Normalised one-line text of a statement/expression: stable under
    reformatting and comments (ast.unparse), used in finding keys."""
    try:
        s = ast.unparse(node)
    except Exception:  # pragma: no cover
        s = type(node).__name__
    s = ' '.join(s.split())
    return s if len(s) <= limit else s[:limit] + '...'


def const_value(node: ast.AST):
    """Literal value of a display made of constants, else raises ValueError."""
    return ast.literal_eval(node)


def names_in(node: ast.AST) -> set:
    return {n.id for n in ast.walk(node) if isinstance(n, ast.Name)}


def dotted(node: ast.AST) -> Optional[str]:
    """'a.b.c' for Name/Attribute chains, else None."""
    parts = []
    while isinstance(node, ast.Attribute):
        parts.append(node.attr)
        node = node.value
    if isinstance(node, ast.Name):
        parts.append(node.id)
        return '.'.join(reversed(parts))
    return None


def walk_no_nested(node: ast.AST) -> Iterator[ast.AST]:
    """ast.walk that does not descend into nested function/class definitions
    (the root itself is expanded even if it is a def)."""
    stack = list(ast.iter_child_nodes(node))
    yield node
    while stack:
        n = stack.pop()
        yield n
        if isinstance(n, (ast.FunctionDef, ast.AsyncFunctionDef, ast.ClassDef, ast.Lambda)):
            continue
        stack.extend(ast.iter_child_nodes(n))


def parent_map(root: ast.AST) -> Dict[ast.AST, ast.AST]:
    pm = {}
    for p in ast.walk(root):
        for c in ast.iter_child_nodes(p):
            pm[c] = p
    return pm
