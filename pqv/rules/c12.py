"""C12 - interrupted batch runs resume without losing or duplicating trials."""
from __future__ import annotations

import ast

import numpy as np

from ..domains import Sym
from ..interp import (NOT_HANDLED, TOP, BoundMethod, ClassRef, Closure, Env, Ext, Hooks, Interp, Obj, PathRaise,
                      guard, site_of, truth)
from ..model import AnalysisError, norm_stmt, parent_map, walk_no_nested
from ..nphooks import Tagged
from ..report import Ctx
from ..symnp import call_numpy
from .c13 import sim_inputs

EXPLANATION = (
    'Partial. R12.1: the results file is only ever replaced atomically: in utils.save_json no write-mode open() / '
    'gzip.open() targets the destination path; the data goes to a sibling temporary path which is moved onto the '
    'destination by os.replace on every normal exit (must-pass-through on the statement tree); no other function of '
    'the simulation package opens a results path for writing. R12.2: every save_json call passes (data, path). '
    'R12.3: identity on resume: _inputs holds name+parameters of code, noise model, decoder and the error rate '
    '(interpreted); _find_current_simulation adopts a stored record only on equality of the whole inputs object '
    '(interpreted against near-miss records differing in one component each); load_results_from_dict assigns '
    'loaded lists (never extends) and only for keys it owns. R12.4: BatchSimulation._run is interpreted on '
    'abstract simulations for several (target, loaded counts, save frequency) configurations: every run() is run(1) '
    'under n_results < n_trials, every simulation ends with exactly max(loaded, target) trials, the last save '
    'happens after the last trial and every save sees a completed round. R12.5: save_results retries the write '
    'when interrupted and re-raises; run() absorbs the KeyboardInterrupt. Byte-offset crash enumeration is NOT '
    'decided (os.replace atomicity is trusted).'
)

WRITE_MODES = ('w', 'a', 'x', '+')


def _open_calls(fn):
    """(call, path expr, mode string|None) for open()/gzip.open()/io.open() calls."""
    out = []
    OPENERS = ('open', 'gzip.open', 'io.open', 'bz2.open', 'lzma.open', 'codecs.open')
    # local aliases: opener = open if ... else gzip.open
    alias = set()
    for n in walk_no_nested(fn):
        if isinstance(n, ast.Assign) and len(n.targets) == 1 and isinstance(n.targets[0], ast.Name):
            vals = [n.value.body, n.value.orelse] if isinstance(n.value, ast.IfExp) else [n.value]
            try:
                if all(ast.unparse(v) in OPENERS for v in vals):
                    alias.add(n.targets[0].id)
            except Exception:
                pass
    for n in walk_no_nested(fn):
        if isinstance(n, ast.Call):
            try:
                d = ast.unparse(n.func)
            except Exception:
                continue
            if (d in OPENERS or d in alias) and n.args:
                mode = None
                if len(n.args) > 1 and isinstance(n.args[1], ast.Constant):
                    mode = n.args[1].value
                for k in n.keywords:
                    if k.arg == 'mode' and isinstance(k.value, ast.Constant):
                        mode = k.value.value
                if mode is None and len(n.args) == 1 and not any(k.arg == 'mode' for k in n.keywords):
                    mode = 'r' if d != 'gzip.open' else 'rb'
                out.append((n, n.args[0], mode))
    return out


def _is_write(mode) -> bool:
    return mode is None or any(c in mode for c in WRITE_MODES)


def inline_contextmanagers(mi, fn):
    """Copy of fn in which `with g(args) as name: BODY`, for a @contextmanager generator g of the same module with one
    `yield v`, is replaced by g's own statements around BODY (parameters substituted, `name = v` at the yield):
    the protocol contextlib implements.  The same function object is returned when nothing applies."""
    import copy
    from ..model import decorator_names

    def cm_of(call):
        if not (isinstance(call, ast.Call) and isinstance(call.func, ast.Name) and call.func.id in mi.functions):
            return None
        g = mi.functions[call.func.id]
        if not any(d.split('.')[-1] == 'contextmanager' for d in decorator_names(g)):
            return None
        ys = [n for n in ast.walk(g) if isinstance(n, (ast.Yield, ast.YieldFrom))]
        if len(ys) != 1 or not isinstance(ys[0], ast.Yield) or call.keywords and any(k.arg is None for k in call.keywords):
            return None
        return g

    class Sub(ast.NodeTransformer):
        def __init__(self, mapping):
            self.mapping = mapping

        def visit_Name(self, n):
            if isinstance(n.ctx, ast.Load) and n.id in self.mapping:
                return copy.deepcopy(self.mapping[n.id])
            return n

    changed = [False]

    def expand(stmts):
        out = []
        for st in stmts:
            for fld in ('body', 'orelse', 'finalbody'):
                if isinstance(getattr(st, fld, None), list) and not isinstance(st, (ast.FunctionDef, ast.ClassDef)):
                    setattr(st, fld, expand(getattr(st, fld)))
            if isinstance(st, ast.Try):
                for h in st.handlers:
                    h.body = expand(h.body)
            g = cm_of(st.items[0].context_expr) if isinstance(st, ast.With) and len(st.items) == 1 else None
            if g is None:
                out.append(st)
                continue
            call = st.items[0].context_expr
            gp = [a.arg for a in g.args.args]
            mapping = dict(zip(gp, call.args))
            mapping.update({k.arg: k.value for k in call.keywords})
            gbody = [copy.deepcopy(x) for x in g.body
                     if not (isinstance(x, ast.Expr) and isinstance(x.value, ast.Constant) and isinstance(x.value.value, str))]
            gbody = [Sub(mapping).visit(x) for x in gbody]

            def splice(block):
                """replace the `yield v` statement of this block (searched through try bodies) by name = v; BODY"""
                for i, x in enumerate(block):
                    if isinstance(x, ast.Expr) and isinstance(x.value, ast.Yield):
                        bind = []
                        ov, yv = st.items[0].optional_vars, x.value.value
                        if isinstance(ov, ast.Name) and isinstance(yv, ast.Name):
                            ren[yv.id] = ov.id            # the yielded local IS the `as` name: one variable
                        elif ov is not None and yv is not None:
                            bind = [ast.Assign(targets=[copy.deepcopy(ov)], value=yv)]
                        return block[:i] + bind + list(st.body) + block[i + 1:], True
                    if isinstance(x, ast.Try):
                        nb, ok = splice(x.body)
                        if ok:
                            x.body = nb
                            return block, True
                return block, False
            ren = {}
            nb, ok = splice(gbody)
            if not ok:
                out.append(st)
                continue
            if ren:
                body_nodes = {id(y) for b_ in st.body for y in ast.walk(b_)}
                for x in nb:
                    for y in ast.walk(x):
                        if isinstance(y, ast.Name) and y.id in ren and id(y) not in body_nodes:
                            y.id = ren[y.id]
            changed[0] = True
            for x in nb:
                ast.copy_location(x, st) if not hasattr(x, 'lineno') else None
                ast.fix_missing_locations(x)
            out.extend(nb)
        return out
    fn2 = copy.deepcopy(fn)
    fn2.body = expand(fn2.body)
    return fn2 if changed[0] else fn


def _r121(ctx: Ctx) -> None:
    m = ctx.model
    mi, fn = m.func('panqec.utils', 'save_json')
    site = site_of(mi, fn)
    fn = inline_contextmanagers(mi, fn)
    params = [a.arg for a in fn.args.args]
    ctx.need(len(params) >= 2, 'R12.1', site, 'save_json signature changed')
    dest = params[1]
    # aliases of the destination: plain copies only
    aliases = {dest}
    for n in walk_no_nested(fn):
        if isinstance(n, ast.Assign) and isinstance(n.value, ast.Name) and n.value.id in aliases:
            for t in n.targets:
                if isinstance(t, ast.Name):
                    aliases.add(t.id)
    opens = [(c, p, md) for c, p, md in _open_calls(fn) if _is_write(md)]
    # writers reached through a helper of the same module: g(..., path, ...) where g opens that parameter for writing
    for c in walk_no_nested(fn):
        if isinstance(c, ast.Call) and isinstance(c.func, ast.Name) and c.func.id in mi.functions and c.func.id != fn.name:
            g = mi.functions[c.func.id]
            gparams = [a.arg for a in g.args.args]
            for gc, gp, gmd in _open_calls(g):
                if _is_write(gmd) and isinstance(gp, ast.Name) and gp.id in gparams:
                    k_ = gparams.index(gp.id)
                    arg = c.args[k_] if k_ < len(c.args) else next((kw.value for kw in c.keywords if kw.arg == gp.id), None)
                    if arg is not None:
                        opens.append((c, arg, gmd))
    ctx.need(opens, 'R12.1', site, 'save_json: no write-mode open found')
    temp_names = set()
    for c, p, md in opens:
        direct = isinstance(p, ast.Name) and p.id in aliases
        ctx.ob('R12.1', site_of(mi, c), f'save_json: {ast.unparse(c.func)}(..., {md!r}) does not truncate the destination',
               not direct, f'{norm_stmt(c)} opens the results file itself in a truncating mode: a process killed during '
                           f'the write leaves a torn file (all earlier trials lost / EOFError on resume)',
               key=f'save_json|open[{ast.unparse(c.func)}]', facts=ast.unparse(p))
        if isinstance(p, ast.Name):
            temp_names.add(p.id)
    # the temp path must differ from the destination by construction (derived from it, not equal)
    for tn in sorted(temp_names - aliases):
        defs = [n for n in walk_no_nested(fn) if isinstance(n, ast.Assign)
                and any(isinstance(t, ast.Name) and t.id == tn for t in n.targets)]
        ok = len(defs) == 1 and not isinstance(defs[0].value, ast.Name) and \
            any(isinstance(x, ast.Name) and x.id in aliases for x in ast.walk(defs[0].value))
        ctx.ob('R12.1', site_of(mi, defs[0]) if defs else site, f'save_json: temporary path {tn} is a sibling of the destination',
               ok, f'{norm_stmt(defs[0]) if defs else "no definition"}: the temporary file must live next to the '
                   f'destination (same file system) and differ from it', key=f'save_json|temp[{tn}]',
               facts=norm_stmt(defs[0]) if defs else None)
    # os.replace(temp, dest) on every normal exit
    reps = [n for n in walk_no_nested(fn) if isinstance(n, ast.Call) and ast.unparse(n.func) in ('os.replace', 'os.rename')
            and len(n.args) == 2]
    good = [r for r in reps if isinstance(r.args[1], ast.Name) and r.args[1].id in aliases
            and isinstance(r.args[0], ast.Name) and r.args[0].id in temp_names]
    pm = parent_map(fn)
    uncond = []
    for r in good:
        cur, ok = r, True
        while cur in pm and pm[cur] is not fn:
            par = pm[cur]
            if isinstance(par, (ast.If, ast.For, ast.While, ast.IfExp)):
                ok = False
            if isinstance(par, ast.Try) and any(cur in h.body or cur is h for h in par.handlers):
                ok = False
            cur = par
        if ok:
            uncond.append(r)
    ctx.ob('R12.1', site_of(mi, good[0]) if good else site, 'save_json: os.replace(temp, destination) on every normal exit',
           len(uncond) >= 1 and _writes_precede(fn, opens, uncond[0] if uncond else None),
           'the destination is not (unconditionally) replaced by the completely written AND CLOSED temporary file (a '
           'replace inside the writing `with` block renames a file whose buffers are not flushed yet)',
           key='save_json|replace', facts=[ast.unparse(r) for r in reps])
    # the destination is never deleted / moved away: between the deletion and the rename neither the old nor the
    # new results exist
    dels = [n for n in walk_no_nested(fn) if isinstance(n, ast.Call)
            and (ast.unparse(n.func) in ('os.remove', 'os.unlink', 'os.truncate', 'shutil.move', 'shutil.rmtree', 'os.rmdir')
                 or (isinstance(n.func, ast.Attribute) and n.func.attr in ('unlink', 'rmtree')))]
    bad_del = [d for d in dels if any(isinstance(x, ast.Name) and x.id in aliases
                                      for a_ in (list(d.args[:1]) + ([d.func.value] if isinstance(d.func, ast.Attribute) and
                                                                      d.func.attr == 'unlink' else []))
                                      for x in ast.walk(a_))]
    ctx.ob('R12.1', site_of(mi, bad_del[0]) if bad_del else site,
           'save_json: the destination is only ever replaced, never deleted first', not bad_del,
           f'{norm_stmt(bad_del[0]) if bad_del else ""} removes the results file before the new one is in place: a '
           f'process killed in between leaves no results file at all (the resume starts from zero)',
           key='save_json|no-delete', facts=[norm_stmt(d) for d in dels])
    # no other truncating open of a results path in the simulation package
    for mod in m.modules.values():
        if not mod.name.startswith('panqec.simulation'):
            continue
        for _, ci_, f in [(None, None, f) for f in mod.functions.values()] + \
                [(None, c, f) for c in mod.classes.values() for f in c.methods.values()]:
            for c, p, md in _open_calls(f):
                if not _is_write(md):
                    continue
                txt = ast.unparse(p)
                is_log = 'log' in txt.lower()
                ctx.ob('R12.1', site_of(mod, c), f'{mod.relpath}: write-mode open of {txt} is not a results file', is_log,
                       f'{norm_stmt(c)} writes a file in the simulation package outside save_json: results must only be '
                       f'replaced atomically', key=f'{mod.relpath}|open[{txt}]')


def _writes_precede(fn, opens, replace_call) -> bool:
    """Every writer of the temporary file is finished - its `with` block closed - before the replace."""
    if replace_call is None:
        return False
    pm = parent_map(fn)
    # position in the text of the (possibly inlined) function: depth-first order, not line numbers
    order = {}

    def number(n):
        order[id(n)] = len(order)
        for ch in ast.iter_child_nodes(n):
            number(ch)
    number(fn)
    for c, _, _ in opens:
        if order.get(id(c), 0) >= order.get(id(replace_call), -1):
            return False
        # the with statement (or plain statement) that holds the open call
        cur = c
        holder = None
        while cur in pm and pm[cur] is not fn:
            cur = pm[cur]
            if isinstance(cur, (ast.With, ast.AsyncWith)) and any(c in ast.walk(i.context_expr) for i in cur.items):
                holder = cur
                break
        if holder is not None and any(x is replace_call for x in ast.walk(holder)):
            return False          # replaced while the file is still open: buffered data are written after the rename
    return True


def _pathlike(e: ast.AST) -> bool:
    txt = ast.unparse(e).lower()
    if isinstance(e, ast.Call):
        return txt.startswith('os.path.') or 'path' in txt or 'file' in txt
    if isinstance(e, (ast.Name, ast.Attribute)):
        return 'file' in txt or 'path' in txt
    if isinstance(e, (ast.JoinedStr,)):
        return True
    if isinstance(e, ast.Constant) and isinstance(e.value, str):
        return True
    return False


def _r122(ctx: Ctx) -> None:
    m = ctx.model
    n = 0
    for mi in m.modules.values():
        for node in ast.walk(mi.tree):
            if isinstance(node, ast.Call) and isinstance(node.func, (ast.Name, ast.Attribute)) \
                    and ast.unparse(node.func).split('.')[-1] == 'save_json':
                r = m.resolve(mi, ast.unparse(node.func))
                if not (r and r[0] == 'func' and r[1].name == 'panqec.utils'):
                    continue
                n += 1
                b = {}
                for i, a in enumerate(node.args[:2]):
                    b[('data', 'file')[i]] = a
                for k in node.keywords:
                    b[k.arg] = k.value
                ok = 'data' in b and 'file' in b and _pathlike(b['file']) and not _pathlike(b['data'])
                ctx.ob('R12.2', site_of(mi, node), f'{mi.relpath}: save_json(data, path) argument order', ok,
                       f'{norm_stmt(node)}: save_json takes (data, file)', key=f'{mi.relpath}|{norm_stmt(node)}')


# ------------------------------------------------------------------- R12.3

def _r123(ctx: Ctx) -> None:
    m = ctx.model
    sim_inputs(ctx, 'R12.3')
    ci = m.cls('BaseSimulation')
    mi = ci.module
    fn = ci.methods.get('_find_current_simulation')
    ctx.need(fn is not None, 'R12.3', site_of(mi, ci.node), '_find_current_simulation not found')
    me = {'code': {'name': 'C', 'parameters': {'L_x': 3}, 'n': 18, 'k': 2, 'd': 3},
          'error_model': {'name': 'N', 'parameters': {'r_x': 0.1}},
          'decoder': {'name': 'D', 'parameters': {'osd_order': 10}}, 'error_rate': 0.05,
          'method': {'name': 'direct', 'parameters': {}}}
    import copy

    def variant(path, val):
        v = copy.deepcopy(me)
        d = v
        for k in path[:-1]:
            d = d[k]
        d[path[-1]] = val
        return v
    near = {
        'other code size': variant(('code', 'parameters', 'L_x'), 4),
        'other code class': variant(('code', 'name'), 'C2'),
        'other noise direction': variant(('error_model', 'parameters', 'r_x'), 0.2),
        'other decoder': variant(('decoder', 'name'), 'D2'),
        'other decoder parameters': variant(('decoder', 'parameters', 'osd_order'), 0),
        'other error rate': variant(('error_rate',), 0.06),
        'noise direction differing in the 9th decimal': variant(('error_model', 'parameters', 'r_x'), 0.1 + 1e-9),
        'error rate differing in the 12th decimal': variant(('error_rate',), 0.05 + 1e-12),
        'additional decoder parameter': variant(('decoder', 'parameters'), {'osd_order': 10, 'extra': 1}),
        'other method': variant(('method', 'name'), 'splitting'),
    }
    for label, other in near.items():
        for with_exact in (True, False):
            data = [{'inputs': other, 'results': {'tag': 'WRONG'}}]
            if with_exact:
                data.append({'inputs': copy.deepcopy(me), 'results': {'tag': 'RIGHT'}})
            class HNp(Hooks):
                def call(self, it_, func, args, kwargs, node, env):
                    return call_numpy(func, args, kwargs)
            it = Interp(m, HNp())

            def thunk():
                o = Obj(ci, 'sim')
                o.fields['_inputs'] = copy.deepcopy(me)
                return it.call_closure(Closure(fn, mi, ci), [data], {}, fn, self_obj=o)
            outs = guard('R12.3', mi, fn)(lambda: it.explore(thunk))
            rets = [o_ for o_ in outs if o_.kind == 'return']
            ctx.need(rets and all(isinstance(o_.value, dict) for o_ in rets), 'R12.3', site_of(mi, fn), f'{outs[:3]!r}')
            if with_exact:
                ok = all(o_.value.get('results', {}).get('tag') == 'RIGHT' for o_ in rets)
            else:
                ok = all(o_.value == {} for o_ in rets)
            v = rets[0].value if ok else [o_.value for o_ in rets if o_.value != {} and
                                          o_.value.get('results', {}).get('tag') != 'RIGHT'][:1] or rets[0].value
            ctx.ob('R12.3', site_of(mi, fn), f'_find_current_simulation ignores a record with {label} '
                                             f'({"exact record also present" if with_exact else "no exact record"})', ok,
                   f'returned {v!r}: results of a different (code, noise, decoder, rate) would be adopted',
                   key=f'_find_current_simulation|{label}|{with_exact}')
    # load_results_from_dict assigns
    fn2 = ci.methods.get('load_results_from_dict')
    ctx.need(fn2 is not None, 'R12.3', site_of(mi, ci.node), 'load_results_from_dict not found')

    class HN(Hooks):
        def call(self, it, func, args, kwargs, node, env):
            r = call_numpy(func, args, kwargs)
            return r
    it = Interp(m, HN())
    loaded = {'n_runs': 7, 'wall_time': 1.5, 'effective_error': [[0, 1], [1, 0]], 'success': [True, False],
              'codespace': [True, True], 'foreign_key': 'zzz'}

    def thunk():
        o = Obj(ci, 'sim')
        o.fields['_results'] = {'n_runs': 1, 'wall_time': 0.5, 'effective_error': [np.array([1, 1])],
                                'success': [True], 'codespace': [False]}
        it.call_closure(Closure(fn2, mi, ci), [{'results': loaded, 'inputs': {}}], {}, fn2, self_obj=o)
        return o.fields['_results']
    outs = guard('R12.3', mi, fn2)(lambda: it.explore(thunk))
    ctx.need(len(outs) == 1 and outs[0].kind == 'return', 'R12.3', site_of(mi, fn2), f'{outs!r}')
    res = outs[0].value
    bad = None
    if set(res) != {'n_runs', 'wall_time', 'effective_error', 'success', 'codespace'}:
        bad = f'keys after loading: {sorted(res)}'
    elif res['n_runs'] != 7 or res['wall_time'] != 1.5:
        bad = f"n_runs/wall_time after loading = {res['n_runs']!r}/{res['wall_time']!r}, expected the stored 7/1.5"
    elif list(res['success']) != [True, False] or list(res['codespace']) != [True, True]:
        bad = f"success/codespace after loading = {res['success']!r}/{res['codespace']!r}: loaded lists must replace, " \
              f"not extend, the in-memory lists"
    elif [list(map(int, x)) for x in res['effective_error']] != [[0, 1], [1, 0]]:
        bad = f"effective_error after loading = {res['effective_error']!r}"
    ctx.ob('R12.3', site_of(mi, fn2), 'load_results_from_dict assigns the stored lists/counters for its own keys only',
           bad is None, bad or '', key='load_results_from_dict|assign', facts={k: repr(v) for k, v in res.items()})
    # load_results tolerates an unreadable file only by starting from scratch (JSONDecodeError), and looks up by inputs
    fn3 = ci.methods.get('load_results')
    txt = ast.unparse(fn3) if fn3 else ''
    ok = fn3 is not None and '_find_current_simulation' in txt and 'load_results_from_dict' in txt
    ctx.ob('R12.3', site_of(mi, fn3) if fn3 else site_of(mi, ci.node),
           'load_results adopts only the record found by _find_current_simulation', ok, 'lookup not found',
           key='load_results|lookup')


# ------------------------------------------------------------------- R12.4

class _Sim:
    def __init__(self, n, log, idx):
        self.n, self.log, self.idx = n, log, idx

    def pqv_getattr(self, name):
        if name == 'n_results':
            return self.n
        if name == 'run':
            return _Run(self)
        if name in ('wall_time',):
            return 0
        if name == 'load_results':
            return _Noop()
        return TOP


class _Run:
    def __init__(self, sim):
        self.sim = sim

    def pqv_call(self, *a, **k):
        kk = a[0] if a else k.get('n_runs')
        self.sim.log.append(('run', self.sim.idx, kk, self.sim.n))
        if isinstance(kk, int):
            self.sim.n += kk
        return None


class _Noop:
    def pqv_call(self, *a, **k):
        return None


def _r123b(ctx: Ctx) -> None:
    m = ctx.model
    ci = m.cls('BatchSimulation')
    fn = ci.methods.get('load_results')
    ctx.need(fn is not None, 'R12.3', site_of(ci.module, ci.node), 'BatchSimulation.load_results not found')
    calls = [n for n in ast.walk(fn) if isinstance(n, ast.Call) and isinstance(n.func, ast.Attribute)
             and n.func.attr == 'load_results']
    ok = len(calls) == 1 and len(calls[0].args) == 1 and ast.unparse(calls[0].args[0]) == 'self._output_file'
    loops = [n for n in ast.walk(fn) if isinstance(n, ast.For) and ast.unparse(n.iter) in ('self._simulations', 'self')]
    ctx.ob('R12.3', site_of(ci.module, fn), 'BatchSimulation.load_results loads every simulation from the output file', ok and
           bool(loops), f'{[ast.unparse(c) for c in calls]}', key='BatchSimulation.load_results|file')
    sf = ci.methods.get('save_file')
    calls = [n for n in ast.walk(sf) if isinstance(n, ast.Call) and ast.unparse(n.func).endswith('save_json')] if sf else []
    ok = bool(calls) and all(len(c.args) == 2 and ast.unparse(c.args[1]) == 'self._output_file' for c in calls)
    ctx.ob('R12.3', site_of(ci.module, sf) if sf else site_of(ci.module, ci.node),
           'save_file and load_results use the same path (self._output_file)', ok, f'{[ast.unparse(c) for c in calls]}',
           key='BatchSimulation.save_file|file')


def _jsonish(v):
    """What json.dumps(cls=NumpyEncoder) + json.loads make of a value (arrays and tuples become lists)."""
    if isinstance(v, np.ndarray):
        return _jsonish(v.tolist())
    if isinstance(v, np.generic):
        return v.item()
    if isinstance(v, dict):
        return {str(k): _jsonish(x) for k, x in v.items()}
    if isinstance(v, (list, tuple)):
        return [_jsonish(x) for x in v]
    return v


def _r123c(ctx: Ctx) -> None:
    """Round trip of one simulation's record through the results file, for both simulation classes: the record
    written by a fresh object must be recognised (a plain bool, not an array comparison) and, once loaded, every
    container the trial loop appends to must still be a list."""
    m = ctx.model
    from ..symnp import call_numpy
    from ..interp import BoundMethod, PathRaise

    class H(Hooks):
        def call(self, it, func, args, kwargs, node, env):
            if isinstance(func, Ext) and func.name.startswith('numpy'):
                r = call_numpy(func, args, kwargs)
                return TOP if r is NOT_HANDLED else r
            return NOT_HANDLED

    def mk(cname, it):
        ci = m.cls(cname)
        init = ci.find_method('__init__')
        o = Obj(ci, 'simulation')
        code = Obj(m.cls('StabilizerCode'), 'code')
        code.fields.update(id='Toric2DCode', params={'L_x': 3}, n=18, k=2, d=3, size=(3, 3), label='Toric 3x3')
        em = Obj(m.cls('BaseErrorModel'), 'noise')
        em.fields.update(id='PauliErrorModel', params={'r_x': 1.0}, label='noise')

        def dec(r):
            d = Obj(m.cls('BaseDecoder'), f'decoder@{r}')
            d.fields.update(id='MatchingDecoder', params={}, error_rate=r)
            return d
        if cname == 'DirectSimulation':
            args = [code, em, dec(0.1), 0.1]
        else:
            args = [code, em, [dec(0.1), dec(0.2)], [0.1, 0.2], 5]
        it.call_closure(Closure(init[1], init[0].module, init[0]), args, {}, init[1], self_obj=o)
        return ci, o
    for cname in ('DirectSimulation', 'SplittingSimulation'):
        ci = m.cls(cname)
        site = site_of(ci.module, ci.node)
        it = Interp(m, H())

        def thunk():
            ci_, o = mk(cname, it)
            inputs, results = o.fields.get('_inputs'), o.fields.get('_results')
            if not isinstance(inputs, dict) or not isinstance(results, dict):
                raise AnalysisError('R12.3', site, f'{cname}: _inputs/_results not tracked')
            # a few trials as the loop would record them: every list-valued entry gets elements of its own shape
            def filled(v):
                if isinstance(v, list) and v and all(isinstance(x, list) for x in v):
                    return [[-1.5, -2.5] for _ in v]
                if isinstance(v, list):
                    return [[0, 1], [1, 0]]
                return v
            rec = {'inputs': _jsonish(inputs), 'results': _jsonish({k: filled(v) for k, v in results.items()})}
            # (1) found again?
            fcs = ci_.find_method('_find_current_simulation')
            found = it.call_closure(Closure(fcs[1], fcs[0].module, fcs[0]), [[{'inputs': {'other': 1}, 'results': {}}, rec]], {},
                                    fcs[1], self_obj=o)
            # (2) loaded, then appended to
            ld = ci_.find_method('load_results_from_dict')
            it.call_closure(Closure(ld[1], ld[0].module, ld[0]), [rec], {}, ld[1], self_obj=o)
            return found is rec or found == rec, {k: v for k, v in o.fields['_results'].items()}, \
                {k: type(v).__name__ for k, v in inputs.items() if isinstance(v, (np.ndarray, np.generic))}
        outs = guard('R12.3', ci.module, ci.node)(lambda: it.explore(thunk))
        raises = [o for o in outs if o.kind != 'return']
        arrays = {}
        ok_found = not raises and all(o.value[0] is True for o in outs)
        detail = ''
        if raises:
            detail = f'looking the record up raises {raises[0].exc}'
        elif not ok_found:
            detail = 'the record written by the same configuration is not recognised'
        for o in outs:
            if o.kind == 'return':
                arrays.update(o.value[2])
        if arrays:
            ok_found = False
            detail = (f'_inputs holds NumPy values {arrays}: `sim["inputs"] == self._inputs` compares a list with an array '
                      f'element-wise and the `if` raises "truth value of an array is ambiguous" - every resume fails')
        ctx.ob('R12.3', site, f'{cname}: its own record is recognised when the results file is read back', ok_found, detail,
               key=f'{cname}|roundtrip-identity', facts=arrays)
        # append targets of the trial loop
        run = ci.methods.get('_run')
        ctx.need(run is not None, 'R12.3', site, f'{cname}._run not found')
        targets = []
        # the trial loop and the methods of the same class it calls through self (the recording step may be a helper)
        bodies, seen_m = [run], {'_run'}
        for f_ in bodies:
            for c_ in ast.walk(f_):
                if isinstance(c_, ast.Call) and isinstance(c_.func, ast.Attribute) and isinstance(c_.func.value, ast.Name) \
                        and c_.func.value.id == 'self' and c_.func.attr not in seen_m:
                    r_ = ci.find_method(c_.func.attr)
                    if r_ is not None and len(bodies) < 8:
                        seen_m.add(c_.func.attr)
                        bodies.append(r_[1])
        # local aliases of the results dictionary (results = self._results)
        res_alias = {s_.targets[0].id for f_ in bodies for s_ in ast.walk(f_) if isinstance(s_, ast.Assign) and len(s_.targets) == 1
                     and isinstance(s_.targets[0], ast.Name) and isinstance(s_.value, ast.Attribute)
                     and s_.value.attr in ('_results', 'results')}

        def is_results(e):
            return (isinstance(e, ast.Attribute) and e.attr in ('_results', 'results')) or \
                (isinstance(e, ast.Name) and e.id in res_alias)
        for n in (x for f_ in bodies for x in ast.walk(f_)):
            if isinstance(n, ast.Call) and isinstance(n.func, ast.Attribute) and n.func.attr == 'append':
                t = n.func.value
                depth = 0
                while isinstance(t, ast.Subscript) and not is_results(t.value):
                    t = t.value
                    depth += 1
                if isinstance(t, ast.Subscript) and is_results(t.value):
                    key = ast.literal_eval(t.slice) if isinstance(t.slice, ast.Constant) else None
                    targets.append((key, depth, n))
        ctx.need(targets, 'R12.3', site_of(ci.module, run), f'{cname}._run: no append into self._results found')
        rets = [o for o in outs if o.kind == 'return']
        for key, depth, n in targets:
            bad = None
            for o in rets:
                loaded = o.value[1]
                if key is None:
                    keys = [k for k, v in loaded.items() if isinstance(v, (list, np.ndarray))]
                else:
                    keys = [key]
                for k in keys:
                    v = loaded.get(k)
                    conts = [v] if depth == 0 else (list(v) if isinstance(v, (list, np.ndarray)) else [v])
                    for c in conts:
                        if c is TOP or 'TOP' in type(c).__name__.upper():
                            raise AnalysisError('R12.3', site_of(ci.module, n), f'{cname}: loaded value of {k!r} not tracked')
                        if not isinstance(c, list):
                            bad = (f"after loading, self._results[{k!r}]{'[i]' * depth} is a {type(c).__name__}: "
                                   f'`{norm_stmt(n)}` raises AttributeError on the first trial of a resumed run')
            ctx.ob('R12.3', site_of(ci.module, n), f'{cname}._run appends to {"every per-trial list" if key is None else key!r}: '
                                                   f'still a list after a resume', bad is None, bad or '',
                   key=f'{cname}._run|append[{key}]')


def _r124(ctx: Ctx, rule: str = 'R12.4', fresh: bool = False) -> None:
    """fresh=True: only runs that start from nothing (what a task of a parallel run does), targets from 1 trial up."""
    m = ctx.model
    ci = m.cls('BatchSimulation')
    mi = ci.module
    fn = ci.methods.get('_run')
    ctx.need(fn is not None, rule, site_of(mi, ci.node), 'BatchSimulation._run not found')
    site = site_of(mi, fn)
    configs = []
    targets = (1, 2, 3, 4, 6, 9) if ctx.tier == 'thorough' else (1, 4, 6)
    if fresh:
        targets = (1, 2, 3, 5)
    for n_trials in targets:
        loads = [(0,), (0, 0), (0, 0, 0)] if fresh else [(0, 0), (2, 2), (1, 3), (3, 0), (n_trials, n_trials), (n_trials + 2, 1)]
        if ctx.tier == 'thorough' and not fresh:
            loads += [(0,), (0, 1, 2), (n_trials - 1, 0, n_trials + 1), (5, 5, 5)]
            loads = [tuple(max(0, x) for x in l) for l in loads]
        for loaded in loads:
            for sf in ((1, 2, 3, 4, 7) if ctx.tier == 'thorough' else (1, 2, 3)):
                configs.append((n_trials, loaded, sf))
    n_bad = 0
    first_bad = None
    for n_trials, loaded, sf in configs:
        log = []

        class H(Hooks):
            def call(self, it, func, args, kwargs, node, env):
                if isinstance(func, BoundMethod) and func.closure.fn.name in ('save_results', '_save_results'):
                    log.append(('save', tuple(s.n for s in sims)))
                    return None
                if isinstance(func, BoundMethod) and func.closure.fn.name in ('load_results', '_log_progress', 'on_update'):
                    return None
                if isinstance(func, Closure) and getattr(func.fn, 'name', '') == 'identity':
                    return args[0]
                return NOT_HANDLED
        it = Interp(m, H())
        sims = []

        def thunk():
            log.clear()
            sims.clear()
            sims.extend(_Sim(n, log, i) for i, n in enumerate(loaded))
            o = Obj(ci, 'batch')
            o.fields.update({'_simulations': sims, 'update_frequency': 5, 'save_frequency': sf, '_log_file': None,
                             '_output_file': 'out.json'})
            it.call_closure(Closure(fn, mi, ci), [n_trials], {}, fn, self_obj=o)
            return list(log), tuple(s.n for s in sims)
        outs = guard(rule, mi, fn)(lambda: it.explore(thunk))
        ctx.need(len(outs) == 1 and outs[0].kind == 'return', rule, site, f'_run{(n_trials, loaded, sf)}: {outs!r}')
        events, final = outs[0].value
        bad = None
        want = tuple(max(n, n_trials) for n in loaded)
        if final != want:
            bad = f'final trial counts {final}, expected {want}'
        for e in events:
            if e[0] == 'run':
                if e[2] != 1:
                    bad = f'run({e[2]!r}) instead of run(1)'
                if not e[3] < n_trials:
                    bad = f'simulation {e[1]} run with n_results={e[3]} >= target {n_trials}'
        saves = [e for e in events if e[0] == 'save']
        ran = any(e[0] == 'run' for e in events)
        if ran and (not saves or saves[-1][1] != final):
            bad = f'last save saw counts {saves[-1][1] if saves else None}, final counts are {final}: trials after ' \
                  f'the last save are lost on exit'
        # a save must not split a round: between two saves every unfinished simulation advanced equally
        prev = loaded
        for s in saves:
            adv = [b - a for a, b in zip(prev, s[1]) if a < n_trials]
            fin = [b for b in s[1]]
            unfinished_adv = {b - a for a, b in zip(prev, s[1]) if b < n_trials}
            if len(unfinished_adv) > 1:
                bad = f'save with unequal progress {s[1]} after {prev}'
            prev = s[1]
        if bad:
            n_bad += 1
            first_bad = first_bad or f'target {n_trials}, loaded {loaded}, save_frequency {sf}: {bad}'
    ctx.ob(rule, site, f'BatchSimulation._run: exact trial accounting and final save over {len(configs)} configurations'
                       + (' starting from nothing' if fresh else ''),
           n_bad == 0, first_bad or '', key='BatchSimulation._run|accounting' + ('[fresh]' if fresh else ''),
           facts={'configurations': len(configs), 'failing': n_bad})


# ------------------------------------------------------------------- R12.5

def _r125(ctx: Ctx) -> None:
    m = ctx.model
    ci = m.cls('BatchSimulation')
    mi = ci.module
    fn = ci.methods.get('save_results')
    ctx.need(fn is not None, 'R12.5', site_of(mi, ci.node), 'save_results not found')
    state = {'n': 0}

    class H(Hooks):
        def call(self, it, func, args, kwargs, node, env):
            if isinstance(func, BoundMethod) and func.closure.fn.name == '_save_results':
                state['n'] += 1
                if state['n'] == 1:
                    raise PathRaise('KeyboardInterrupt', node)
                return None
            return NOT_HANDLED
    it = Interp(m, H())

    def thunk():
        state['n'] = 0
        return it.call_closure(Closure(fn, mi, ci), [], {}, fn, self_obj=Obj(ci, 'batch'))
    outs = guard('R12.5', mi, fn)(lambda: it.explore(thunk))
    ok = len(outs) == 1 and outs[0].kind == 'raise' and outs[0].exc == 'KeyboardInterrupt' and state['n'] == 2
    ctx.ob('R12.5', site_of(mi, fn), 'save_results: interrupted write is repeated, then KeyboardInterrupt re-raised', ok,
           f'outcome {outs!r}, {state["n"]} write attempt(s)', key='BatchSimulation.save_results|retry')
    fn2 = ci.methods.get('run')

    saves = []

    class H2(Hooks):
        def call(self, it, func, args, kwargs, node, env):
            if isinstance(func, BoundMethod) and func.closure.fn.name == '_run':
                raise PathRaise('KeyboardInterrupt', node)
            if isinstance(func, BoundMethod) and func.closure.fn.name in ('save_results', '_save_results', 'save_file',
                                                                       '_update_file'):
                saves.append(func.closure.fn.name)
                return None
            return NOT_HANDLED
    it = Interp(m, H2())
    outs = guard('R12.5', mi, fn2)(lambda: it.explore(
        lambda: it.call_closure(Closure(fn2, mi, ci), [5], {}, fn2, self_obj=Obj(ci, 'batch'))))
    ok = len(outs) == 1 and outs[0].kind == 'return'
    ctx.ob('R12.5', site_of(mi, fn2), 'BatchSimulation.run absorbs the KeyboardInterrupt raised by _run', ok,
           f'outcome {outs!r}', key='BatchSimulation.run|interrupt')
    ctx.ob('R12.5', site_of(mi, fn2), 'BatchSimulation.run does not write a checkpoint from its interrupt handler', not saves,
           f'the handler of an interrupt that may have arrived in the middle of a trial (or while results were being '
           f'loaded) calls {saves}: a torn in-memory state replaces the last completed save', key='BatchSimulation.run|no-save')
    # who may save: only _run (between rounds) and the retry handler of save_results
    # (a helper counts as the trial loop when every call of it comes from _run or from such a helper)
    callers: Dict[str, set] = {}
    for name, f_ in ci.methods.items():
        for n in ast.walk(f_):
            if isinstance(n, ast.Call) and isinstance(n.func, ast.Attribute) and isinstance(n.func.value, ast.Name) \
                    and n.func.value.id == 'self' and n.func.attr in ci.methods:
                callers.setdefault(n.func.attr, set()).add(name)

    def in_loop(name, seen=()):
        if name == '_run':
            return True
        cs = callers.get(name, set())
        return bool(cs) and name not in seen and all(in_loop(c_, seen + (name,)) for c_ in cs)
    for c in (ci, m.cls('BaseSimulation'), m.cls('DirectSimulation')):
        for name, f_ in c.methods.items():
            for n in ast.walk(f_):
                if isinstance(n, ast.Call) and isinstance(n.func, ast.Attribute) and n.func.attr == 'save_results' \
                        and ast.unparse(n.func.value) == 'self' and c is ci:
                    okc = in_loop(name)
                    ctx.ob('R12.5', site_of(c.module, n), f'{c.name}.{name}: checkpoint only from the trial loop', okc,
                           f'{c.name}.{name} calls save_results outside the trial loop of _run',
                           key=f'{c.name}.{name}|save-site')
    # _save_results -> _update_file -> save_json(all results, self._output_file)
    sr = ci.methods.get('_save_results')
    ctx.need(sr is not None, 'R12.5', site_of(mi, ci.node), '_save_results not found')
    saved = []

    class H3(Hooks):
        def call(self, it, func, args, kwargs, node, env):
            if isinstance(func, Closure) and getattr(func.fn, 'name', '') == 'save_json':
                b = dict(zip(('data', 'file'), args))
                b.update(kwargs)
                saved.append(b)
                return None
            if isinstance(func, BoundMethod) and func.closure.fn.name == 'get_results_to_save' and \
                    isinstance(func.obj, Obj) and func.obj.label == 'batch':
                return Tagged('all-results')
            if isinstance(func, BoundMethod) and func.closure.fn.name == 'save_file':
                saved.append({'save_file': True})
                return None
            if isinstance(func, Ext) and func.name.startswith('os.'):
                return True if func.name == 'os.path.isfile' else None
            return NOT_HANDLED
    it = Interp(m, H3())

    def thunk3():
        saved.clear()
        o = Obj(ci, 'batch')
        o.fields['_output_file'] = 'OUT'
        it.call_closure(Closure(sr, mi, ci), [], {}, sr, self_obj=o)
        return list(saved)
    outs = guard('R12.5', mi, sr)(lambda: it.explore(thunk3))
    ok = len(outs) == 1 and outs[0].kind == 'return' and [x for x in outs[0].value if 'file' in x] == \
        [{'data': Tagged('all-results'), 'file': 'OUT'}]
    ctx.ob('R12.5', site_of(mi, sr), '_save_results writes the results of all simulations to the output file', ok,
           f'{outs!r}', key='BatchSimulation._update_file|target')


def run(ctx: Ctx) -> None:
    ctx.rule('R12.1', 'results file only ever replaced atomically (temp sibling + os.replace)', floor=5)
    ctx.rule('R12.2', 'every save_json call passes (data, path)', floor=5)
    ctx.rule('R12.3', 'resume identity = equality of the whole inputs; loaded lists are assigned for own keys only', floor=20)
    ctx.rule('R12.4', 'each trial guarded by n_results < n_trials with run(1); final save after the last trial', floor=1)
    ctx.rule('R12.5', 'interrupt handler saves again and re-raises; run() absorbs it', floor=3)
    ctx.rule('R12.6', 'nothing that reads the results file is memoised; no memoised value is written through', floor=1)
    ctx.trust('os.replace is atomic on one file system; json/gzip writers either complete or raise')
    with ctx.part():
        _r121(ctx)
    with ctx.part():
        _r122(ctx)
    with ctx.part():
        _r123(ctx)
    with ctx.part():
        _r123b(ctx)
    with ctx.part():
        _r123c(ctx)
    from .c06 import class_mutable_rule
    with ctx.part():
        class_mutable_rule(ctx, 'R12.3', ['DirectSimulation', 'SplittingSimulation', 'BatchSimulation'])
    with ctx.part():
        _r124(ctx)
    with ctx.part():
        _r125(ctx)
    from .c06 import frozen_rule, memo_io_rule
    with ctx.part():
        memo_io_rule(ctx, 'R12.6')
    with ctx.part():
        frozen_rule(ctx, 'R12.6', 'panqec.simulation')
