"""C15 - analysis aggregates are conserved however results are split."""
from __future__ import annotations

import ast
from typing import Dict, List, Optional, Set, Tuple

import numpy as np

from ..alg import Algebra, to_sympy_src, verdict
from ..domains import Poly
from ..dfdomain import CT, DF, to_sympy
from ..interp import (NOT_HANDLED, TOP, Closure, Ext, Hooks, Interp, Obj, guard, site_of)
from ..model import AnalysisError, norm_stmt, walk_no_nested
from ..report import Ctx
from ..symnp import call_numpy
from ..nphooks import Tagged

EXPLANATION = (
    'R15.1: the per-trial columns the simulator writes (list-valued keys of DirectSimulation._results) are exactly '
    'the columns Analysis.aggregate concatenates; wall_time and n_trials are summed; nothing per-trial is taken '
    'with first(). R15.2: the group-by key is built from the string forms of the full code / noise / decoder / '
    'method input dictionaries plus the error rate, default (sorted) grouping. R15.3 (algebra, sympy): '
    'get_standard_error = sqrt(p(1-p)/(n+1)); get_word_error_rate = (1-(1-p)^(1/k), |d/dp| * p_se); n_fail = n_trials - '
    'sum(success); p_est = 1 - mean(success); sector p_est = n_fail_S / n_trials_S; the inline standard errors of '
    'DirectSimulation.get_results, SplittingSimulation.get_results and BatchSimulation.get_results_df have the same '
    'normal form. R15.4: provenance of every *_se column: it must derive from get_standard_error or the '
    'uncertainty component of get_word_error_rate / get_single_qubit_error_rate, never from the estimate component. '
    'R15.5: count_fails is interpreted on a symbolic array: rows filtered by codespace, X = first k columns, '
    'Z = last k; n_trials_S = k * sum(codespace); get_single_qubit_error_rate evaluated on all 16 two-qubit-pattern '
    'rows; p_x/p_z slices of get_results_df. R15.6: every container branch of read_files ends in read_entry; '
    'read_entry is evaluated on nested merged lists; merge_results appends whole files and saves through save_json.'
)


def _analysis(ctx: Ctx):
    m = ctx.model
    return m.module('panqec.analysis'), m.cls('Analysis')


# ------------------------------------------------------------------- R15.1 / R15.2

def groupby_calls(ami, fn):
    """(function, call) for every .groupby(...) in fn or in a module-level helper of the same module that fn calls by
    name (the grouping may live in a helper)."""
    out = []
    fns = [fn]
    for c_ in ast.walk(fn):
        if isinstance(c_, ast.Call) and isinstance(c_.func, ast.Name) and c_.func.id in ami.functions \
                and ami.functions[c_.func.id] not in fns:
            fns.append(ami.functions[c_.func.id])
    for f_ in fns:
        for n in ast.walk(f_):
            if isinstance(n, ast.Call) and isinstance(n.func, ast.Attribute) and n.func.attr == 'groupby':
                out.append((f_, n))
    return out


def _lists_in_subscript(node: ast.AST) -> Optional[List[str]]:
    """grouped_df[[a, b]] -> [a, b]"""
    if isinstance(node, ast.Subscript) and isinstance(node.slice, ast.List):
        try:
            return [ast.literal_eval(e) for e in node.slice.elts]
        except ValueError:
            return None
    return None


def _r151_152(ctx: Ctx) -> None:
    m = ctx.model
    ami, aci = _analysis(ctx)
    fn = aci.methods.get('aggregate')
    ctx.need(fn is not None, 'R15.1', site_of(ami, aci.node), 'Analysis.aggregate not found')
    site = site_of(ami, fn)
    summed = concat = first = listed = None
    for n in ast.walk(fn):
        if isinstance(n, ast.Call) and isinstance(n.func, ast.Attribute):
            cols = _lists_in_subscript(n.func.value)
            if cols is None:
                continue
            if n.func.attr == 'sum':
                summed = cols
            elif n.func.attr in ('first', 'nth', 'head', 'tail', 'last'):
                first = cols                      # one row / value per group (how it is indexed: see `aligned` below)
            elif n.func.attr in ('aggregate', 'agg') and n.args:
                a = n.args[0]
                if isinstance(a, ast.Lambda) and 'concatenate' in ast.unparse(a):
                    concat = cols
                elif isinstance(a, ast.Name) and a.id in ami.functions and 'concatenate' in ast.unparse(ami.functions[a.id]):
                    concat = cols                     # a named function of the module that concatenates the group
                elif isinstance(a, ast.Name) and a.id == 'list':
                    listed = cols
                elif isinstance(a, ast.Constant) and a.value == 'sum':
                    summed = cols
                elif isinstance(a, ast.Constant) and a.value in ('first', 'last'):
                    first = cols
    ctx.need(summed is not None and concat is not None and first is not None, 'R15.1', site,
             f'aggregate: column groups not recognised (sum={summed}, concat={concat}, first={first})')
    # writer side: list-valued keys of DirectSimulation._results
    dci = m.cls('DirectSimulation')
    init = dci.methods['__init__']
    per_trial = set()
    lits = []
    for n in ast.walk(init):
        if isinstance(n, ast.Assign) and isinstance(n.targets[0], ast.Attribute) and n.targets[0].attr == '_results' \
                and isinstance(n.value, ast.Dict):
            lits.append(n.value)
        # self._results.update({...}) / self._results |= {...}
        if isinstance(n, ast.Call) and isinstance(n.func, ast.Attribute) and n.func.attr == 'update' \
                and isinstance(n.func.value, ast.Attribute) and n.func.value.attr == '_results' and n.args \
                and isinstance(n.args[0], ast.Dict):
            lits.append(n.args[0])
        if isinstance(n, ast.AugAssign) and isinstance(n.target, ast.Attribute) and n.target.attr == '_results' \
                and isinstance(n.value, ast.Dict):
            lits.append(n.value)
    for lit in lits:
        if True:
            for k, v in zip(lit.keys, lit.values):
                if k is not None and isinstance(k, ast.Constant) and isinstance(v, ast.List):
                    per_trial.add(k.value)
    ctx.need(per_trial, 'R15.1', site_of(dci.module, init), 'per-trial keys of DirectSimulation._results not found')
    ctx.ob('R15.1', site, 'aggregate concatenates exactly the per-trial columns the simulator writes',
           set(concat) == per_trial, f'simulator writes per-trial lists {sorted(per_trial)}; aggregate concatenates '
                                     f'{sorted(concat)}', key='Analysis.aggregate|concat', facts=sorted(concat))
    ctx.ob('R15.1', site, 'aggregate sums wall_time and n_trials', set(summed) == {'wall_time', 'n_trials'},
           f'summed columns {summed}', key='Analysis.aggregate|sum', facts=summed)
    bad_first = sorted((set(first) & (per_trial | {'n_trials', 'wall_time', 'n_fail'})))
    ctx.ob('R15.1', site, 'aggregate takes first() only of the identity columns', not bad_first and
           set(first) <= {'code', 'error_model', 'decoder', 'method'},
           f'first() of {first}: per-trial or additive data would be dropped for all but one file',
           key='Analysis.aggregate|first', facts=first)
    # the per-group frames are put side by side: every one of them must be indexed by the group key (sum, first, agg
    # ...), so that pandas aligns them group by group.  nth / head / tail are filters: their rows keep their own index and
    # the order of the input rows, and after reset_index(drop=True) they are glued on BY POSITION, i.e. in file order
    # next to aggregates that are in sorted key order.
    KEYED = {'sum', 'first', 'last', 'aggregate', 'agg', 'min', 'max', 'mean', 'count', 'size', 'median'}
    FILTERS = {'nth', 'head', 'tail', 'cumsum', 'cumcount', 'shift', 'transform'}
    defs = {}
    for n in ast.walk(fn):
        if isinstance(n, ast.Assign) and len(n.targets) == 1 and isinstance(n.targets[0], ast.Name):
            defs.setdefault(n.targets[0].id, []).append(n.value)

    def is_grouped(e):
        while isinstance(e, ast.Subscript):
            e = e.value
        if isinstance(e, ast.Name) and len(defs.get(e.id, [])) == 1:
            d_ = defs[e.id][0]
            if isinstance(d_, ast.Call) and isinstance(d_.func, ast.Name) and d_.func.id in ami.functions:
                # a helper of the module that returns the grouping
                return any(isinstance(r_, ast.Return) and r_.value is not None and any(
                    isinstance(c, ast.Call) and isinstance(c.func, ast.Attribute) and c.func.attr == 'groupby'
                    for c in ast.walk(r_.value)) for r_ in ast.walk(ami.functions[d_.func.id]))
            return any(isinstance(c, ast.Call) and isinstance(c.func, ast.Attribute) and c.func.attr == 'groupby'
                       for c in ast.walk(d_))
        return isinstance(e, ast.Call) and isinstance(e.func, ast.Attribute) and e.func.attr == 'groupby'

    def frame_kind(e, depth=0):
        """'keyed' (indexed by the group key) | 'sorted' (row numbers, rows in sorted key order) | ('input', why) (rows in
        the order of the input rows) | ('clash', why) | None (not recognised)"""
        if depth > 6:
            return None
        if isinstance(e, ast.Name) and len(defs.get(e.id, [])) == 1:
            return frame_kind(defs[e.id][0], depth + 1)
        if isinstance(e, ast.Call) and isinstance(e.func, ast.Attribute):
            a = e.func.attr
            if is_grouped(e.func.value):
                if a in KEYED:
                    return 'keyed'
                if a in FILTERS:
                    return ('input', f'{norm_stmt(e, 90)} is a filter: its rows keep their own index and the order of the '
                                     f'input rows')
                return None
            if a == 'reset_index':
                inner = frame_kind(e.func.value, depth + 1)
                return 'sorted' if inner == 'keyed' else inner
            if ast.unparse(e.func) in ('pd.concat', 'pandas.concat') and e.args and isinstance(e.args[0], (ast.List, ast.Tuple)):
                kinds = [frame_kind(x, depth + 1) for x in e.args[0].elts]
                if any(k is None for k in kinds):
                    return None
                clash = [k for k in kinds if isinstance(k, tuple) and k[0] == 'clash']
                if clash:
                    return clash[0]
                inp = [k for k in kinds if isinstance(k, tuple) and k[0] == 'input']
                if inp and len(inp) < len(kinds):
                    return ('clash', inp[0][1])
                if inp:
                    return inp[0]
                if set(kinds) == {'keyed'}:
                    return 'keyed'
                if set(kinds) == {'sorted'}:
                    return 'sorted'
                return None              # key-indexed next to row-numbered frames: pandas takes the union of the indexes
        return None
    cc = [n for n in ast.walk(fn) if isinstance(n, ast.Call) and ast.unparse(n.func) in ('pd.concat', 'pandas.concat')
          and any(k.arg == 'axis' and isinstance(k.value, ast.Constant) and k.value.value == 1 for k in n.keywords)]
    ctx.need(cc, 'R15.1', site, 'aggregate: side-by-side pd.concat(axis=1) of the per-group frames not found')
    outer = [c for c in cc if not any(c is not d and c in list(ast.walk(d)) for d in cc)]
    for c in outer:
        kind = frame_kind(c)
        if kind is None:
            raise AnalysisError('R15.1', site_of(ami, c), f'aggregate: {norm_stmt(c, 100)}: how the frames are indexed is not recognised')
        ctx.ob('R15.1', site_of(ami, c), 'aggregate: the per-group frames put side by side are all indexed by the group key',
               kind in ('keyed', 'sorted') or kind[0] == 'input', '' if not (isinstance(kind, tuple) and kind[0] == 'clash') else
               f'{kind[1]}; put next to frames in sorted group-key order it attaches the identity columns (code, hence d, n, k) '
               f'to the counts of another group unless the input rows happen to be sorted',
               key='Analysis.aggregate|aligned')
    # n_trials = len(effective_error) per entry (reader)
    mi2, re_fn = m.func('panqec.analysis', 'read_entry')
    # interpreted on a record whose n_runs counter disagrees with the number of recorded trials (an interrupted run):
    # the trials that exist are the ones that count
    rec = {'inputs': {'code': {'name': 'C'}, 'error_rate': 0.1},
           'results': {'effective_error': [[0, 1]] * 3, 'success': [True] * 3, 'codespace': [True] * 3,
                       'n_runs': 99, 'wall_time': 1.0}}
    it_ = Interp(m, _HNp())
    outs_ = guard('R15.1', mi2, re_fn)(lambda: it_.explore(
        lambda: it_.call_closure(Closure(re_fn, mi2), [rec], {'results_file': 'F'}, re_fn)))
    ok = len(outs_) == 1 and outs_[0].kind == 'return' and isinstance(outs_[0].value, list) and len(outs_[0].value) == 1 \
        and isinstance(outs_[0].value[0], dict) and outs_[0].value[0].get('n_trials') == 3
    ctx.ob('R15.1', site_of(mi2, re_fn), "read_entry: n_trials = len(effective_error)", ok, 'n_trials is not the number of '
           'recorded trials', key='read_entry|n_trials')
    # R15.2 group-by key
    gbs = groupby_calls(ami, fn)
    ctx.need(len(gbs) == 1, 'R15.2', site, f'groupby call not found ({len(gbs)} candidates in aggregate and its helpers)')
    gfn, g = gbs[0]
    # the helper's parameters are bound to the arguments of its (single) call in aggregate
    bind = {}
    if gfn is not fn:
        cs = [c_ for c_ in ast.walk(fn) if isinstance(c_, ast.Call) and isinstance(c_.func, ast.Name) and c_.func.id == gfn.name]
        ctx.need(len(cs) == 1 and not cs[0].keywords, 'R15.2', site, f'call of {gfn.name} in aggregate not recognised')
        bind = dict(zip([a.arg for a in gfn.args.args], cs[0].args))
    keys = None
    karg = g.args[0] if g.args else None
    if isinstance(karg, ast.Name) and karg.id in bind:
        karg = bind[karg.id]
    if karg is not None and ast.unparse(karg) == 'self.INPUT_KEYS':
        a = aci.find_attr('INPUT_KEYS')
        keys = ast.literal_eval(a[1]) if a else None
    elif isinstance(karg, ast.List):
        keys = ast.literal_eval(karg)
    ctx.need(keys is not None, 'R15.2', site, 'group-by keys not recognised')
    want = {'code_str', 'error_model_str', 'decoder_str', 'error_rate'}
    ctx.ob('R15.2', site, 'group-by key covers code, noise model, decoder and error rate', want <= set(keys),
           f'group-by keys {keys}: records differing in {sorted(want - set(keys))} would be pooled',
           key='Analysis.aggregate|groupby-keys', facts=keys)
    nosort = any(k.arg == 'sort' and isinstance(k.value, ast.Constant) and k.value.value is False for k in g.keywords)
    ctx.ob('R15.2', site, 'group-by uses the default sorted order', not nosort, 'groupby(sort=False): row order depends on '
           'file order', key='Analysis.aggregate|groupby-sort')
    # the error rate is a float read from files: it is rounded (the code says why: "anything smaller is numerical
    # error") BEFORE it serves as a group-by key, so 0.3 and 0.1*3 are pooled
    def roundings(f):
        out = []
        for n in ast.walk(f):
            if isinstance(n, ast.Assign) and 'error_rate' in ast.unparse(n.targets[0]) and any(
                    isinstance(c, ast.Call) and 'round' in ast.unparse(c.func).split('.')[-1] and 'error_rate' in ast.unparse(c)
                    for c in ast.walk(n.value)):
                out.append(n)
        return out
    before = []
    after = []
    for mname in ('__init__', 'read_files', 'find_files'):
        r_ = aci.find_method(mname)
        if r_:
            before += [(r_[1], n) for n in roundings(r_[1])]
    rmi2, rfn2 = m.func('panqec.analysis', 'read_entry')
    before += [(rfn2, n) for n in roundings(rfn2)]
    for n in roundings(fn):
        (before if n.lineno < g.lineno else after).append((fn, n))
    if not before and not after:
        raise AnalysisError('R15.2', site, 'no rounding of error_rate found before or after the grouping (unrecognised form)')
    ctx.ob('R15.2', site_of(ami, (before or after)[0][1]), 'error_rate is rounded before it is used as a group-by key', bool(before),
           f'{norm_stmt(after[0][1]) if after else ""} comes after the groupby: error rates that differ by float noise (0.3 vs '
           f'0.1*3) form separate groups, each with part of the trials', key='Analysis.aggregate|rate-rounded-before-grouping')
    asg = [n for n in ast.walk(gfn) if isinstance(n, ast.Call) and isinstance(n.func, ast.Attribute) and n.func.attr == 'assign']
    ctx.need(len(asg) == 1, 'R15.2', site, 'assign(...) of the string keys not found')
    frame = asg[0].func.value                       # the frame the keys are added to: self.raw (or the parameter bound to it)
    frame_txt = ast.unparse(bind.get(frame.id, frame) if isinstance(frame, ast.Name) else frame)
    pairs = []                                      # (new column, expression text with the frame spelled out)
    for k in asg[0].keywords:
        if k.arg is not None:
            v = k.value
            if isinstance(frame, ast.Name) and frame.id in bind:
                v = _subst_name(v, frame.id, bind[frame.id])
            pairs.append((k.arg, ast.unparse(v)))
            continue
        # **keys with keys = {name: frame[source].astype('str') for name, source in TABLE.items()}, TABLE a literal
        dd = k.value
        if isinstance(dd, ast.Name):
            ds = [n.value for n in ast.walk(gfn) if isinstance(n, ast.Assign) and len(n.targets) == 1
                  and isinstance(n.targets[0], ast.Name) and n.targets[0].id == dd.id]
            dd = ds[0] if len(ds) == 1 else dd
        table = None
        if isinstance(dd, ast.DictComp) and len(dd.generators) == 1 and isinstance(dd.generators[0].target, ast.Tuple) \
                and len(dd.generators[0].target.elts) == 2 and not dd.generators[0].ifs \
                and isinstance(dd.generators[0].iter, ast.Call) and isinstance(dd.generators[0].iter.func, ast.Attribute) \
                and dd.generators[0].iter.func.attr == 'items' and isinstance(dd.generators[0].iter.func.value, ast.Name):
            tv = ami.assigns.get(dd.generators[0].iter.func.value.id)
            if isinstance(tv, ast.Dict):
                try:
                    table = ast.literal_eval(tv)
                except ValueError:
                    table = None
        if not (isinstance(table, dict) and isinstance(dd.key, ast.Name) and all(isinstance(x, ast.Name) for x in dd.generators[0].target.elts)):
            raise AnalysisError('R15.2', site_of(ami, asg[0]), f'assign(**{ast.unparse(k.value)}): string keys not recognised')
        kn, vn = (x.id for x in dd.generators[0].target.elts)
        for a_, b_ in table.items():
            name = a_ if dd.key.id == kn else b_
            v = _subst_name(_subst_name(dd.value, kn, ast.Constant(value=a_)), vn, ast.Constant(value=b_))
            if isinstance(frame, ast.Name) and frame.id in bind:
                v = _subst_name(v, frame.id, bind[frame.id])
            pairs.append((name, ast.unparse(v)))
    for name, txt_ in pairs:
        base = name[:-4] if name.endswith('_str') else None
        txt = txt_.replace(' ', '').replace('"', "'")
        ok = base is not None and txt == f"self.raw['{base}'].astype('str')"
        ctx.ob('R15.2', site, f'{name} is the string form of the full {base} input dictionary', ok,
               f'{name} = {txt_}', key=f'Analysis.aggregate|{name}')


def _subst_name(e, name, repl):
    import copy

    class T(ast.NodeTransformer):
        def visit_Name(self, n):
            return copy.deepcopy(repl) if n.id == name and isinstance(n.ctx, ast.Load) else n
    return T().visit(copy.deepcopy(e))


# ------------------------------------------------------------------- R15.3

def _single_return_expr(fn) -> Tuple[ast.AST, Dict[str, ast.AST]]:
    env: Dict[str, ast.AST] = {}
    ret = None
    for s in fn.body:
        if isinstance(s, ast.Expr) and isinstance(s.value, ast.Constant):
            continue
        if isinstance(s, ast.Assign) and len(s.targets) == 1 and isinstance(s.targets[0], ast.Name):
            env[s.targets[0].id] = s.value
        elif isinstance(s, ast.Return):
            ret = s.value
        else:
            raise ValueError(f'not straight-line: {type(s).__name__}')
    if ret is None:
        raise ValueError('no return')
    return ret, env


def _r153(ctx: Ctx) -> None:
    m = ctx.model
    A = Algebra()
    items = []           # (query index, site, what, key)

    ami, fn = m.func('panqec.analysis', 'get_standard_error')
    try:
        ret, env = _single_return_expr(fn)
        params = [a.arg for a in fn.args.args]
        src = to_sympy_src(ret, env)
    except ValueError as e:
        raise AnalysisError('R15.3', site_of(ami, fn), f'get_standard_error not a closed expression: {e}')
    p, n = params[0], params[1]
    items.append((A.add(src, f'sqrt({p}*(1-{p})/({n}+1))', [p, n], {n: [1, 50]}), site_of(ami, fn),
                  'get_standard_error(p, n) = sqrt(p(1-p)/(n+1))', 'get_standard_error|formula', src))

    ami, fn = m.func('panqec.analysis', 'get_word_error_rate')
    try:
        ret, env = _single_return_expr(fn)
        ctx.need(isinstance(ret, ast.Tuple) and len(ret.elts) == 2, 'R15.3', site_of(ami, fn), 'returns no pair')
        s0 = to_sympy_src(ret.elts[0], env)
        s1 = to_sympy_src(ret.elts[1], env)
    except ValueError as e:
        raise AnalysisError('R15.3', site_of(ami, fn), f'get_word_error_rate not a closed expression: {e}')
    pe, ps, k = [a.arg for a in fn.args.args][:3]
    items.append((A.add(s0, f'1-(1-{pe})**(1/{k})', [pe, k], {k: [1, 9]}), site_of(ami, fn),
                  'word error rate = 1-(1-p)^(1/k)', 'get_word_error_rate|estimate', s0))
    items.append((A.add(s1, f'Abs(diff(1-(1-{pe})**(1/{k}), {pe}))*{ps}', [pe, ps, k], {k: [1, 9]}), site_of(ami, fn),
                  'word error rate uncertainty = |d/dp| * p_se', 'get_word_error_rate|uncertainty', s1))

    # inline standard errors
    def inline_se(mi, fn, target_txts, what, key):
        """The expression stored under a result key: `d['k'] = e`, a dictionary display `{'k': e}`, or
        `d.update({'k': e})`; a plain local name is followed to its single definition."""
        keys = {t.split("['")[1].rstrip("']") for t in target_txts}
        defs = {}
        for n_ in walk_no_nested(fn):
            if isinstance(n_, ast.Assign) and len(n_.targets) == 1 and isinstance(n_.targets[0], ast.Name):
                defs.setdefault(n_.targets[0].id, []).append(n_.value)
        sites = []
        for n_ in ast.walk(fn):
            if isinstance(n_, ast.Assign) and isinstance(n_.targets[0], ast.Subscript) \
                    and isinstance(n_.targets[0].slice, ast.Constant) and n_.targets[0].slice.value in keys:
                sites.append((n_, n_.targets[0].slice.value, n_.value))
            elif isinstance(n_, ast.Dict):
                for k_, v_ in zip(n_.keys, n_.values):
                    if isinstance(k_, ast.Constant) and k_.value in keys:
                        sites.append((v_, k_.value, v_))
        found = 0
        for n_, kname, value in sites:
            if isinstance(value, ast.Name) and len(defs.get(value.id, ())) == 1:
                value = defs[value.id][0]
            if ast.unparse(value) in ('np.nan', 'numpy.nan', "float('nan')"):
                continue
            found += 1
            try:
                src = to_sympy_src(value)
            except ValueError as e:
                raise AnalysisError('R15.3', site_of(mi, n_), f'{what}: not a closed expression: {e}')
            names = sorted({x for x in _idents(src)})
            pn = [x for x in names if 'p_est' in x or x.endswith('p_x') or x.endswith('p_z')]
            nn = [x for x in names if 'n_runs' in x or 'n_results' in x]
            if len(pn) != 1 or len(nn) != 1:
                raise AnalysisError('R15.3', site_of(mi, n_), f'{what}: operands not recognised in {src}')
            items.append((A.add(src, f'sqrt({pn[0]}*(1-{pn[0]})/({nn[0]}+1))', names, {nn[0]: [1, 50]}),
                          site_of(mi, n_), what + f" ({kname})", key + '|' + kname, src))
        return found
    dci = m.cls('DirectSimulation')
    f1 = inline_se(dci.module, dci.methods['get_results'], {"simulation_data['p_se']"},
                   'DirectSimulation.get_results p_se = sqrt(p(1-p)/(n+1))', 'DirectSimulation.get_results')
    sci = m.cls('SplittingSimulation')
    f2 = inline_se(sci.module, sci.methods['get_results'], {"simulation_data['p_se']"},
                   'SplittingSimulation.get_results p_se = sqrt(p(1-p)/(n+1))', 'SplittingSimulation.get_results')
    bci = m.cls('BatchSimulation')
    f3 = inline_se(bci.module, bci.methods['get_results_df'], {"batch_result['p_x_se']", "batch_result['p_z_se']"},
                   'BatchSimulation.get_results_df sector standard error', 'BatchSimulation.get_results_df')
    ctx.need(f1 == 1 and f2 == 1 and f3 == 2, 'R15.3', 'panqec/simulation', f'inline standard errors found: {f1},{f2},{f3}')

    res = A.solve('R15.3')
    for (qi, site, what, key, src) in items:
        ok, detail = verdict(res[qi])
        if ok is None:
            raise AnalysisError('R15.3', site, f'{what}: {detail}')
        ctx.ob('R15.3', site, what, ok, f'code computes {src}; {detail}', key=key, facts={'expr': src, 'how': detail})

    # formulas over data-frame columns: interpreted with an abstract column algebra, compared through sympy
    _frame_formulas(ctx)


class _HFrame(Hooks):
    """pandas / numpy calls on abstract frames."""

    def __init__(self):
        self.results = None
        self.calls = []

    def call(self, it, func, args, kwargs, node, env):
        from ..interp import BoundMethod
        if isinstance(func, Ext):
            if func.name in ('pandas.concat',):
                self.results = DF('results')
                return self.results
            if func.name in ('pandas.DataFrame',):
                return DF('frame')
            if func.name.startswith('numpy.'):
                return CT(func.name.split('.')[-1], *[a for a in args if isinstance(a, (CT, int, float))])
        if isinstance(func, Closure) and getattr(func.fn, 'name', '') in ('get_standard_error', 'get_word_error_rate',
                                                                        'get_single_qubit_error_rate', 'deduce_bias'):
            self.calls.append((func.fn.name, args))
            return CT('call:' + func.fn.name, *args)
        if isinstance(func, BoundMethod) and func.closure.fn.name in ('log', 'calculate_thresholds'):
            self.calls.append((func.closure.fn.name, args, kwargs))
            return None
        return NOT_HANDLED


def _frame_formulas(ctx: Ctx) -> None:
    m = ctx.model
    ami, aci = _analysis(ctx)
    A = Algebra()
    todo = []

    def interp_method(name, setup):
        fn = aci.methods.get(name)
        ctx.need(fn is not None, 'R15.3', site_of(ami, aci.node), f'Analysis.{name} not found')
        hooks = _HFrame()
        it = Interp(m, hooks)

        def thunk():
            o = Obj(aci, 'analysis')
            setup(o, hooks)
            it.call_closure(Closure(fn, ami, aci), [], {}, fn, self_obj=o)
            return o
        outs = guard('R15.3', ami, fn)(lambda: it.explore(thunk))
        ctx.need(len(outs) >= 1 and all(o_.kind == 'return' for o_ in outs), 'R15.3', site_of(ami, fn), f'{name}: {outs!r}')
        return fn, outs[0].value, hooks

    def stores_of(df):
        return {k: normalise_counts(m, v) for k, v in df.stores if isinstance(k, str)}

    # aggregate: n_fail
    def setup_agg(o, hooks):
        o.fields['raw'] = DF('raw')
        o.fields['verbose'] = False
    fn, o, hooks = interp_method('aggregate', setup_agg)
    res = o.fields.get('_results')
    ctx.need(isinstance(res, DF), 'R15.3', site_of(ami, fn), 'aggregate: result frame (pd.concat) not recognised')
    st = stores_of(res)
    ctx.need('n_fail' in st, 'R15.3', site_of(ami, fn), "aggregate: store of results['n_fail'] not found")
    syms = {}
    lhs = to_sympy(st['n_fail'], syms)
    n_sym = syms.get(repr(CT('col', res, 'n_trials')))
    s_sym = syms.get(repr(CT('apply', CT('col', res, 'success'), 'sum')))
    if n_sym is None or s_sym is None:
        ok, detail = _vocab_verdict(st['n_fail'], {'n_trials', 'success'}, {'sum'})
        if ok is None:
            ok, detail = _rowwise_count(m, st['n_fail'], res)
        if ok is None:
            raise AnalysisError('R15.3', site_of(ami, fn), f"n_fail = {st['n_fail']!r}: form not recognised")
        if ok:
            ctx.ob('R15.3', site_of(ami, fn), 'n_fail = n_trials - sum(success)', True, '', key='Analysis.aggregate|n_fail',
                   facts=repr(st['n_fail']))
        if not ok:
            ctx.ob('R15.3', site_of(ami, fn), 'n_fail = n_trials - sum(success)', False,
                   f"n_fail = {st['n_fail']!r}: {detail}", key='Analysis.aggregate|n_fail', facts=repr(st['n_fail']))
    else:
        todo.append((A.add(lhs, f'{n_sym} - {s_sym}', sorted(syms.values())), site_of(ami, fn),
                     'n_fail = n_trials - sum(success)', 'Analysis.aggregate|n_fail', repr(st['n_fail'])))

    # calculate_total_error_rates: estimator
    fn = aci.methods.get('calculate_total_error_rates')
    ctx.need(fn is not None, 'R15.3', site_of(ami, aci.node), 'calculate_total_error_rates not found')
    hooks = _HFrame()
    it = Interp(m, hooks)
    entry = DF('entry')

    class HIter(_HFrame):
        def iterate(self, it_, value, node):
            if isinstance(value, DF) and value.ops and value.ops[-1].startswith('iterrows'):
                return [(0, entry)]
            if isinstance(value, CT) and value.op == 'col' and isinstance(value.args[0], DF) and value.args[0].name == 'results':
                return [CT('col', entry, value.args[1])]       # element of a column = that column of the generic row
            return NOT_HANDLED

        def call(self, it_, func, args, kwargs, node, env):
            from ..dfdomain import RowCount, RowIdx
            if isinstance(func, Ext) and func.name == 'builtins.range' and len(args) == 1 and isinstance(args[0], RowCount):
                return [RowIdx(args[0].df)]                    # for i in range(len(results)): the generic row position
            if isinstance(func, Ext) and func.name == 'builtins.len' and len(args) == 1 and isinstance(args[0], DF):
                return RowCount(args[0])
            if isinstance(func, Ext) and func.name in ('numpy.array', 'numpy.asarray', 'builtins.list') and args \
                    and isinstance(args[0], list) and len(args[0]) == 1 and isinstance(args[0][0], CT):
                return args[0][0]                              # [f(x) for x in column] gathered into an array again
            if isinstance(func, Ext) and func.name in ('builtins.list', 'numpy.array', 'numpy.asarray') and args \
                    and isinstance(args[0], CT):
                return args[0]
            return super().call(it_, func, args, kwargs, node, env)

    def rowwise(t):
        """columns of the results frame read per row"""
        from ..dfdomain import RowIdx
        if isinstance(t, CT):
            if t.op == 'col' and isinstance(t.args[0], DF) and t.args[0].name == 'results':
                return CT('col', entry, t.args[1])
            # results[c].iloc[i] / .values[i] / .to_numpy()[i] at the generic row position i
            if t.op == 'item' and isinstance(t.args[1], RowIdx) and isinstance(t.args[0], CT):
                inner = t.args[0]
                if inner.op in ('iloc', 'values'):
                    inner = inner.args[0]
                if isinstance(inner, CT) and inner.op == 'col' and isinstance(inner.args[0], DF) \
                        and inner.args[0].name == 'results':
                    return CT('col', entry, inner.args[1])
            return CT(t.op, *[rowwise(a) for a in t.args])
        return t
    hooks = HIter()
    it = Interp(m, hooks)

    def thunk():
        o_ = Obj(aci, 'analysis')
        o_.fields['_results'] = DF('results')
        o_.fields['verbose'] = False
        it.call_closure(Closure(fn, ami, aci), [], {}, fn, self_obj=o_)
        return o_
    outs = guard('R15.3', ami, fn)(lambda: it.explore(thunk))
    se_calls = [c for c in hooks.calls if c[0] == 'get_standard_error']
    ctx.need(len(se_calls) == 1, 'R15.3', site_of(ami, fn), f'calculate_total_error_rates: standard error calls {hooks.calls!r}')
    est0, ntr = se_calls[0][1][:2]
    est, ntr = rowwise(est0), rowwise(ntr)
    syms = {}
    lhs = to_sympy(est, syms)
    mean_sym = syms.get(repr(CT('mean', CT('col', entry, 'success'))))
    if mean_sym is None:
        ok, detail = _vocab_verdict(est, {'success'}, {'mean'})
        if ok is None:
            raise AnalysisError('R15.3', site_of(ami, fn), f'estimator = {est!r}: form not recognised')
        ctx.ob('R15.3', site_of(ami, fn), 'p_est = 1 - mean(success)', False, f'estimator = {est!r}: {detail}',
               key='calculate_total_error_rates|estimator', facts=repr(est))
    else:
        todo.append((A.add(lhs, f'1 - {mean_sym}', sorted(syms.values())), site_of(ami, fn), 'p_est = 1 - mean(success)',
                     'calculate_total_error_rates|estimator', repr(est)))
    ctx.ob('R15.3', site_of(ami, fn), 'p_se = get_standard_error(p_est, n_trials of the same entry)',
           ntr == CT('col', entry, 'n_trials') and est0 is se_calls[0][1][0], f'second argument {ntr!r}',
           key='calculate_total_error_rates|se-args', facts=repr(ntr))

    # calculate_sector_thresholds
    def setup_sec(o, hooks):
        o.fields['_results'] = DF('results')
        o.fields['verbose'] = False
    fn, o, hooks = interp_method('calculate_sector_thresholds', setup_sec)
    res = o.fields['_results']
    st = stores_of(res)
    for sector in ('X', 'Z'):
        nt, nf, pe, ps = (f'n_trials_{sector}', f'n_fail_{sector}', f'p_est_{sector}', f'p_se_{sector}')
        ctx.need(all(k in st for k in (nt, nf, pe, ps)), 'R15.3', site_of(ami, fn),
                 f'sector columns for {sector} not all stored: {sorted(st)}')
        want_nt = CT('mul', *sorted((CT('col', res, 'k'), CT('apply', CT('col', res, 'codespace'), 'sum')), key=repr))
        ok = st[nt] == want_nt
        if not ok and _vocab_verdict(st[nt], {'k', 'codespace'}, {'sum'})[0] is None:
            raise AnalysisError('R15.3', site_of(ami, fn), f'{nt} = {st[nt]!r}: form not recognised')
        ctx.ob('R15.3', site_of(ami, fn), f'sector {sector}: n_trials = k * sum(codespace)', ok, f'{nt} = {st[nt]!r}',
               key=f'calculate_sector_thresholds|n_trials[{sector}]', facts=repr(st[nt]))
        want_pe = CT('div', CT('col', res, nf), CT('col', res, nt))
        ok = st[pe] == want_pe
        if not ok and _vocab_verdict(st[pe], {nf, nt}, set())[0] is None:
            raise AnalysisError('R15.3', site_of(ami, fn), f'{pe} = {st[pe]!r}: form not recognised')
        ctx.ob('R15.3', site_of(ami, fn), f'sector {sector}: p_est = n_fail / n_trials of that sector', ok, f'{pe} = {st[pe]!r}',
               key=f'calculate_sector_thresholds|p_est[{sector}]', facts=repr(st[pe]))
        v = st[nf]
        ok = isinstance(v, CT) and v.op == 'apply' and isinstance(v.args[0], CT) and v.args[0].op == 'cols' \
            and tuple(v.args[0].args[1]) == ('effective_error', 'codespace') \
            and 'count_fails(*row,sector)' in str(v.args[1]).replace(' ', '')
        ctx.ob('R15.3', site_of(ami, fn), f'sector {sector}: n_fail = count_fails(effective_error, codespace, sector) per row', ok,
               f'{nf} = {v!r}', key=f'calculate_sector_thresholds|n_fail[{sector}]', facts=repr(v))
        okse = st[ps] == CT('call:get_standard_error', CT('col', res, pe), CT('col', res, nt))
        ctx.ob('R15.3', site_of(ami, fn), f'sector {sector}: p_se = get_standard_error(p_est_S, n_trials_S)', okse,
               f'{ps} = {st[ps]!r}', key=f'calculate_sector_thresholds|p_se[{sector}]', facts=repr(st[ps]))
        thr = [c for c in hooks.calls if c[0] == 'calculate_thresholds' and c[2].get('sector') == sector]
        okt = len(thr) == 1 and thr[0][2].get('p_est') == pe and thr[0][2].get('n_trials_label') == nt \
            and thr[0][2].get('n_fail_label') == nf
        ctx.ob('R15.3', site_of(ami, fn), f'sector {sector}: thresholds computed from that sector\'s columns', okt,
               f'calculate_thresholds called with {[c[2] for c in thr]!r}', key=f'calculate_sector_thresholds|threshold-args[{sector}]')

    res_q = A.solve('R15.3')
    for (qi, site, what, key, src) in todo:
        ok, detail = verdict(res_q[qi])
        if ok is None:
            raise AnalysisError('R15.3', site, f'{what}: {detail}')
        ctx.ob('R15.3', site, what, ok, f'code computes {src}; {detail}', key=key, facts={'expr': src, 'how': detail})


_COUNT_CALLS = {'int', 'sum', 'len', 'np.sum', 'np.count_nonzero', 'numpy.sum', 'numpy.count_nonzero', 'np.logical_and',
                'np.logical_or', 'np.logical_not', 'np.invert', 'bool'}


def _counting_vocabulary(body) -> bool:
    for n in ast.walk(body):
        if isinstance(n, ast.Call):
            if ast.unparse(n.func) not in _COUNT_CALLS or n.keywords:
                return False
        elif not isinstance(n, (ast.Subscript, ast.Name, ast.Constant, ast.Attribute, ast.UnaryOp, ast.BinOp, ast.Invert, ast.Not,
                                ast.BitAnd, ast.BitOr, ast.BitXor, ast.Add, ast.Sub, ast.Load, ast.Return, ast.Expr, ast.Module)):
            return False
    return True


def normalise_counts(m, t):
    """column.apply(f) where f (a lambda or a function of the library) counts the True entries of a boolean array is the
    same column term as column.apply(sum): f built from elementwise boolean operators, sums/counts and +/- is linear in
    (number of True, number of False), so three mixes and the empty array determine it."""
    if not isinstance(t, CT):
        return t
    if t.op == 'apply' and isinstance(getattr(t, 'fn', None), Closure) and not getattr(t, 'kw', None) \
            and isinstance(t.args[0], CT) and t.args[0].op == 'col':
        f = t.fn.fn
        body = f.body if isinstance(f, ast.Lambda) else ast.Module(body=[x for x in f.body if not (
            isinstance(x, ast.Expr) and isinstance(x.value, ast.Constant))], type_ignores=[])
        if _counting_vocabulary(body):
            from .c03 import SymHooks
            ok = True
            for a, b in ((2, 3), (5, 1), (0, 4), (0, 0)):
                arr = np.array([True] * a + [False] * b, dtype=bool)
                it = Interp(m, SymHooks())
                try:
                    outs = it.explore(lambda: it.call(t.fn, [arr], {}, f, t.fn.env))
                except Exception:
                    ok = False
                    break
                if len(outs) != 1 or outs[0].kind != 'return' or not isinstance(outs[0].value, (int, np.integer)) \
                        or isinstance(outs[0].value, bool) or int(outs[0].value) != a:
                    ok = False
                    break
            if ok:
                return CT('apply', t.args[0], 'sum')
        return t
    return CT(t.op, *[normalise_counts(m, a) for a in t.args]) if t.op not in ('apply',) else t


def _rowwise_count(m, t, res):
    """n_fail written as a per-row function of the recorded arrays: results[[...]].apply(lambda row: ..., axis=1) or
    results[col].apply(lambda a: ...).  A function built only from elementwise boolean operators, sums/counts, len and
    +/- is linear in the numbers of trials of each kind (success; failed inside the code space; failed outside it -
    success implies codespace), so three independent mixes and the empty one determine it.  (True, '') if it counts
    exactly the failed trials, (False, why) if it counts something else, (None, '') if it is not of that form."""
    fn = getattr(t, 'fn', None)
    if not (isinstance(t, CT) and t.op == 'apply' and isinstance(fn, Closure) and isinstance(fn.fn, ast.Lambda)):
        return None, ''
    src = t.args[0]
    if isinstance(src, CT) and src.op == 'cols' and src.args[0] is res and getattr(t, 'kw', {}).get('axis') == 1:
        cols = list(src.args[1])
    elif isinstance(src, CT) and src.op == 'col' and src.args[0] is res:
        cols = None
    else:
        return None, ''
    if not (cols is None or set(cols) <= {'success', 'codespace'}):
        return None, ''
    allowed_calls = {'int', 'sum', 'len', 'np.sum', 'np.count_nonzero', 'numpy.sum', 'numpy.count_nonzero', 'np.logical_and',
                     'np.logical_or', 'np.logical_not', 'np.invert'}
    for n in ast.walk(fn.fn.body):
        if isinstance(n, ast.Call):
            if ast.unparse(n.func) not in allowed_calls or n.keywords:
                return None, ''
        elif not isinstance(n, (ast.Subscript, ast.Name, ast.Constant, ast.Attribute, ast.UnaryOp, ast.BinOp, ast.Invert, ast.Not,
                                ast.BitAnd, ast.BitOr, ast.BitXor, ast.Add, ast.Sub, ast.Load)):
            return None, ''
    from .c03 import SymHooks
    for a, b, c in ((2, 3, 5), (7, 1, 4), (1, 6, 2), (0, 0, 0)):
        succ = np.array([True] * a + [False] * (b + c), dtype=bool)
        cs = np.array([True] * (a + b) + [False] * c, dtype=bool)
        arg = {'success': succ, 'codespace': cs}
        arg = {k_: arg[k_] for k_ in cols} if cols is not None else arg[src.args[1]]
        it = Interp(m, SymHooks())
        try:
            outs = it.explore(lambda: it.call(fn, [arg], {}, fn.fn, fn.env))
        except Exception:
            return None, ''
        if len(outs) != 1 or outs[0].kind != 'return' or not isinstance(outs[0].value, (int, np.integer)):
            return None, ''
        got = int(outs[0].value)
        if got != b + c:
            return False, (f'on a row with {a} successful trials, {b} failed inside the code space and {c} failed outside it, '
                           f'the function gives {got}; n_trials - sum(success) is {b + c} (the estimator p_est = 1 - mean(success) '
                           f'and the standard errors count every trial that is not a success)')
    return True, ''


def _vocab_verdict(t, cols: set, funcs: set):
    """(False, why) if the term is built only from known arithmetic, columns and reductions (so it is a
    definite, different formula); (None, '') if it uses vocabulary the rule does not understand."""
    known_ops = {'add', 'sub', 'mul', 'div', 'pow', 'neg', 'col', 'apply', 'mean', 'sum', 'any', 'all', 'min', 'max'}

    def walk(x):
        if isinstance(x, CT):
            if x.op not in known_ops:
                return False
            if x.op == 'apply' and not (isinstance(x.args[1], str) and x.args[1] in {'sum', 'len', 'mean', 'any', 'all', 'min', 'max'}):
                return False
            return all(walk(a) for a in x.args if isinstance(a, CT))
        return True
    if walk(t):
        return False, 'a different formula over the same kind of columns/reductions'
    return None, ''


def _idents(src: str) -> Set[str]:
    import re
    return {t for t in re.findall(r'[A-Za-z_][A-Za-z_0-9]*', src) if t not in ('sqrt', 'log', 'exp', 'Abs', 'Pow', 'Rational')}


# ------------------------------------------------------------------- R15.4

SE_SOURCES = {('get_standard_error', None), ('get_word_error_rate', 1), ('get_single_qubit_error_rate', 1), ('nan', None)}


def _provenance(fn) -> Dict[str, Set[Tuple]]:
    """name -> set of (callee, component) sources, through unpacking, append and item stores."""
    prov: Dict[str, Set[Tuple]] = {}
    changed = True

    def src_of(e: ast.AST) -> Set[Tuple]:
        if isinstance(e, ast.Call):
            f = ast.unparse(e.func).split('.')[-1]
            # representation changes are transparent: list(x), np.array(x), x.tolist(), x.to_numpy(), x.copy() ...
            if f in ('list', 'tuple', 'array', 'asarray', 'Series') and e.args and not isinstance(e.args[0], ast.Constant):
                return src_of(e.args[0])
            if f in ('tolist', 'to_numpy', 'copy', 'astype', 'to_list') and isinstance(e.func, ast.Attribute):
                return src_of(e.func.value)
            return {(f, None)}
        if isinstance(e, (ast.ListComp, ast.GeneratorExp)):
            # [u for _, u in pairs]: component i of what the elements of `pairs` come from
            if isinstance(e.elt, ast.Name) and len(e.generators) == 1 and isinstance(e.generators[0].target, ast.Tuple) \
                    and isinstance(e.generators[0].iter, ast.Name):
                names = [x.id if isinstance(x, ast.Name) else None for x in e.generators[0].target.elts]
                if e.elt.id in names:
                    i = names.index(e.elt.id)
                    return {(c, i) if k is None else (c, k) for c, k in prov.get(e.generators[0].iter.id, set())}
            return src_of(e.elt)
        if isinstance(e, ast.Name):
            return set(prov.get(e.id, set()))
        if isinstance(e, ast.Attribute) and ast.unparse(e) in ('np.nan', 'numpy.nan'):
            return {('nan', None)}
        if isinstance(e, ast.BinOp):
            return {('expr', ast.unparse(e))}
        if isinstance(e, ast.Subscript):
            return src_of(e.value) if isinstance(e.value, ast.Name) else {('expr', ast.unparse(e))}
        return {('expr', ast.unparse(e))} if not isinstance(e, ast.Constant) else set()
    rounds = 0
    while changed and rounds < 8:
        rounds += 1
        changed = False
        for n in ast.walk(fn):
            upd: List[Tuple[str, Set[Tuple]]] = []
            if isinstance(n, ast.Assign) and len(n.targets) == 1:
                t = n.targets[0]
                if isinstance(t, ast.Name):
                    if isinstance(n.value, (ast.List, ast.Dict)) and not getattr(n.value, 'elts', getattr(n.value, 'keys', [])):
                        continue
                    if isinstance(n.value, ast.Call) and ast.unparse(n.value.func) in ('np.zeros', 'np.empty', 'list', 'dict'):
                        continue
                    upd.append((t.id, src_of(n.value)))
                elif isinstance(t, ast.Tuple) and isinstance(n.value, ast.Call):
                    f = ast.unparse(n.value.func).split('.')[-1]
                    for i, e in enumerate(t.elts):
                        if isinstance(e, ast.Name):
                            upd.append((e.id, {(f, i)}))
                        elif isinstance(e, ast.Subscript) and isinstance(e.value, ast.Name):
                            upd.append((e.value.id, {(f, i)}))     # a[i, j], b[i, j] = f(...)
                elif isinstance(t, ast.Subscript) and isinstance(t.value, ast.Name):
                    upd.append((t.value.id, src_of(n.value)))
            elif isinstance(n, ast.Call) and isinstance(n.func, ast.Attribute) and n.func.attr == 'append' \
                    and isinstance(n.func.value, ast.Name) and n.args:
                upd.append((n.func.value.id, src_of(n.args[0])))
            for name, s in upd:
                old = prov.get(name, set())
                new = old | s
                if new != old:
                    prov[name] = new
                    changed = True
    prov['__src_of__'] = src_of           # type: ignore
    return prov


def _expand_helper_sources(ami, srcs, depth=0):
    """(callee, component) of a helper function of panqec.analysis -> the sources of what that helper returns."""
    known = {c for c, _ in SE_SOURCES} | {'get_word_error_rate', 'get_single_qubit_error_rate', 'get_standard_error'}
    out = set()
    for c, k in srcs:
        g = ami.functions.get(c) if c not in known and c != 'expr' else None
        if g is None or depth > 2:
            out.add((c, k))
            continue
        p2 = _provenance(g)
        rets = [n.value for n in ast.walk(g) if isinstance(n, ast.Return) and n.value is not None]
        got = set()
        for r in rets:
            if isinstance(r, ast.Tuple) and isinstance(k, int) and k < len(r.elts):
                got |= p2['__src_of__'](r.elts[k])
            elif isinstance(r, ast.Tuple):
                for e_ in r.elts:
                    got |= p2['__src_of__'](e_)
            else:
                got |= p2['__src_of__'](r)
        out |= _expand_helper_sources(ami, got, depth + 1) if got else {(c, k)}
    return out


def _r154(ctx: Ctx) -> None:
    ami, aci = _analysis(ctx)
    n_cols = 0
    todo = ['calculate_total_error_rates', 'calculate_word_error_rates', 'calculate_single_qubit_error_rates',
            'calculate_sector_thresholds']
    # ... and the methods of the class they call through self (a step may live in a helper method)
    for mname in list(todo):
        f0 = aci.methods.get(mname)
        for c_ in ast.walk(f0) if f0 is not None else ():
            if isinstance(c_, ast.Call) and isinstance(c_.func, ast.Attribute) and isinstance(c_.func.value, ast.Name) \
                    and c_.func.value.id == 'self' and c_.func.attr in aci.methods and c_.func.attr not in todo \
                    and c_.func.attr not in ('log', 'calculate_thresholds'):
                todo.append(c_.func.attr)
    for mname in todo:
        fn = aci.methods.get(mname)
        ctx.need(fn is not None, 'R15.4', site_of(ami, aci.node), f'Analysis.{mname} not found')
        prov = _provenance(fn)
        aliases = {'self._results'} | {n.targets[0].id for n in ast.walk(fn) if isinstance(n, ast.Assign)
                                       and len(n.targets) == 1 and isinstance(n.targets[0], ast.Name)
                                       and ast.unparse(n.value) == 'self._results'}
        # local string labels  p_se_label = f'p_se_{sector}'
        labels = {}
        for n in ast.walk(fn):
            if isinstance(n, ast.Assign) and isinstance(n.targets[0], ast.Name) and isinstance(n.value, ast.JoinedStr):
                labels[n.targets[0].id] = ''.join(v.value if isinstance(v, ast.Constant) else '{}' for v in n.value.values)
        for n in ast.walk(fn):
            if isinstance(n, ast.Assign) and isinstance(n.targets[0], ast.Subscript) \
                    and ast.unparse(n.targets[0].value) in aliases:
                sl = n.targets[0].slice
                col = sl.value if isinstance(sl, ast.Constant) else labels.get(getattr(sl, 'id', ''), None)
                if not isinstance(col, str):
                    continue
                is_se = col.endswith('_se') or '_se_' in col
                is_est = col.endswith('_est') or '_est_' in col
                if not (is_se or is_est):
                    continue
                srcs = _expand_helper_sources(ami, prov['__src_of__'](n.value))
                n_cols += 1
                if not srcs:
                    raise AnalysisError('R15.4', site_of(ami, n), f"Analysis.{mname}: provenance of column '{col}' not followed "
                                                                  f"({norm_stmt(n)})")
                if is_se:
                    ok = bool(srcs) and srcs <= SE_SOURCES
                    ctx.ob('R15.4', site_of(ami, n), f"Analysis.{mname}: column '{col}' derives from the standard-error "
                                                     f"function", ok,
                           f"'{col}' is fed from {sorted(map(str, srcs))}; allowed sources: get_standard_error, the "
                           f"uncertainty component of get_word_error_rate / get_single_qubit_error_rate",
                           key=f'Analysis.{mname}|{col}', facts=sorted(map(str, srcs)))
                else:
                    bad = srcs & {('get_standard_error', None), ('get_word_error_rate', 1), ('get_single_qubit_error_rate', 1)}
                    ctx.ob('R15.4', site_of(ami, n), f"Analysis.{mname}: column '{col}' is an estimate, not an uncertainty",
                           not bad, f"'{col}' is fed from {sorted(map(str, srcs))}", key=f'Analysis.{mname}|{col}',
                           facts=sorted(map(str, srcs)))
    ctx.need(n_cols >= 8, 'R15.4', site_of(ami, aci.node), f'only {n_cols} estimate/uncertainty columns recognised')


# ------------------------------------------------------------------- R15.5

class _HNp(Hooks):
    def call(self, it, func, args, kwargs, node, env):
        return call_numpy(func, args, kwargs)

    def attr(self, it, obj, name, node):
        if isinstance(obj, Ext) and obj.name == 'numpy' and name == 'nan':
            return float('nan')
        return NOT_HANDLED


def _r155(ctx: Ctx) -> None:
    m = ctx.model
    ami, fn = m.func('panqec.analysis', 'count_fails')
    site = site_of(ami, fn)
    k, rows = 2, 4
    eff = np.empty((rows, 2 * k), dtype=object)
    for i in range(rows):
        for j in range(2 * k):
            eff[i, j] = Poly.var(f'e{i}_{j}')
    mask = np.array([True, False, True, True])
    for sector, cols in (('X', range(0, k)), ('Z', range(k, 2 * k))):
        it = Interp(m, _HNp())
        outs = guard('R15.5', ami, fn)(lambda: it.explore(lambda: it.call_closure(Closure(fn, ami), [eff, mask, sector], {}, fn)))
        ctx.need(len(outs) == 1 and outs[0].kind == 'return', 'R15.5', site, f'count_fails: {outs!r}')
        want = Poly.const(0)
        for i in range(rows):
            if mask[i]:
                for j in cols:
                    want = want + Poly.var(f'e{i}_{j}')
        got = outs[0].value
        ctx.ob('R15.5', site, f"count_fails(sector='{sector}') sums the {sector} block of the in-codespace rows", got == want,
               f'returns {got!r}, expected {want!r}', key=f'count_fails|{sector}', facts=repr(got))
    # get_single_qubit_error_rate on all two-bit patterns for k = 2
    ami, fn = m.func('panqec.analysis', 'get_single_qubit_error_rate')
    site = site_of(ami, fn)
    import itertools
    pats = [list(p) for p in itertools.product((0, 1), repeat=4)]          # rows [x0, x1, z0, z1]
    # the array as the pipeline hands it over: read_entry's dtype (uint8 today), and enough trials of every class
    # (> 255) for a count accumulated in that dtype to wrap
    rmi, rfn = m.func('panqec.analysis', 'read_entry')
    dts = [kw.value for n in ast.walk(rfn) if isinstance(n, ast.Call) and ast.unparse(n.func) in ('np.array', 'np.asarray')
           and n.args and 'effective_error' in ast.unparse(n.args[0]) for kw in n.keywords if kw.arg == 'dtype']
    dtype = np.int64
    if dts:
        nm = ast.unparse(dts[0]).split('.')[-1].strip('\'"')
        ctx.need(hasattr(np, nm), 'R15.5', site_of(rmi, rfn), f'read_entry: dtype {ast.unparse(dts[0])} of effective_error not recognised')
        dtype = getattr(np, nm)
    arr = np.array(pats * 80 + pats[:5], dtype=dtype)
    bits = {'X': (1, 0), 'Y': (1, 1), 'Z': (0, 1)}

    class H(_HNp):
        def call(self, it, func, args, kwargs, node, env):
            if isinstance(func, Closure) and getattr(func.fn, 'name', '') == 'get_standard_error':
                return ('se', args[0], args[1])
            return super().call(it, func, args, kwargs, node, env)
    bad = None
    for i in (0, 1):
        for et in (None, 'X', 'Y', 'Z'):
            it = Interp(m, H())
            outs = guard('R15.5', ami, fn)(lambda: it.explore(
                lambda: it.call_closure(Closure(fn, ami), [arr], {'i': i, 'error_type': et}, fn)))
            if len(outs) != 1 or outs[0].kind != 'return':
                bad = f'{outs!r}'
                break
            p_est, p_se = outs[0].value
            col = [(r[i], r[2 + i]) for r in arr.tolist()]
            if et is None:
                want = sum(1 for c in col if c != (0, 0)) / len(col)
            else:
                want = sum(1 for c in col if c == bits[et]) / len(col)
            if abs(float(p_est) - want) > 1e-12:
                bad = f'qubit {i}, type {et}: estimate {p_est}, expected {want} (X=(1,0), Y=(1,1), Z=(0,1) on columns i, k+i)'
                break
            if not (isinstance(p_se, tuple) and p_se[0] == 'se' and abs(float(p_se[1]) - want) < 1e-12 and p_se[2] == len(col)):
                bad = f'qubit {i}, type {et}: uncertainty {p_se!r} is not get_standard_error(estimate, n_results)'
                break
        if bad:
            break
    ctx.ob('R15.5', site, f'get_single_qubit_error_rate: patterns and columns for k=2 over all 16 row patterns x 80, dtype {np.dtype(dtype).name}', bad is None,
           bad or '', key='get_single_qubit_error_rate|patterns')
    # get_results_df: evaluate the p_x / p_z expressions on a concrete effective-error table (k = 2)
    bci = m.cls('BatchSimulation')
    fn = bci.methods['get_results_df']
    eff = [[1, 0, 0, 0], [0, 0, 0, 1], [0, 1, 1, 0], [0, 0, 0, 0], [1, 1, 0, 0]]       # rows [x0, x1, z0, z1]
    want = {'p_x': 3 / 5, 'p_z': 2 / 5}
    from ..interp import Env as _Env
    for key in ('p_x', 'p_z'):
        asg = [n for n in ast.walk(fn) if isinstance(n, ast.Assign) and isinstance(n.targets[0], ast.Subscript)
               and isinstance(n.targets[0].slice, ast.Constant) and n.targets[0].slice.value == key
               and ast.unparse(n.value) not in ('np.nan', 'numpy.nan')]
        ctx.need(len(asg) == 1, 'R15.5', site_of(bci.module, fn), f"get_results_df: assignment of '{key}' not found")
        it = Interp(m, _HNp())
        e = _Env(bci.module)
        sim = Obj(None, 'sim')
        sim.fields['results'] = {'effective_error': [list(r) for r in eff]}
        sim.fields['n_results'] = len(eff)
        e.vars.update({'sim': sim, 'n_logicals': 2, 'batch_result': {'k': 2}, 'self': Obj(bci, 'batch')})
        try:
            v = it.ev(asg[0].value, e)
        except Exception as ex:  # noqa
            raise AnalysisError('R15.5', site_of(bci.module, asg[0]), f"'{key}' expression not evaluable: {ex!r}")
        ok = isinstance(v, (float, np.floating)) and abs(float(v) - want[key]) < 1e-12
        if v is TOP:
            raise AnalysisError('R15.5', site_of(bci.module, asg[0]), f"'{key}' expression not evaluable")
        ctx.ob('R15.5', site_of(bci.module, asg[0]), f"get_results_df: {key} = fraction of trials with a "
                                                     f"{'X' if key == 'p_x' else 'Z'}-type logical effect (k=2 table)", ok,
               f'{key} = {v!r} on the test table, expected {want[key]} ({key[-1].upper()} effects are the '
               f'{"first" if key == "p_x" else "last"} k columns)', key=f'BatchSimulation.get_results_df|{key}', facts=repr(v))


# ------------------------------------------------------------------- R15.6

class _FSrc:
    """A byte/text source in the abstract file system of R15.6: ('file', path) | ('zip', archive, member) | ('gz', src)."""

    def __init__(self, src, kind='handle'):
        self.src, self.kind = src, kind

    def __repr__(self):
        return f'{self.kind}{self.src!r}'

    def pqv_getattr(self, name):
        me = self

        class _C:
            def __init__(s_, f):
                s_.f = f

            def pqv_call(s_, *a, **k):
                return s_.f(*a, **k)
        if self.kind == 'zip' and name == 'open':
            return _C(lambda member, *a, **k: _FSrc(('zip', me.src, member)))
        if self.kind == 'zip' and name in ('close',):
            return _C(lambda *a, **k: None)
        if self.kind == 'handle' and name == 'read':
            return _C(lambda *a, **k: _FSrc(me.src, 'bytes'))
        if self.kind == 'bytes' and name == 'decode':
            return _C(lambda *a, **k: _FSrc(me.src, 'text'))
        if name in ('close', '__exit__', '__enter__'):
            return _C(lambda *a, **k: me)
        return TOP


class _Hash:
    """A hashlib object evaluated for real on concrete bytes."""

    def __init__(self, h):
        self.h = h

    def pqv_getattr(self, name):
        h = self.h

        class _C:
            def pqv_call(_s, *a, **k):
                if name == 'update':
                    if not all(isinstance(x, (bytes, bytearray)) for x in a):
                        raise AnalysisError('R15.6', 'read_files', 'hash updated with an untracked value')
                    h.update(*a)
                    return None
                if name in ('digest', 'hexdigest'):
                    return getattr(h, name)()
                if name == 'copy':
                    return _Hash(h.copy())
                return TOP
        return _C()


def _r156_read_files(ctx: Ctx, m, ami, aci, fn, site) -> None:
    """read_files is interpreted on four file locations (two members of a zip archive, one of them gzipped; a plain and
    a gzipped file): every location yields the entries read_entry makes of the JSON decoded from THAT file, once, in
    order, labelled with its nominal path."""
    frames = []

    class H(Hooks):
        def call(self, it, func, args, kwargs, node, env):
            if isinstance(func, Ext):
                last = func.name.split('.')[-1]
                if last == 'ZipFile' and args:
                    return _FSrc(args[0], 'zip')
                if func.name == 'gzip.open' and args and isinstance(args[0], _FSrc):
                    return _FSrc(('gz', args[0].src))
                if func.name == 'gzip.open' and args and isinstance(args[0], str):
                    return _FSrc(('gz', ('file', args[0])))
                if func.name == 'builtins.open' and args and isinstance(args[0], str):
                    return _FSrc(('file', args[0]))
                if func.name in ('json.load', 'json.loads') and args and isinstance(args[0], _FSrc):
                    return Tagged('data', args[0].src)
                if func.name == 'os.path.abspath' and args and isinstance(args[0], str):
                    return args[0] if args[0].startswith('ABS/') else 'ABS/' + args[0]
                if func.name == 'os.path.join' and all(isinstance(a, str) for a in args):
                    return '/'.join(args)
                if last == 'DataFrame':
                    frames.append(list(args[0]) if args and isinstance(args[0], list) else args[0] if args else None)
                    return DF('raw')
                if func.name == 'builtins.print':
                    return None
            if isinstance(func, Closure) and getattr(func.fn, 'name', '') == 'load_json' and args:
                p_ = args[0]
                gz = isinstance(p_, str) and p_.endswith('.gz')
                return Tagged('data', ('gz', ('file', p_)) if gz else ('file', p_))
            if isinstance(func, Closure) and getattr(func.fn, 'name', '') == 'read_entry':
                b = dict(zip(('data', 'results_file'), args))
                b.update(kwargs)
                d_ = b.get('data')
                # one concrete record per file, with the SAME content in every file (distinct runs of one parameter set
                # with identical outcomes, e.g. short runs far below threshold): what is kept may not depend on content
                return [{'code': {'name': 'C', 'parameters': {'L_x': 3}}, 'error_model': {'name': 'E'},
                         'decoder': {'name': 'D'}, 'error_rate': 0.1, 'method': {'name': 'direct'},
                         'effective_error': np.zeros((2, 2), dtype=np.uint8), 'codespace': np.ones(2, dtype=bool),
                         'success': np.ones(2, dtype=bool), 'n_trials': 2, 'results_file': b.get('results_file'),
                         '_src': d_.args[0] if isinstance(d_, Tagged) and d_.tag == 'data' else d_}]
            if isinstance(func, Ext) and func.name == 'json.dumps' and args and 'TOP' not in repr(args[0]):
                import json as _json
                try:
                    return _json.dumps(args[0], **{k_: v_ for k_, v_ in kwargs.items() if k_ in ('sort_keys', 'indent')})
                except (TypeError, ValueError):
                    return TOP
            if isinstance(func, Ext) and func.name.startswith('hashlib.') and all(isinstance(a_, bytes) for a_ in args):
                import hashlib as _hl
                return _Hash(getattr(_hl, func.name.split('.')[-1])(*args))
            if isinstance(func, Ext) and func.name.startswith('numpy.'):
                r_ = call_numpy(func, args, kwargs)
                return TOP if r_ is NOT_HANDLED else r_
            return NOT_HANDLED
    locations = [('Z.zip', 'a.json.gz'), ('Z.zip', 'b.json'), 'c.json', 'd.json.gz']
    it = Interp(m, H())

    def thunk():
        frames.clear()
        o = Obj(aci, 'analysis')
        o.fields.update({'verbose': False, 'file_locations': list(locations)})
        it.call_closure(Closure(fn, ami, aci), [], {}, fn, self_obj=o)
        return list(frames)
    outs = guard('R15.6', ami, fn)(lambda: it.explore(thunk))
    ctx.need(len(outs) == 1 and outs[0].kind == 'return' and len(outs[0].value) == 1 and isinstance(outs[0].value[0], list),
             'R15.6', site, f'read_files: not evaluated on the abstract file locations ({outs!r})')
    got = outs[0].value[0]
    if 'TOP' in repr(got):
        raise AnalysisError('R15.6', site, f'read_files: entries not tracked ({got!r})')

    def norm(src):
        if isinstance(src, tuple) and src and src[0] == 'file':
            return ('file', src[1][4:] if isinstance(src[1], str) and src[1].startswith('ABS/') else src[1])
        if isinstance(src, tuple) and src and src[0] == 'gz':
            return ('gz', norm(src[1]))
        if isinstance(src, tuple) and src and src[0] == 'zip':
            return ('zip',) + tuple(x[4:] if isinstance(x, str) and x.startswith('ABS/') else x for x in src[1:])
        return src
    want = [(('gz', ('zip', 'Z.zip', 'a.json.gz')), 'ABS/Z.zip/a.json.gz'), (('zip', 'Z.zip', 'b.json'), 'ABS/Z.zip/b.json'),
            (('file', 'c.json'), 'ABS/c.json'), (('gz', ('file', 'd.json.gz')), 'ABS/d.json.gz')]
    have = [(norm(e.get('_src')), e.get('results_file')) if isinstance(e, dict) else (repr(e), None) for e in got]
    ok = have == want
    ctx.ob('R15.6', site, 'read_files: every file, whatever its container, goes through read_entry exactly once', ok,
           f'entries come from {have!r}; expected one per location, in order, decoded from that file and labelled with its '
           f'nominal path: {want!r}', key='read_files|read_entry', facts=[repr(h) for h in have])


def _r156(ctx: Ctx) -> None:
    m = ctx.model
    ami, aci = _analysis(ctx)
    fn = aci.methods['read_files']
    site = site_of(ami, fn)
    _r156_read_files(ctx, m, ami, aci, fn, site)
    # read_entry on nested (merged) lists
    rmi, rfn = m.func('panqec.analysis', 'read_entry')

    def rec(i, n, ee=(0, 1), success=True, codespace=True):
        return {'inputs': {'code': {'name': 'C', 'i': i}, 'error_rate': 0.1 * i},
                'results': {'effective_error': [list(ee)] * n, 'success': [success] * n, 'codespace': [codespace] * n,
                            'n_runs': n, 'wall_time': 1.0}}
    # a merged file of merged files: lists nested three deep next to plain records.  Whether a record is kept does not
    # depend on what its trials recorded: chunks without a single logical error (the usual case far below threshold),
    # chunks where every trial failed, chunks that left the code space with a trivial effective error
    data = [[[rec(1, 2, (0, 0))], rec(2, 3)], [[[rec(3, 1, (1, 1), False)]]], rec(4, 4, (0, 0), False, False)]
    it = Interp(m, _HNp())
    outs = guard('R15.6', rmi, rfn)(lambda: it.explore(lambda: it.call_closure(Closure(rfn, rmi), [data], {'results_file': 'F'}, rfn)))
    bad = None
    if len(outs) != 1 or outs[0].kind != 'return' or not isinstance(outs[0].value, list):
        bad = f'{outs!r}'
    else:
        es = outs[0].value
        if [e.get('n_trials') for e in es] != [2, 3, 1, 4]:
            bad = f'entries/n_trials {[e.get("n_trials") for e in es]}, expected [2, 3, 1, 4]'
        elif any(e.get('results_file') != 'F' for e in es):
            bad = 'results_file not attached'
        elif [e['code']['i'] for e in es] != [1, 2, 3, 4]:
            bad = 'inputs not carried over in order'
    ctx.ob('R15.6', site_of(rmi, rfn), 'read_entry flattens merged lists of any nesting depth, one entry per record', bad is None, bad or '',
           key='read_entry|nested')
    cmi, mfn = m.func('panqec.cli', 'merge_results')
    saved = []

    class HM(Hooks):
        def call(self, it_, func, args, kwargs, node, env):
            if isinstance(func, Closure) and getattr(func.fn, 'name', '') == 'load_json':
                return ('loaded', args[0])
            if isinstance(func, Closure) and getattr(func.fn, 'name', '') == 'save_json':
                saved.append((args, kwargs))
                return None
            if isinstance(func, Ext) and func.name == 'builtins.print':
                return None
            return NOT_HANDLED
    it = Interp(m, HM())
    outs = guard('R15.6', cmi, mfn)(lambda: it.explore(
        lambda: (saved.clear(), it.call_closure(Closure(mfn, cmi), [('a.json', 'b.json.gz', 'c.json')], {'output_file': 'out.json.gz'}, mfn),
                 list(saved))[2]))
    okm = len(outs) == 1 and outs[0].kind == 'return' and len(outs[0].value) == 1
    if okm:
        a, kw = outs[0].value[0]
        b = dict(zip(('data', 'file'), a))
        b.update(kw)
        okm = b.get('data') == [('loaded', 'a.json'), ('loaded', 'b.json.gz'), ('loaded', 'c.json')] and b.get('file') == 'out.json.gz'
    ctx.ob('R15.6', site_of(cmi, mfn), 'merge_results saves the list of all loaded files, whole, to the output file', okm,
           f'{outs!r}', key='merge_results|form')


class _PathObj:
    def __init__(self, p, files):
        self.p, self.files = p, files

    def pqv_getattr(self, name):
        if name == 'rglob':
            return _CallP(lambda pat: [f'{self.p}/{f}' for f in self.files.get(self.p, []) if _glob_match(f, pat)])
        return TOP


class _CallP:
    def __init__(self, f):
        self.f = f

    def pqv_call(self, *a, **k):
        return self.f(*a, **k)


def _glob_match(name, pat):
    import fnmatch
    return fnmatch.fnmatch(name, pat)


class _ZipObj:
    def __init__(self, members):
        self.members = members

    def pqv_getattr(self, name):
        if name == 'filelist':
            return [_ZipMember(x) for x in self.members]
        return TOP


class _ZipMember:
    def __init__(self, fn):
        self.fn = fn

    def pqv_getattr(self, name):
        return self.fn if name == 'filename' else TOP


def _r157(ctx: Ctx) -> None:
    """find_files lists every results file exactly once, whatever mixture of paths is supplied."""
    m = ctx.model
    ami, aci = _analysis(ctx)
    fn = aci.methods.get('find_files')
    ctx.need(fn is not None, 'R15.6', site_of(ami, aci.node), 'Analysis.find_files not found')
    dirs = {'dirA': ['a1.json', 'a2.json.gz', 'sub/a3.json', 'arch.zip'], 'dirB': ['b1.json.gz']}
    zips = {'dirA/arch.zip': ['z1.json', 'z2.json.gz', 'readme.txt'], 'solo.zip': ['s1.json']}
    paths = ['dirA', 'solo.zip', 'dirB', 'single.json.gz', 'merged.json']

    class H(Hooks):
        def call(self, it, func, args, kwargs, node, env):
            if isinstance(func, Ext):
                if func.name == 'os.path.isdir':
                    return args[0] in dirs
                if func.name in ('pathlib.Path',):
                    return _PathObj(args[0], dirs)
                if func.name in ('zipfile.ZipFile',):
                    return _ZipObj(zips.get(str(args[0]), []))
            from ..interp import BoundMethod
            if isinstance(func, BoundMethod) and func.closure.fn.name == 'log':
                return None
            return NOT_HANDLED
    it = Interp(m, H())

    def thunk():
        o = Obj(aci, 'analysis')
        o.fields['results_paths'] = list(paths)
        o.fields['verbose'] = False
        it.call_closure(Closure(fn, ami, aci), [], {}, fn, self_obj=o)
        return o.fields.get('file_locations')
    outs = guard('R15.6', ami, fn)(lambda: it.explore(thunk))
    ctx.need(len(outs) == 1 and outs[0].kind == 'return' and isinstance(outs[0].value, list), 'R15.6', site_of(ami, fn),
             f'find_files: {outs!r}')
    got = [x if isinstance(x, str) else (tuple(x) if isinstance(x, (tuple, list)) else repr(x)) for x in outs[0].value]
    want = ['dirA/a1.json', 'dirA/a2.json.gz', 'dirA/sub/a3.json', ('dirA/arch.zip', 'z1.json'), ('dirA/arch.zip', 'z2.json.gz'),
            ('solo.zip', 's1.json'), 'dirB/b1.json.gz', 'single.json.gz', 'merged.json']
    dup = sorted({repr(x) for x in got if got.count(x) > 1})
    ok = not dup and sorted(map(repr, got)) == sorted(map(repr, want))
    ctx.ob('R15.6', site_of(ami, fn), 'find_files lists every results file of a mixed list of paths exactly once', ok,
           f'duplicates: {dup}; missing: {sorted(set(map(repr, want)) - set(map(repr, got)))}; unexpected: '
           f'{sorted(set(map(repr, got)) - set(map(repr, want)))} - pooled counts would change with the way files are passed',
           key='find_files|once', facts=[repr(x) for x in got])


def run(ctx: Ctx) -> None:
    ctx.rule('R15.1', 'per-trial columns written = columns concatenated; additive columns summed', floor=4)
    ctx.rule('R15.2', 'group-by key = full identity (code, noise, decoder, method strings, error rate), sorted', floor=6)
    ctx.rule('R15.3', 'estimator / standard error / word error rate formulas (sympy normal forms)', floor=11)
    ctx.rule('R15.4', 'every *_se column derives from the standard-error function, estimates do not', floor=8)
    ctx.rule('R15.5', 'sector counts use the codespace mask and the [X|Z] effect layout', floor=5)
    ctx.rule('R15.6', 'all containers end in read_entry; merged lists are flattened', floor=4)
    ctx.trust('pandas groupby/sum/aggregate/first semantics; sympy simplification (python3-vt)')
    with ctx.part():
        _r151_152(ctx)
    with ctx.part():
        _r153(ctx)
    with ctx.part():
        _r154(ctx)
    with ctx.part():
        _r155(ctx)
    with ctx.part():
        _r156(ctx)
    with ctx.part():
        _r157(ctx)
    from .c06 import class_mutable_rule
    with ctx.part():
        class_mutable_rule(ctx, 'R15.6', ['Analysis'])
    with ctx.part():
        # what an analysis reports is computed from the files it is given: nothing kept at module level between two
        # analyses (a table of parsed files, a default argument), except a memo whose key determines the value
        from .c06 import global_state_rule
        aci_ = ctx.model.cls('Analysis')
        global_state_rule(ctx, 'R15.6', list(aci_.methods.values()), 'results are analysed')
