"""C16 - threshold estimation recovers a planted threshold (structural clauses only)."""
from __future__ import annotations

import ast
import math

import numpy as np

from ..alg import Algebra, to_sympy_src, verdict
from ..interp import (NOT_HANDLED, TOP, BoundMethod, Closure, Ext, Hooks, Interp, Obj, guard, site_of)
from ..model import AnalysisError, norm_stmt
from ..report import Ctx
from ..symnp import call_numpy
from .c15 import _single_return_expr

EXPLANATION = (
    'Partial: recovery of a planted threshold is numerical (curve_fit convergence, tolerance, interval coverage) '
    'and is NOT decided. Decided: R16.1 the reported threshold and its interval are the median and the q / 1-q '
    'quantiles (q <= 1/2) of one and the same bootstrap column, and p_th_fss_se its standard deviation. R16.2 '
    'order independence by construction: the aggregated rows come from a sorted group-by, parameter sets are '
    'sorted, the crossover table is index-sorted before the order heuristic, get_code_df sorts by n, the bootstrap '
    'generator is seeded with a constant (the bootstrap consumes random numbers in row order). R16.3 '
    'get_fit_status is evaluated on a valid entry and on single-fault perturbations: success exactly for the valid '
    'entry, in particular a threshold outside [p_left, p_right] or a NaN is rejected; fit_found is status == '
    '"success". R16.4 (sympy) fit_function and utils.quadratic o utils.rescale_prob are the documented ansatz '
    'A + B x + C x^2, x = (p - p_th) d^nu, with parameters unpacked in the order (p_th, nu, A, B, C) the fit returns; '
    'curve_fit is called with fit_function on (p, d) and the rescaled column uses the fitted parameters.'
)


def _r161(ctx: Ctx) -> None:
    m = ctx.model
    ami = m.module('panqec.analysis')
    aci = m.cls('Analysis')
    fn = aci.methods['calculate_thresholds']

    def _has_summary(f):
        return any(isinstance(n, ast.Dict) and any(isinstance(k, ast.Constant) and k.value == 'p_th_fss' for k in n.keys)
                   for n in ast.walk(f))
    if not _has_summary(fn):
        # the loop body may live in helper methods called through self (one level)
        for c_ in ast.walk(fn):
            if isinstance(c_, ast.Call) and isinstance(c_.func, ast.Attribute) and isinstance(c_.func.value, ast.Name) \
                    and c_.func.value.id == 'self' and c_.func.attr in aci.methods and _has_summary(aci.methods[c_.func.attr]):
                fn = aci.methods[c_.func.attr]
                break
    site = site_of(ami, fn)
    found = {}
    for n in ast.walk(fn):
        if isinstance(n, ast.Dict):
            for k, v in zip(n.keys, n.values):
                if isinstance(k, ast.Constant) and k.value in ('p_th_fss', 'p_th_fss_left', 'p_th_fss_right', 'p_th_fss_se'):
                    found[k.value] = v
    ctx.need(set(found) == {'p_th_fss', 'p_th_fss_left', 'p_th_fss_right', 'p_th_fss_se'}, 'R16.1', site,
             f'threshold summary keys not found: {sorted(found)}')
    med = found['p_th_fss']
    ok_med = isinstance(med, ast.Call) and ast.unparse(med.func) in ('np.median', 'numpy.median') and len(med.args) == 1
    col = ast.unparse(med.args[0]) if ok_med else None
    ctx.ob('R16.1', site_of(ami, med), 'p_th_fss is the median of the bootstrap thresholds', ok_med and col == 'params_bs[:, 0]',
           f'p_th_fss = {ast.unparse(med)}', key='calculate_thresholds|median', facts=ast.unparse(med))
    qs = {}
    for key in ('p_th_fss_left', 'p_th_fss_right'):
        v = found[key]
        okq = isinstance(v, ast.Call) and ast.unparse(v.func) in ('np.quantile', 'numpy.quantile') and len(v.args) == 2 \
            and ast.unparse(v.args[0]) == col and isinstance(v.args[1], ast.Constant)
        qs[key] = v.args[1].value if okq else None
        ctx.ob('R16.1', site_of(ami, v), f'{key} is a quantile of the same bootstrap column', okq,
               f'{key} = {ast.unparse(v)}; the threshold column is {col}', key=f'calculate_thresholds|{key}',
               facts=ast.unparse(v))
    ql, qr = qs['p_th_fss_left'], qs['p_th_fss_right']
    ok = ql is not None and qr is not None and 0 < ql <= 0.5 <= qr < 1 and abs(ql + qr - 1) < 1e-12
    ctx.ob('R16.1', site, 'interval quantiles are q and 1-q with q <= 1/2 (the median lies inside its own interval)', ok,
           f'quantiles {ql}, {qr}', key='calculate_thresholds|quantile-pair', facts=[ql, qr])
    se = found['p_th_fss_se']
    ctx.ob('R16.1', site_of(ami, se), 'p_th_fss_se is the standard deviation of the same column',
           ast.unparse(se).replace(' ', '') == f'{col}.std()'.replace(' ', ''), f'p_th_fss_se = {ast.unparse(se)}',
           key='calculate_thresholds|se')
    # fit_found / fit_status: evaluate the dictionary entries
    ff = None
    for n in ast.walk(fn):
        if isinstance(n, ast.Dict):
            for k, v in zip(n.keys, n.values):
                if isinstance(k, ast.Constant) and k.value == 'fit_found':
                    ff = (n, v)
    ctx.need(ff is not None, 'R16.3', site, "'fit_found' entry not found")
    names = {x.id for x in ast.walk(ff[1]) if isinstance(x, ast.Name)}
    ctx.need(len(names) == 1, 'R16.3', site_of(ami, ff[1]), f'fit_found depends on {sorted(names)}')
    var = names.pop()
    from ..interp import Env as _Env
    it = Interp(m)
    vals = {}
    for status in ('success', 'Curve fitting failed.', ''):
        e = _Env(ami)
        e.vars[var] = status
        vals[status] = it.ev(ff[1], e)
    ok = vals == {'success': True, 'Curve fitting failed.': False, '': False}
    ctx.ob('R16.3', site_of(ami, ff[1]), "fit_found is true exactly when the status is 'success'", ok,
           f'fit_found as a function of the status: {vals}', key='calculate_thresholds|fit_found', facts=vals)
    defs = [n for n in ast.walk(fn) if isinstance(n, ast.Assign) and isinstance(n.targets[0], ast.Name)
            and n.targets[0].id == var]
    ok = len(defs) == 1 and isinstance(defs[0].value, ast.Call) and isinstance(defs[0].value.func, ast.Attribute) \
        and defs[0].value.func.attr == 'get_fit_status' and len(defs[0].value.args) >= 1 \
        and ast.unparse(defs[0].value.args[0]) == 'entry'
    if ok:
        # further arguments of the call are part of the decision: resolve them to constants for R16.3's table
        call = defs[0].value
        extra = {}
        consts = {}
        for n in ast.walk(fn):
            if isinstance(n, ast.Assign) and len(n.targets) == 1 and isinstance(n.targets[0], ast.Name):
                consts.setdefault(n.targets[0].id, []).append(n.value)
        a_ = fn.args
        pos = a_.posonlyargs + a_.args
        for prm, dflt in list(zip(pos[len(pos) - len(a_.defaults):], a_.defaults)) + \
                [(prm, d) for prm, d in zip(a_.kwonlyargs, a_.kw_defaults) if d is not None]:
            consts.setdefault(prm.arg, []).append(dflt)          # the documented default of the caller's own parameter
        mfn = aci.methods['get_fit_status']
        pnames = [a.arg for a in mfn.args.args][1:]
        given = list(zip(pnames[1:], call.args[1:])) + [(k.arg, k.value) for k in call.keywords]
        for name, v in given:
            if isinstance(v, ast.Name) and len(consts.get(v.id, ())) == 1:
                v = consts[v.id][0]
            try:
                extra[name] = ast.literal_eval(v)
            except (ValueError, SyntaxError):
                raise AnalysisError('R16.3', site_of(ami, call), f'get_fit_status argument {name}={ast.unparse(v)} is not a '
                                                                  f'constant the analysis can evaluate')
        ctx.extra['fit_status_call_kwargs'] = extra
    ctx.ob('R16.3', site_of(ami, defs[0]) if defs else site, 'the status comes from get_fit_status(entry) of the same entry', ok,
           f'{[norm_stmt(d) for d in defs]}', key='calculate_thresholds|fit_status')


def _has_sort(expr: ast.AST) -> bool:
    for n in ast.walk(expr):
        if isinstance(n, ast.Call):
            f = n.func
            if isinstance(f, ast.Attribute) and f.attr in ('sort_values', 'sort_index', 'sort'):
                return True
            if isinstance(f, ast.Name) and f.id == 'sorted':
                return True
            if isinstance(f, ast.Attribute) and f.attr == 'sort' and ast.unparse(f.value) in ('np', 'numpy'):
                return True
    return False


def _r162(ctx: Ctx) -> None:
    m = ctx.model
    ami = m.module('panqec.analysis')
    aci = m.cls('Analysis')
    fn = aci.methods['calculate_thresholds']
    # the collection the fitting loop iterates over must be sorted where it is built (or re-bound sorted)
    def _fits(c):
        if isinstance(c, ast.Call) and isinstance(c.func, ast.Name) and c.func.id == 'fit_fss_params':
            return True
        # ... or a helper method called through self whose body makes the fit
        return isinstance(c, ast.Call) and isinstance(c.func, ast.Attribute) and isinstance(c.func.value, ast.Name) \
            and c.func.value.id == 'self' and c.func.attr in aci.methods and any(
                isinstance(c2, ast.Call) and isinstance(c2.func, ast.Name) and c2.func.id == 'fit_fss_params'
                for c2 in ast.walk(aci.methods[c.func.attr]))
    loops = [n for n in ast.walk(fn) if isinstance(n, ast.For) and any(_fits(c) for c in ast.walk(n))]
    ctx.need(len(loops) == 1 and isinstance(loops[0].iter, ast.Name), 'R16.2', site_of(ami, fn), 'fitting loop not found')
    coll = loops[0].iter.id
    defs = [n for n in ast.walk(fn) if isinstance(n, (ast.Assign, ast.AnnAssign)) and any(
        isinstance(t, ast.Name) and t.id == coll for t in (n.targets if isinstance(n, ast.Assign) else [n.target]))]
    first = min(defs, key=lambda n: n.lineno) if defs else None
    # later re-bindings may only filter the (already sorted) collection
    def _sorted_value(v):
        if _has_sort(v):
            return True
        # built by a helper method: what the helper returns is sorted where it is built, later statements only filter it
        if isinstance(v, ast.Call) and isinstance(v.func, ast.Attribute) and isinstance(v.func.value, ast.Name) \
                and v.func.value.id == 'self' and v.func.attr in aci.methods:
            h = aci.methods[v.func.attr]
            rets = [r.value for r in ast.walk(h) if isinstance(r, ast.Return) and r.value is not None]
            if len(rets) != 1:
                return False
            r = rets[0]
            if _has_sort(r):
                return True
            # the returned expression is (a filter of) a local that is sorted where it is first built and only filtered after
            for nm in sorted({x.id for x in ast.walk(r) if isinstance(x, ast.Name)}):
                hd = [n for n in ast.walk(h) if isinstance(n, (ast.Assign, ast.AnnAssign)) and any(
                    isinstance(t, ast.Name) and t.id == nm for t in (n.targets if isinstance(n, ast.Assign) else [n.target]))
                    and n.value is not None]
                f0 = min(hd, key=lambda n: n.lineno) if hd else None
                if f0 is not None and _has_sort(f0.value) and all(
                        d is f0 or any(isinstance(x, ast.Name) and x.id == nm for x in ast.walk(d.value)) for d in hd):
                    return True
        return False
    ok = first is not None and _sorted_value(first.value) and all(
        d is first or any(isinstance(x, ast.Name) and x.id == coll for x in ast.walk(d.value)) for d in defs)
    ctx.ob('R16.2', site_of(ami, first) if first is not None else site_of(ami, fn),
           'parameter sets are sorted before the fitting loop', ok,
           f'`{coll}` is built without a sort: thresholds (bootstrap random stream) depend on file/row order',
           key='calculate_thresholds|sorted-sets')
    fn = aci.methods['aggregate']
    from .c15 import groupby_calls
    gb = [c_ for _, c_ in groupby_calls(ami, fn)]
    ctx.need(gb, 'R16.2', site_of(ami, fn), 'aggregate: no groupby call found (in aggregate or a helper it calls)')
    nosort = any(k.arg == 'sort' and isinstance(k.value, ast.Constant) and k.value.value is False for g in gb for k in g.keywords)
    ctx.ob('R16.2', site_of(ami, fn), 'aggregated rows come from a sorted group-by', not nosort,
           'groupby(sort=False) keeps file order', key='aggregate|sorted-groupby')
    _, fn = m.func('panqec.analysis', 'get_p_th_nearest')
    # the table whose rows are argsort-ed must have been sorted by index before
    arg = [n for n in ast.walk(fn) if isinstance(n, ast.Call) and ast.unparse(n.func).endswith('argsort')]
    ctx.need(len(arg) >= 1, 'R16.2', site_of(ami, fn), 'order-change heuristic (argsort) not found')
    tab = [x.id for x in ast.walk(arg[0]) if isinstance(x, ast.Name) and x.id not in ('np', 'numpy')]
    ctx.need(len(tab) >= 1, 'R16.2', site_of(ami, arg[0]), 'argsort operand not recognised')
    tname = tab[0]
    sorts = [n for n in ast.walk(fn) if isinstance(n, ast.Assign) and any(isinstance(t, ast.Name) and t.id == tname for t in n.targets)
             and _has_sort(n.value) and n.lineno < arg[0].lineno]
    inplace = [n for n in ast.walk(fn) if isinstance(n, ast.Call) and isinstance(n.func, ast.Attribute)
               and n.func.attr in ('sort_index', 'sort_values') and ast.unparse(n.func.value) == tname
               and any(k.arg == 'inplace' for k in n.keywords) and n.lineno < arg[0].lineno]
    ctx.ob('R16.2', site_of(ami, fn), 'crossover table is sorted before the order-change heuristic', bool(sorts or inplace),
           f'`{tname}` reaches argsort in insertion (file) order', key='get_p_th_nearest|sort_index')
    _, fn = m.func('panqec.analysis', 'get_code_df')
    rets = [n for n in ast.walk(fn) if isinstance(n, ast.Return)]
    sorted_somewhere = any(_has_sort(n) for n in ast.walk(fn) if isinstance(n, ast.Assign))
    ctx.ob('R16.2', site_of(ami, fn), 'code table is sorted', sorted_somewhere, 'no sort in get_code_df', key='get_code_df|sorted')
    _, fn = m.func('panqec.analysis', 'fit_fss_params')
    gens = [n for n in ast.walk(fn) if isinstance(n, ast.Call) and ast.unparse(n.func).endswith('default_rng')]
    ok = len(gens) >= 1 and all(len(g.args) + len(g.keywords) == 1 and isinstance((g.args or [g.keywords[0].value])[0], ast.Constant)
                                and isinstance((g.args or [g.keywords[0].value])[0].value, int) for g in gens)
    ctx.ob('R16.2', site_of(ami, fn), 'bootstrap generator seeded with a constant', ok,
           f'{[ast.unparse(g) for g in gens]}', key='fit_fss_params|seed')
    glob = [n for n in ast.walk(fn) if isinstance(n, ast.Call) and ast.unparse(n.func).startswith(('np.random.', 'numpy.random.', 'random.'))
            and not ast.unparse(n.func).endswith('default_rng')]
    ctx.ob('R16.2', site_of(ami, fn), 'bootstrap draws only from its own generator', not glob,
           f'{[ast.unparse(g) for g in glob]}', key='fit_fss_params|no-global-rng')


class _HStatus(Hooks):
    def call(self, it, func, args, kwargs, node, env):
        if isinstance(func, Ext):
            n = func.name
            if n in ('pandas.isna', 'pandas.isnull'):
                a = args[0]
                if isinstance(a, (list, tuple, np.ndarray)):
                    return np.array([isinstance(x, float) and math.isnan(x) for x in np.asarray(a, dtype=float).ravel()])
                return isinstance(a, float) and math.isnan(a)
        return call_numpy(func, args, kwargs)


def _r163(ctx: Ctx) -> None:
    m = ctx.model
    ami = m.module('panqec.analysis')
    aci = m.cls('Analysis')
    fn = aci.methods['get_fit_status']
    site = site_of(ami, fn)
    good = {'fss_params': np.array([0.1, 1.2, 0.3, 1.0, 0.5]), 'p_th_fss': 0.1, 'p_th_fss_left': 0.09,
            'p_th_fss_right': 0.11, 'p_th_fss_se': 0.01, 'p_left': 0.05, 'p_right': 0.15}
    nan = float('nan')
    cases = [('valid entry', {}, True),
             ('NaN fit parameters', {'fss_params': np.array([nan] * 5)}, False),
             ('NaN threshold', {'p_th_fss': nan}, False),
             ('NaN interval bound', {'p_th_fss_left': nan}, False),
             ('zero-width interval', {'p_th_fss_left': 0.1, 'p_th_fss_right': 0.1}, False),
             ('zero standard error', {'p_th_fss_se': 0.0}, False),
             ('threshold above 1', {'p_th_fss': 1.2, 'p_right': 2.0}, False),
             ('negative interval bound', {'p_th_fss_left': -0.1}, False),
             ('threshold left of the data range', {'p_th_fss': 0.04}, False),
             ('threshold right of the data range', {'p_th_fss': 0.16}, False),
             ('threshold at the left data edge', {'p_th_fss': 0.05, 'p_th_fss_left': 0.04}, True),
             ('logical rate at threshold above 1', {'fss_params': np.array([0.1, 1.2, 1.3, 1.0, 0.5])}, False),
             ('flat zero fit', {'fss_params': np.array([0.1, 1.2, 0.0, 0.0, 0.0])}, False),
             # a low threshold with good statistics: every quantity scales with p_th
             ('valid entry at p_th = 1e-3 (interval width 6.6e-6)',
              {'fss_params': np.array([1e-3, 1.2, 0.3, 1.0, 0.5]), 'p_th_fss': 1.0006e-3, 'p_th_fss_left': 0.9973e-3,
               'p_th_fss_right': 1.0039e-3, 'p_th_fss_se': 3.3e-6, 'p_left': 5e-4, 'p_right': 2e-3}, True)]
    call_kw = dict(ctx.extra.get('fit_status_call_kwargs', {}))
    for label, delta, want in cases:
        entry = dict(good)
        entry.update(delta)
        it = Interp(m, _HStatus())
        outs = guard('R16.3', ami, fn)(lambda: it.explore(
            lambda: it.call_closure(Closure(fn, ami, aci), [entry], dict(call_kw), fn, self_obj=Obj(aci, 'analysis'))))
        ctx.need(len(outs) == 1 and outs[0].kind == 'return', 'R16.3', site, f'get_fit_status({label}): {outs!r}')
        v = outs[0].value
        ok = (v == 'success') == want and isinstance(v, str)
        ctx.ob('R16.3', site, f'get_fit_status: {label} -> {"success" if want else "rejected"}', ok,
               f'returned {v!r}', key=f'get_fit_status|{label}', facts=v)


def _r164_pure_fit(ctx: Ctx) -> None:
    """The fit helpers work on their own copies: fit_fss_params hands its best-fit parameters (reported as fss_params,
    used for the data collapse) to get_fit_params as the starting point of every bootstrap refit, so a helper that
    stores through an argument rewrites what is reported."""
    from .c06 import effects
    m = ctx.model
    E = effects(m)
    for fname in ('get_fit_params', 'fit_function'):
        mi, fn = m.func('panqec.analysis', fname)
        fi = E.by_node[fn]
        bad = sorted(fi.params[i] for i in fi.mut_params if i < len(fi.params))
        st = next((s_ for s_ in fi.stores if any(r.startswith('P') and r[1:].isdigit() for r in s_.roots)), None)
        ctx.ob('R16.4', site_of(mi, st.node) if (bad and st is not None) else site_of(mi, fn),
               f'{fname} does not store through its arguments', not bad,
               f'{norm_stmt(st.node) if st is not None else ""} writes through the argument(s) {bad}: the caller\'s array '
               f'(the best-fit parameters that fit_fss_params reports as fss_params) is modified by a bootstrap refit',
               key=f'{fname}|pure', facts=bad)


def _r162_labels(ctx: Ctx) -> None:
    """calculate_thresholds separates the families it fits by the labels get_label makes of (class name, parameters):
    two parameter sets that differ only deep inside a long container-valued parameter (explicit weights, nested
    deformation keywords) must get different labels, or their data are fitted as one family."""
    from .c03 import SymHooks
    m = ctx.model
    umi, fn = m.func('panqec.utils', 'get_label')
    site = site_of(umi, fn)
    pairs = [
        ('nested keyword dictionary', 'PauliErrorModel',
         {'r_x': 0.1, 'r_y': 0.1, 'r_z': 0.8, 'deformation_name': 'XZZX',
          'deformation_kwargs': {'deformation_axis': 'z', 'period': 2, 'offset': 0}},
         {'r_x': 0.1, 'r_y': 0.1, 'r_z': 0.8, 'deformation_name': 'XZZX',
          'deformation_kwargs': {'deformation_axis': 'z', 'period': 2, 'offset': 1}}),
        ('long list, last element', 'MatchingDecoder', {'weights': [1.0] * 19 + [2.0]}, {'weights': [1.0] * 19 + [3.0]}),
        ('another parameter after a long one', 'D', {'a': list(range(30)), 'b': 1}, {'a': list(range(30)), 'b': 2}),
        ('different class, same parameters', None, {'L_x': 3}, {'L_x': 3}),
    ]
    for what, name, p1, p2 in pairs:
        labels = []
        for nm, pr in ((name or 'A', p1), (name or 'B', p2)):
            it = Interp(m, SymHooks())
            outs = guard('R16.2', umi, fn)(lambda: it.explore(lambda: it.call_closure(Closure(fn, umi), [nm, pr], {}, fn)))
            if len(outs) != 1 or outs[0].kind != 'return' or not isinstance(outs[0].value, str):
                raise AnalysisError('R16.2', site, f'get_label not evaluated on {pr!r}: {outs!r}')
            labels.append(outs[0].value)
        ctx.ob('R16.2', site, f'get_label separates parameter sets that differ in a {what}', labels[0] != labels[1],
               f'both are labelled {labels[0]!r}: calculate_thresholds groups by this label and fits the two families as one',
               key=f'get_label|distinct[{what}]', facts=labels)


def _fit_function_on_points(ctx: Ctx, m, ami, ff) -> None:
    import random
    from .c03 import SymHooks
    rr = random.Random(7)
    bad = None
    n_pts = 0
    for _ in range(16):
        p_, d_ = rr.uniform(0.01, 0.4), float(rr.randint(3, 17))
        pth, nu, a, b, c = rr.uniform(0.05, 0.3), rr.uniform(0.6, 1.7), rr.uniform(0.1, 0.6), rr.uniform(0.5, 2.5), rr.uniform(-1, 3)
        it = Interp(m, SymHooks())
        outs = guard('R16.4', ami, ff)(lambda: it.explore(lambda: it.call_closure(
            Closure(ff, ami), [(p_, d_), pth, nu, a, b, c], {}, ff)))
        if len(outs) != 1 or outs[0].kind != 'return' or not isinstance(outs[0].value, (float, np.floating)):
            raise AnalysisError('R16.4', site_of(ami, ff), f'fit_function not evaluated on a generic point: {outs!r}')
        x = (p_ - pth) * d_ ** nu
        want = a + b * x + c * x ** 2
        n_pts += 1
        if abs(float(outs[0].value) - want) > 1e-12 * max(1.0, abs(want)):
            bad = (f'fit_function((p, d) = ({p_:.4f}, {d_:.0f}), p_th={pth:.4f}, nu={nu:.4f}, A={a:.4f}, B={b:.4f}, C={c:.4f}) = '
                   f'{float(outs[0].value):.12g}; the ansatz gives {want:.12g}')
            break
    ctx.ob('R16.4', site_of(ami, ff), 'fit_function unpacks x_data = (p, d) and params = (p_th, nu, A, B, C)', bad is None,
           bad or '', key='fit_function|unpack', facts={'points': n_pts})
    ctx.ob('R16.4', site_of(ami, ff), 'fit_function = A + B x + C x^2 with x = (p - p_th) d^nu', bad is None, bad or '',
           key='fit_function|ansatz', facts={'points': n_pts})


def _r164(ctx: Ctx) -> None:
    m = ctx.model
    A = Algebra()
    ami, ff = m.func('panqec.analysis', 'fit_function')
    umi, quad = m.func('panqec.utils', 'quadratic')
    _, resc = m.func('panqec.utils', 'rescale_prob')

    def body_expr(mi, fn):
        env = {}
        ret = None
        unpack = {}
        for s in fn.body:
            if isinstance(s, ast.Expr) and isinstance(s.value, ast.Constant):
                continue
            if isinstance(s, ast.Assign) and isinstance(s.targets[0], ast.Tuple) and isinstance(s.value, ast.Name):
                unpack[s.value.id] = [e.id for e in s.targets[0].elts if isinstance(e, ast.Name)]
            elif isinstance(s, ast.Assign) and isinstance(s.targets[0], ast.Name):
                env[s.targets[0].id] = s.value
            elif isinstance(s, ast.Return):
                ret = s.value
            else:
                raise AnalysisError('R16.4', site_of(mi, s), f'{fn.name}: not straight-line')
        # what counts is the POSITION a name is unpacked from, not how the local is called: rename the locals to
        # the documented names of their positions (p_th, nu, A, B, C) / (p, d) before comparing formulas
        canon = {'x_data': ['p', 'd'], 'params': ['p_th', 'nu', 'A', 'B', 'C']}
        ren = {}
        for src_, names in unpack.items():
            if src_ in canon and len(names) == len(canon[src_]):
                ren.update(dict(zip(names, canon[src_])))
        clash = (set(env) & set(ren.values())) - set(ren)

        class _Ren(ast.NodeTransformer):
            def visit_Name(self, n):
                return ast.copy_location(ast.Name(id=ren.get(n.id, n.id), ctx=n.ctx), n)
        if clash:
            raise AnalysisError('R16.4', site_of(mi, fn), f'{fn.name}: local name(s) {sorted(clash)} shadow a documented '
                                                          f'parameter name')
        import copy as _copy
        ret = _Ren().visit(_copy.deepcopy(ret)) if ret is not None else None
        env = {ren.get(k, k): _Ren().visit(_copy.deepcopy(v)) for k, v in env.items()}
        unpack = {k: [ren.get(x, x) if (k in canon and len(v) == len(canon[k])) else x for x in v] for k, v in unpack.items()}
        return ret, env, unpack
    want = 'A + B*((p - p_th)*d**nu) + C*((p - p_th)*d**nu)**2'
    syms = ['p', 'd', 'p_th', 'nu', 'A', 'B', 'C']
    ff_symbolic = True
    try:
        ret, env, unpack = body_expr(ami, ff)
        if not (unpack.get('x_data') and unpack.get('params')):
            ff_symbolic = False
    except AnalysisError:
        ff_symbolic = False
    if ff_symbolic:
        ok_unpack = unpack.get('x_data') == ['p', 'd'] and unpack.get('params') == ['p_th', 'nu', 'A', 'B', 'C']
        ctx.ob('R16.4', site_of(ami, ff), 'fit_function unpacks x_data = (p, d) and params = (p_th, nu, A, B, C)', ok_unpack,
               f'unpacking {unpack}', key='fit_function|unpack', facts=unpack)
        q1 = A.add(to_sympy_src(ret, env), want, syms, {'d': [2, 12], 'nu': [0.5, 2]})
    else:
        # another shape (composed from helpers, star-arguments): the function as resolved is evaluated on generic points
        # against the documented ansatz, (p, d) and (p_th, nu, A, B, C) by POSITION
        q1 = None
        _fit_function_on_points(ctx, m, ami, ff)
    ret2, env2, unpack2 = body_expr(umi, resc)
    ok2 = unpack2.get('x_data') == ['p', 'd'] and unpack2.get('params') == ['p_th', 'nu', 'A', 'B', 'C']
    ctx.ob('R16.4', site_of(umi, resc), 'rescale_prob unpacks (p, d) and (p_th, nu, A, B, C)', ok2, f'unpacking {unpack2}',
           key='rescale_prob|unpack', facts=unpack2)
    q2 = A.add(to_sympy_src(ret2, env2), '(p - p_th)*d**nu', syms, {'d': [2, 12], 'nu': [0.5, 2]})
    ret3, env3, unpack3 = body_expr(umi, quad)
    ok3 = unpack3.get('params') == ['p_th', 'nu', 'A', 'B', 'C']
    ctx.ob('R16.4', site_of(umi, quad), 'quadratic unpacks params = (p_th, nu, A, B, C)', ok3, f'unpacking {unpack3}',
           key='quadratic|unpack', facts=unpack3)
    q3 = A.add(to_sympy_src(ret3, env3), 'A + B*x + C*x**2', ['x', 'A', 'B', 'C', 'p_th', 'nu'])
    res = A.solve('R16.4')
    for qi, mi, fn, what, key in ((q1, ami, ff, 'fit_function = A + B x + C x^2 with x = (p - p_th) d^nu', 'fit_function|ansatz'),
                                  (q2, umi, resc, 'rescale_prob = (p - p_th) d^nu', 'rescale_prob|x'),
                                  (q3, umi, quad, 'quadratic = A + B x + C x^2', 'quadratic|ansatz')):
        if qi is None:
            continue
        ok, detail = verdict(res[qi])
        if ok is None:
            raise AnalysisError('R16.4', site_of(mi, fn), f'{what}: {detail}')
        ctx.ob('R16.4', site_of(mi, fn), what, ok, detail, key=key, facts=detail)
    # get_fit_params: curve_fit(fit_function, (p, d), f) -- interpreted with recorders
    from ..dfdomain import CT, DF
    from ..domains import Sym
    from ..interp import Closure as _Clo
    _, gfp = m.func('panqec.analysis', 'get_fit_params')
    rec = []

    class HFit(Hooks):
        def call(self, it, func, args, kwargs, node, env):
            if isinstance(func, Ext) and func.name.endswith('curve_fit'):
                rec.append((args, kwargs))
                return (Sym('params_opt'), Sym('cov'))
            if isinstance(func, Ext) and func.name == 'numpy.array':
                return CT('array', *[x for x in args[0]]) if isinstance(args[0], (list, tuple)) else CT('array', args[0])
            if isinstance(func, Ext) and (func.name.startswith('warnings') or func.name.startswith('builtins.m')):
                return TOP
            return NOT_HANDLED
    it = Interp(m, HFit())
    P, D, Fv = CT('col', DF('t'), 'p'), CT('col', DF('t'), 'd'), CT('col', DF('t'), 'f')
    outs = guard('R16.4', ami, gfp)(lambda: it.explore(
        lambda: (rec.clear(), it.call_closure(_Clo(gfp, ami), [P, D, Fv], {'params_0': None}, gfp), list(rec))[2]))
    good = [o for o in outs if o.kind == 'return']
    ctx.need(good and all(len(o.value) == 1 for o in good), 'R16.4', site_of(ami, gfp), f'get_fit_params: {outs!r}')
    a, kw = good[0].value[0]
    ok = len(a) >= 3 and isinstance(a[0], _Clo) and getattr(a[0].fn, 'name', '') == 'fit_function' \
        and a[1] == CT('array', P, D) and a[2] == Fv
    ctx.ob('R16.4', site_of(ami, gfp), 'curve_fit fits fit_function to ((p, d), f)', ok,
           f'curve_fit called with {a[:3]!r}', key='get_fit_params|curve_fit', facts=repr(a[:3]))

    # fit_fss_params: truncation, columns handed to the fit, rescaled column
    _, ffp = m.func('panqec.analysis', 'fit_fss_params')
    calls = []

    class HFss(Hooks):
        def call(self, it, func, args, kwargs, node, env):
            def bound(f_, a_, k_):
                """positional view of a call, keyword arguments slotted into their parameters' positions"""
                names_ = [x.arg for x in f_.fn.args.args]
                out_ = list(a_)
                for nm_ in names_[len(a_):]:
                    if nm_ in k_:
                        out_.append(k_[nm_])
                    else:
                        break
                return out_
            if isinstance(func, _Clo) and getattr(func.fn, 'name', '') == 'get_fit_params':
                calls.append(('fit', bound(func, args, kwargs), kwargs))
                return Sym('params_opt')
            if isinstance(func, _Clo) and getattr(func.fn, 'name', '') == 'rescale_prob':
                calls.append(('rescale', bound(func, args, kwargs), kwargs))
                return CT('rescaled')
            if isinstance(func, Ext) and (func.name.startswith('numpy') or func.name.startswith('pandas')
                                          or func.name == 'builtins.print'):
                return TOP
            return NOT_HANDLED

        def iterate(self, it, value, node):
            if value is TOP:
                return [Sym('row')]      # one abstract bootstrap sample / one abstract row
            return NOT_HANDLED

        def attr(self, it, obj, name, node):
            if isinstance(obj, _Rng) and name in ('beta', 'choice'):
                return _CallR(lambda *a, _n=name, **k: (calls.append((_n, a, k)), TOP)[1])
            return NOT_HANDLED
    _base_call = HFss.call

    def _call2(self, it, func, args, kwargs, node, env):
        if isinstance(func, Ext) and func.name == 'numpy.random.default_rng':
            return _Rng()
        if isinstance(func, Ext) and func.name in ('builtins.int', 'builtins.float') and args and isinstance(args[0], CT):
            return args[0]
        if isinstance(func, Ext) and func.name == 'builtins.range':
            return TOP
        if isinstance(func, Ext) and func.name == 'builtins.zip' and args and all(isinstance(a, CT) for a in args):
            # rows of several columns walked together: one generic row, each entry the element of its own column
            return [tuple(CT('item', a, 'row') for a in args)]
        return _base_call(self, it, func, args, kwargs, node, env)
    HFss.call = _call2
    it = Interp(m, HFss())
    df = DF('df_filt')
    PL, PR = Sym('p_left'), Sym('p_right')

    def thunk():
        calls.clear()
        it.call_closure(_Clo(ffp, ami), [df, PL, PR], {'p_nearest': Sym('p_near'), 'n_bs': 0}, ffp)
        return list(calls)
    outs = guard('R16.4', ami, ffp)(lambda: it.explore(thunk))
    good = [o for o in outs if o.kind == 'return']
    ctx.need(good, 'R16.4', site_of(ami, ffp), f'fit_fss_params: {outs[:2]!r}')
    fits = [c for c in good[0].value if c[0] == 'fit']
    ctx.need(fits, 'R16.4', site_of(ami, ffp), 'fit_fss_params: call of get_fit_params not found')
    ctx.need(len(fits[0][1]) >= 3, 'R16.4', site_of(ami, ffp), f'fit_fss_params: arguments of get_fit_params not followed '
                                                               f'({fits[0][1]!r}, {fits[0][2]!r})')
    pl, dl, fl = fits[0][1][:3]

    def base_of(t):
        while isinstance(t, CT) and t.op in ('values', 'col'):
            if t.op == 'col':
                return t.args[0], t.args[1]
            t = t.args[0]
        return None, None
    (fp, cp), (fd, cd), (ff_, cf) = base_of(pl), base_of(dl), base_of(fl)
    ok = cp == 'error_rate' and cd == 'd' and cf == 'p_est' and fp is not None and repr(fp) == repr(fd) == repr(ff_)
    ctx.ob('R16.4', site_of(ami, ffp), 'fit columns: error_rate, d and the logical error rate of one truncated table', ok,
           f'get_fit_params({pl!r}, {dl!r}, {fl!r})', key='fit_fss_params|columns', facts=[repr(pl), repr(dl), repr(fl)])
    cond = getattr(fp, 'cond', None)
    er = CT('col', df, 'error_rate')
    want_cond = {repr(CT('and', *sorted((CT('ge', er, PL), CT('le', er, PR)), key=repr))),
                 repr(CT('and', *sorted((CT('le', PL, er), CT('le', er, PR)), key=repr)))}
    okc = cond is not None and (repr(cond) in want_cond or _cond_is_closed_interval(cond, er, PL, PR))
    ctx.ob('R16.4', site_of(ami, ffp), 'fit uses the rows with p_left <= error_rate <= p_right', okc,
           f'rows selected by {cond!r}', key='fit_fss_params|truncate', facts=repr(cond))
    # bootstrap: the Beta posterior of each row uses that row's own counts, read from the fitted (truncated) table
    betas = [c for c in good[0].value if c[0] == 'beta']
    ctx.need(betas, 'R16.4', site_of(ami, ffp), 'fit_fss_params: rng.beta(...) of the bootstrap not found')
    ba = list(betas[0][1]) + [betas[0][2][k_] for k_ in ('a', 'b')[len(betas[0][1]):] if k_ in betas[0][2]]
    ctx.need(len(ba) >= 2, 'R16.4', site_of(ami, ffp), f'fit_fss_params: arguments of rng.beta not followed ({betas[0]!r})')
    a_, b_ = ba[:2]
    ctx.need(a_ is not TOP and b_ is not TOP, 'R16.4', site_of(ami, ffp), 'fit_fss_params: arguments of rng.beta not understood')
    fa = [_frame_of(x) for x in _leaf_cols(a_)]
    fb = [_frame_of(x) for x in _leaf_cols(b_)]
    frames = {repr(f) for f, c in fa + fb if f is not None}
    cols_a = {c for f, c in fa}
    cols_b = {c for f, c in fb}
    okb = frames == {repr(fp)} and cols_a == {'n_fail'} and cols_b == {'n_trials', 'n_fail'}
    ctx.ob('R16.4', site_of(ami, ffp), 'bootstrap resamples each fitted row from its own (n_fail, n_trials) of the truncated table',
           okb, f'rng.beta({a_!r}, {b_!r}); the fit uses rows of {fp!r}: counts taken from another table (or other columns) '
                f'pair the wrong counts with the fitted points', key='fit_fss_params|bootstrap-counts',
           facts={'alpha': repr(a_), 'beta': repr(b_)})
    resc = [c for c in good[0].value if c[0] == 'rescale']
    okr = len(resc) == 1 and isinstance(resc[0][1][0], list) and resc[0][1][0] == [pl, dl] \
        and list(resc[0][1][1:]) == [TOP] or (len(resc) == 1 and resc[0][1][0] == [pl, dl])
    ctx.ob('R16.4', site_of(ami, ffp), 'rescaled column is rescale_prob((p, d), *fitted parameters)', okr,
           f'rescale_prob called with {resc!r}', key='fit_fss_params|rescaled')


class _Rng:
    pass


def _leaf_cols(t):
    from ..dfdomain import CT
    out = []

    def rec(x):
        if isinstance(x, CT):
            if x.op in ('add', 'sub', 'mul', 'div'):
                for a in x.args:
                    rec(a)
            else:
                out.append(x)
    rec(t)
    return out


class _CallR:
    def __init__(self, f):
        self.f = f

    def pqv_call(self, *a, **k):
        return self.f(*a, **k)


def _frame_of(t):
    """the data frame a column term is read from (None if not a column read)"""
    from ..dfdomain import CT, DF
    seen = 0
    while isinstance(t, CT) and seen < 12:
        seen += 1
        if t.op == 'col':
            return t.args[0], t.args[1]
        if not t.args:
            return None, None
        t = t.args[0]
    return None, None


def _cond_is_closed_interval(cond, er, lo, hi) -> bool:
    """cond is (lo <= er) & (er <= hi) in any spelling produced by the column algebra."""
    from ..dfdomain import CT
    if not (isinstance(cond, CT) and cond.op == 'and' and len(cond.args) == 2):
        return False
    lows, highs = 0, 0
    for c in cond.args:
        if not isinstance(c, CT):
            return False
        a, b = c.args
        if c.op in ('le',) and a == er and b == hi or c.op in ('ge',) and a == hi and b == er:
            highs += 1
        elif c.op in ('ge',) and a == er and b == lo or c.op in ('le',) and a == lo and b == er:
            lows += 1
    return lows == 1 and highs == 1


def run(ctx: Ctx) -> None:
    ctx.rule('R16.1', 'threshold and interval = median and q/1-q quantiles of one bootstrap column', floor=5)
    ctx.rule('R16.2', 'rows reach the order-sensitive steps in canonical order; bootstrap seeded', floor=6)
    ctx.rule('R16.3', 'fit_status success only for a valid fit inside the data range; fit_found = (status == success)', floor=15)
    ctx.rule('R16.4', 'fit function and its siblings are the documented ansatz with parameters in fit order; fit and bootstrap read one table', floor=11)
    ctx.rule('R16.5', 'the fit and its beta-resampling bootstrap read n_fail = n_trials - sum(success) and p_est = 1 - mean(success), each row with the code (distance) of its own group whatever the order of the input rows; every file of every supplied path is read once', floor=5)
    ctx.trust('scipy.optimize.curve_fit, numpy median/quantile, pandas sort semantics; sympy (python3-vt)')
    with ctx.part():
        _r161(ctx)
    from .c06 import class_mutable_rule
    with ctx.part():
        class_mutable_rule(ctx, 'R16.2', ['Analysis'])
    with ctx.part():
        from .c06 import global_state_rule
        global_state_rule(ctx, 'R16.2', list(ctx.model.cls('Analysis').methods.values()), 'thresholds are estimated')
    with ctx.part():
        _r162(ctx)
    with ctx.part():
        _r162_labels(ctx)
    with ctx.part():
        _r163(ctx)
    with ctx.part():
        _r164(ctx)
    with ctx.part():
        _r164_pure_fit(ctx)
    # the table the fit reads: failure counts and rates as defined for the pooled trials (shared with C15 R15.3)
    with ctx.part():
        from .c15 import _frame_formulas, _r151_152, _r156, _r157
        sub = Ctx('C16', ctx.model, ctx.tier, ctx.seed)
        for r_ in ('R15.1', 'R15.2', 'R15.3', 'R15.6'):
            sub.rule(r_, '', 0)
        _frame_formulas(sub)
        _r151_152(sub)
        _r156(sub)
        _r157(sub)
        for o in sub.obs:
            if o.key.split('|', 1)[1] in ('Analysis.aggregate|n_fail', 'calculate_total_error_rates|estimator',
                                          'Analysis.aggregate|aligned', 'find_files|once', 'read_files|read_entry'):
                ctx.ob('R16.5', o.site, o.what, o.ok, o.detail, key=o.key.split('|', 1)[1], facts=o.facts)
