"""C16 - threshold estimation recovers a planted threshold (structural clauses only)."""
from __future__ import annotations

import ast
import math

import numpy as np

from ..alg import Algebra, to_sympy_src, verdict
from ..interp import (NOT_HANDLED, TOP, BoundMethod, Closure, Ext, Hooks, Interp, Obj, guard, site_of)
from ..model import AnalysisError, norm_stmt
from ..report import Ctx
from ..symnp import call_numpy
from .c15 import _single_return_expr

EXPLANATION = (
    'Partial: recovery of a planted threshold is numerical (curve_fit convergence, tolerance, interval coverage) '
    'and is NOT decided. Decided: R16.1 the reported threshold and its interval are the median and the q / 1-q '
    'quantiles (q <= 1/2) of one and the same bootstrap column, and p_th_fss_se its standard deviation. R16.2 '
    'order independence by construction: the aggregated rows come from a sorted group-by, parameter sets are '
    'sorted, the crossover table is index-sorted before the order heuristic, get_code_df sorts by n, the bootstrap '
    'generator is seeded with a constant (the bootstrap consumes random numbers in row order). R16.3 '
    'get_fit_status is evaluated on a valid entry and on single-fault perturbations: success exactly for the valid '
    'entry, in particular a threshold outside [p_left, p_right] or a NaN is rejected; fit_found is status == '
    '"success". R16.4 (sympy) fit_function and utils.quadratic o utils.rescale_prob are the documented ansatz '
    'A + B x + C x^2, x = (p - p_th) d^nu, with parameters unpacked in the order (p_th, nu, A, B, C) the fit returns; '
    'curve_fit is called with fit_function on (p, d) and the rescaled column uses the fitted parameters.'
)


def _r161(ctx: Ctx) -> None:
    m = ctx.model
    ami = m.module('panqec.analysis')
    aci = m.cls('Analysis')
    fn = aci.methods['calculate_thresholds']
    site = site_of(ami, fn)
    found = {}
    for n in ast.walk(fn):
        if isinstance(n, ast.Dict):
            for k, v in zip(n.keys, n.values):
                if isinstance(k, ast.Constant) and k.value in ('p_th_fss', 'p_th_fss_left', 'p_th_fss_right', 'p_th_fss_se'):
                    found[k.value] = v
    ctx.need(set(found) == {'p_th_fss', 'p_th_fss_left', 'p_th_fss_right', 'p_th_fss_se'}, 'R16.1', site,
             f'threshold summary keys not found: {sorted(found)}')
    med = found['p_th_fss']
    ok_med = isinstance(med, ast.Call) and ast.unparse(med.func) in ('np.median', 'numpy.median') and len(med.args) == 1
    col = ast.unparse(med.args[0]) if ok_med else None
    ctx.ob('R16.1', site_of(ami, med), 'p_th_fss is the median of the bootstrap thresholds', ok_med and col == 'params_bs[:, 0]',
           f'p_th_fss = {ast.unparse(med)}', key='calculate_thresholds|median', facts=ast.unparse(med))
    qs = {}
    for key in ('p_th_fss_left', 'p_th_fss_right'):
        v = found[key]
        okq = isinstance(v, ast.Call) and ast.unparse(v.func) in ('np.quantile', 'numpy.quantile') and len(v.args) == 2 \
            and ast.unparse(v.args[0]) == col and isinstance(v.args[1], ast.Constant)
        qs[key] = v.args[1].value if okq else None
        ctx.ob('R16.1', site_of(ami, v), f'{key} is a quantile of the same bootstrap column', okq,
               f'{key} = {ast.unparse(v)}; the threshold column is {col}', key=f'calculate_thresholds|{key}',
               facts=ast.unparse(v))
    ql, qr = qs['p_th_fss_left'], qs['p_th_fss_right']
    ok = ql is not None and qr is not None and 0 < ql <= 0.5 <= qr < 1 and abs(ql + qr - 1) < 1e-12
    ctx.ob('R16.1', site, 'interval quantiles are q and 1-q with q <= 1/2 (the median lies inside its own interval)', ok,
           f'quantiles {ql}, {qr}', key='calculate_thresholds|quantile-pair', facts=[ql, qr])
    se = found['p_th_fss_se']
    ctx.ob('R16.1', site_of(ami, se), 'p_th_fss_se is the standard deviation of the same column',
           ast.unparse(se).replace(' ', '') == f'{col}.std()'.replace(' ', ''), f'p_th_fss_se = {ast.unparse(se)}',
           key='calculate_thresholds|se')
    # fit_found
    txt = ast.unparse(fn).replace(' ', '').replace('\n', '').replace('"', "'")
    ctx.ob('R16.3', site, "fit_found is exactly fit_status == 'success'", "'fit_found':fit_status=='success'" in txt,
           'fit_found not derived from fit_status', key='calculate_thresholds|fit_found')
    ctx.ob('R16.3', site, 'fit_status comes from get_fit_status(entry)', 'fit_status=self.get_fit_status(entry)' in txt,
           'fit_status not computed by get_fit_status', key='calculate_thresholds|fit_status')


def _r162(ctx: Ctx) -> None:
    m = ctx.model
    ami = m.module('panqec.analysis')
    aci = m.cls('Analysis')

    def has(fn, needle):
        return needle in ast.unparse(fn).replace(' ', '').replace('\n', '').replace('"', "'")
    fn = aci.methods['calculate_thresholds']
    ctx.ob('R16.2', site_of(ami, fn), 'parameter sets are de-duplicated and sorted before fitting',
           has(fn, '.drop_duplicates().sort_values(by=param_keys).values'), 'sort_values(by=param_keys) missing',
           key='calculate_thresholds|sorted-sets')
    fn = aci.methods['aggregate']
    gb = [n for n in ast.walk(fn) if isinstance(n, ast.Call) and isinstance(n.func, ast.Attribute) and n.func.attr == 'groupby']
    nosort = any(k.arg == 'sort' and isinstance(k.value, ast.Constant) and k.value.value is False for g in gb for k in g.keywords)
    ctx.ob('R16.2', site_of(ami, fn), 'aggregated rows come from a sorted group-by', bool(gb) and not nosort,
           'groupby(sort=False) keeps file order', key='aggregate|sorted-groupby')
    _, fn = m.func('panqec.analysis', 'get_p_th_nearest')
    src = ast.unparse(fn)
    i_sort = src.find('sort_index()')
    i_arg = src.find('argsort')
    ctx.ob('R16.2', site_of(ami, fn), 'crossover table is index-sorted before the order-change heuristic',
           0 <= i_sort < i_arg, 'p_est_df.sort_index() must precede the argsort heuristic', key='get_p_th_nearest|sort_index')
    _, fn = m.func('panqec.analysis', 'get_code_df')
    ctx.ob('R16.2', site_of(ami, fn), 'code table sorted by n', has(fn, ".sort_values(by='n')"), 'sort_values missing',
           key='get_code_df|sorted')
    _, fn = m.func('panqec.analysis', 'fit_fss_params')
    gens = [n for n in ast.walk(fn) if isinstance(n, ast.Call) and ast.unparse(n.func).endswith('default_rng')]
    ok = len(gens) == 1 and len(gens[0].args) == 1 and isinstance(gens[0].args[0], ast.Constant) \
        and isinstance(gens[0].args[0].value, int)
    ctx.ob('R16.2', site_of(ami, fn), 'bootstrap generator seeded with a constant', ok,
           f'{[ast.unparse(g) for g in gens]}', key='fit_fss_params|seed')
    glob = [n for n in ast.walk(fn) if isinstance(n, ast.Call) and ast.unparse(n.func).startswith('np.random.')
            and not ast.unparse(n.func).endswith('default_rng')]
    ctx.ob('R16.2', site_of(ami, fn), 'bootstrap draws only from its own generator', not glob,
           f'{[ast.unparse(g) for g in glob]}', key='fit_fss_params|no-global-rng')


class _HStatus(Hooks):
    def call(self, it, func, args, kwargs, node, env):
        if isinstance(func, Ext):
            n = func.name
            if n in ('pandas.isna', 'pandas.isnull'):
                a = args[0]
                if isinstance(a, (list, tuple, np.ndarray)):
                    return np.array([isinstance(x, float) and math.isnan(x) for x in np.asarray(a, dtype=float).ravel()])
                return isinstance(a, float) and math.isnan(a)
        return call_numpy(func, args, kwargs)


def _r163(ctx: Ctx) -> None:
    m = ctx.model
    ami = m.module('panqec.analysis')
    aci = m.cls('Analysis')
    fn = aci.methods['get_fit_status']
    site = site_of(ami, fn)
    good = {'fss_params': np.array([0.1, 1.2, 0.3, 1.0, 0.5]), 'p_th_fss': 0.1, 'p_th_fss_left': 0.09,
            'p_th_fss_right': 0.11, 'p_th_fss_se': 0.01, 'p_left': 0.05, 'p_right': 0.15}
    nan = float('nan')
    cases = [('valid entry', {}, True),
             ('NaN fit parameters', {'fss_params': np.array([nan] * 5)}, False),
             ('NaN threshold', {'p_th_fss': nan}, False),
             ('NaN interval bound', {'p_th_fss_left': nan}, False),
             ('zero-width interval', {'p_th_fss_left': 0.1, 'p_th_fss_right': 0.1}, False),
             ('zero standard error', {'p_th_fss_se': 0.0}, False),
             ('threshold above 1', {'p_th_fss': 1.2, 'p_right': 2.0}, False),
             ('negative interval bound', {'p_th_fss_left': -0.1}, False),
             ('threshold left of the data range', {'p_th_fss': 0.04}, False),
             ('threshold right of the data range', {'p_th_fss': 0.16}, False),
             ('threshold at the left data edge', {'p_th_fss': 0.05, 'p_th_fss_left': 0.04}, True),
             ('logical rate at threshold above 1', {'fss_params': np.array([0.1, 1.2, 1.3, 1.0, 0.5])}, False),
             ('flat zero fit', {'fss_params': np.array([0.1, 1.2, 0.0, 0.0, 0.0])}, False)]
    for label, delta, want in cases:
        entry = dict(good)
        entry.update(delta)
        it = Interp(m, _HStatus())
        outs = guard('R16.3', ami, fn)(lambda: it.explore(
            lambda: it.call_closure(Closure(fn, ami, aci), [entry], {}, fn, self_obj=Obj(aci, 'analysis'))))
        ctx.need(len(outs) == 1 and outs[0].kind == 'return', 'R16.3', site, f'get_fit_status({label}): {outs!r}')
        v = outs[0].value
        ok = (v == 'success') == want and isinstance(v, str)
        ctx.ob('R16.3', site, f'get_fit_status: {label} -> {"success" if want else "rejected"}', ok,
               f'returned {v!r}', key=f'get_fit_status|{label}', facts=v)


def _r164(ctx: Ctx) -> None:
    m = ctx.model
    A = Algebra()
    ami, ff = m.func('panqec.analysis', 'fit_function')
    umi, quad = m.func('panqec.utils', 'quadratic')
    _, resc = m.func('panqec.utils', 'rescale_prob')

    def body_expr(mi, fn):
        env = {}
        ret = None
        unpack = {}
        for s in fn.body:
            if isinstance(s, ast.Expr) and isinstance(s.value, ast.Constant):
                continue
            if isinstance(s, ast.Assign) and isinstance(s.targets[0], ast.Tuple) and isinstance(s.value, ast.Name):
                unpack[s.value.id] = [e.id for e in s.targets[0].elts if isinstance(e, ast.Name)]
            elif isinstance(s, ast.Assign) and isinstance(s.targets[0], ast.Name):
                env[s.targets[0].id] = s.value
            elif isinstance(s, ast.Return):
                ret = s.value
            else:
                raise AnalysisError('R16.4', site_of(mi, s), f'{fn.name}: not straight-line')
        return ret, env, unpack
    want = 'A + B*((p - p_th)*d**nu) + C*((p - p_th)*d**nu)**2'
    syms = ['p', 'd', 'p_th', 'nu', 'A', 'B', 'C']
    ret, env, unpack = body_expr(ami, ff)
    ok_unpack = unpack.get('x_data') == ['p', 'd'] and unpack.get('params') == ['p_th', 'nu', 'A', 'B', 'C']
    ctx.ob('R16.4', site_of(ami, ff), 'fit_function unpacks x_data = (p, d) and params = (p_th, nu, A, B, C)', ok_unpack,
           f'unpacking {unpack}', key='fit_function|unpack', facts=unpack)
    q1 = A.add(to_sympy_src(ret, env), want, syms, {'d': [2, 12], 'nu': [0.5, 2]})
    ret2, env2, unpack2 = body_expr(umi, resc)
    ok2 = unpack2.get('x_data') == ['p', 'd'] and unpack2.get('params') == ['p_th', 'nu', 'A', 'B', 'C']
    ctx.ob('R16.4', site_of(umi, resc), 'rescale_prob unpacks (p, d) and (p_th, nu, A, B, C)', ok2, f'unpacking {unpack2}',
           key='rescale_prob|unpack', facts=unpack2)
    q2 = A.add(to_sympy_src(ret2, env2), '(p - p_th)*d**nu', syms, {'d': [2, 12], 'nu': [0.5, 2]})
    ret3, env3, unpack3 = body_expr(umi, quad)
    ok3 = unpack3.get('params') == ['p_th', 'nu', 'A', 'B', 'C']
    ctx.ob('R16.4', site_of(umi, quad), 'quadratic unpacks params = (p_th, nu, A, B, C)', ok3, f'unpacking {unpack3}',
           key='quadratic|unpack', facts=unpack3)
    q3 = A.add(to_sympy_src(ret3, env3), 'A + B*x + C*x**2', ['x', 'A', 'B', 'C', 'p_th', 'nu'])
    res = A.solve('R16.4')
    for qi, mi, fn, what, key in ((q1, ami, ff, 'fit_function = A + B x + C x^2 with x = (p - p_th) d^nu', 'fit_function|ansatz'),
                                  (q2, umi, resc, 'rescale_prob = (p - p_th) d^nu', 'rescale_prob|x'),
                                  (q3, umi, quad, 'quadratic = A + B x + C x^2', 'quadratic|ansatz')):
        ok, detail = verdict(res[qi])
        if ok is None:
            raise AnalysisError('R16.4', site_of(mi, fn), f'{what}: {detail}')
        ctx.ob('R16.4', site_of(mi, fn), what, ok, detail, key=key, facts=detail)
    # curve_fit(fit_function, [p_list, d_list], f_list)
    _, gfp = m.func('panqec.analysis', 'get_fit_params')
    txt = ast.unparse(gfp).replace(' ', '').replace('\n', '')
    ok = 'curve_fit(fit_function,x_data,y_data,' in txt and 'x_data=np.array([p_list,d_list])' in txt and 'y_data=f_list' in txt
    ctx.ob('R16.4', site_of(ami, gfp), 'curve_fit fits fit_function to ((p, d), f)', ok, 'call not in the expected form',
           key='get_fit_params|curve_fit')
    _, ffp = m.func('panqec.analysis', 'fit_fss_params')
    txt = ast.unparse(ffp).replace(' ', '').replace('\n', '').replace('"', "'")
    ok = "df_trunc['rescaled_p']=rescale_prob([p_list,d_list],*params_opt)" in txt
    ctx.ob('R16.4', site_of(ami, ffp), 'rescaled column uses the fitted parameters on (p, d)', ok, 'not in the expected form',
           key='fit_fss_params|rescaled')
    ok = "d_list=df_trunc['d'].values" in txt and "p_list=df_trunc['error_rate'].values" in txt and 'f_list=df_trunc[p_est].values' in txt
    ctx.ob('R16.4', site_of(ami, ffp), 'fit columns: d, error_rate and the logical error rate of the truncated table', ok,
           'column extraction not in the expected form', key='fit_fss_params|columns')
    ok = "(p_left_val<=df_filt['error_rate'])&(df_filt['error_rate']<=p_right_val)" in txt
    ctx.ob('R16.4', site_of(ami, ffp), 'fit uses the rows with p_left <= error_rate <= p_right', ok,
           'truncation not in the expected form', key='fit_fss_params|truncate')


def run(ctx: Ctx) -> None:
    ctx.rule('R16.1', 'threshold and interval = median and q/1-q quantiles of one bootstrap column', floor=5)
    ctx.rule('R16.2', 'rows reach the order-sensitive steps in canonical order; bootstrap seeded', floor=6)
    ctx.rule('R16.3', 'fit_status success only for a valid fit inside the data range; fit_found = (status == success)', floor=15)
    ctx.rule('R16.4', 'fit function and its siblings are the documented ansatz with parameters in fit order', floor=10)
    ctx.trust('scipy.optimize.curve_fit, numpy median/quantile, pandas sort semantics; sympy (python3-vt)')
    _r161(ctx)
    _r162(ctx)
    _r163(ctx)
    _r164(ctx)
