"""C02 - parity-check matrix is the faithful image of the lattice definition."""
from __future__ import annotations

import ast

import numpy as np

from ..interp import Closure, Interp, Obj, guard, site_of
from ..model import AnalysisError, norm_stmt, walk_no_nested
from ..report import Ctx
from ..symnp import MiniCSR
from .c03 import CodeHooks, QUBITS, _aslist, _run_fn, _single, mini_code, stabilizer_code_tables

EXPLANATION = (
    'R02.1: StabilizerCode.stabilizer_matrix / to_bsf / from_bsf / site are partially evaluated on a '
    'four-qubit abstract code with X, Y and Z supports: rows must be the BSF image of get_stabilizer(location) '
    'in coordinate order (X -> column i, Z -> column n+i, Y -> both, reduced mod 2) and from_bsf must invert '
    'to_bsf for dense 1-D, dense 1x2n and sparse rows. R02.2: x_indices / z_indices / Hx / Hz / '
    'extract_x_syndrome / extract_z_syndrome / is_css are evaluated on an asymmetric abstract parity-check '
    'matrix (2 X-rows with different supports, 1 Z-row; and a mixed-row variant): masks are "row has an X '
    '(Z) component", Hx = X-rows of the X block, Hz = Z-rows of the Z block, syndrome parts use the matching '
    'mask, is_css = no row in both masks. R02.3: taint search for hash-ordered iteration (set / frozenset / '
    'set comprehension / listdir / glob / id / hash) in every function that defines qubit, stabilizer or '
    'logical order in the 16 code classes and the base class; string-element sets are violations, unknown '
    'element types UNDECIDED (no alarm); positive control: stabilizer_types is recognised as hash-ordered.'
)


# ------------------------------------------------------------------- R02.2

def _css_code(ctx: Ctx, rows) -> Obj:
    o = mini_code(ctx, [f's{i}' for i in range(len(rows))])
    n = len(QUBITS)
    o.fields['stabilizer_matrix'] = MiniCSR(np.array(rows))
    # the operators the rows are the image of (a property may read them instead of the matrix)
    ops = {}
    for i, r in enumerate(rows):
        ops[f's{i}'] = {QUBITS[q]: {(1, 0): 'X', (0, 1): 'Z', (1, 1): 'Y'}[(r[q], r[n + q])]
                        for q in range(n) if (r[q], r[n + q]) != (0, 0)}
    o.fields['_abstract_ops'] = ops
    o.fields['_Hx'] = MiniCSR.zeros((0, n))
    o.fields['_Hz'] = MiniCSR.zeros((0, n))
    for f in ('_x_indices', '_z_indices', '_is_css'):
        o.fields[f] = None
    return o


def _prop(ctx: Ctx, name: str, code: Obj, args=()):
    ci = ctx.model.cls('StabilizerCode')
    r = ci.find_method(name)
    ctx.need(r is not None, 'R02.2', site_of(ci.module, ci.node), f'{name} not found (vanished anchor)')
    fn = r[1]
    outs = _run_fn(ctx, 'R02.2', ci.module, fn, list(args), self_obj=code, cls=ci,
                   hooks=CodeHooks(code.fields.get('_abstract_ops')))
    return fn, _single(ctx, 'R02.2', ci.module, fn, outs)


def _r022(ctx: Ctx) -> None:
    ci = ctx.model.cls('StabilizerCode')
    mi = ci.module
    #          x: q0 q1 q2 q3 | z: q0 q1 q2 q3
    css = [[1, 1, 0, 0, 0, 0, 0, 0],      # X-type on q0,q1
           [0, 0, 0, 0, 0, 1, 1, 1],      # Z-type on q1,q2,q3
           [0, 0, 0, 1, 0, 0, 0, 0],      # X-type on q3 alone (a user-defined code may have weight-1 checks)
           [0, 0, 0, 0, 1, 0, 0, 0]]      # Z-type on q0 alone
    mixed = [[1, 1, 0, 0, 0, 0, 0, 0],
             [0, 1, 0, 0, 0, 1, 1, 0],    # Y on q1, Z on q2
             [0, 0, 0, 0, 0, 0, 1, 1]]

    def ob(fn, what, got, want, key):
        ctx.ob('R02.2', site_of(mi, fn), what, got == want, f'got {got!r}, expected {want!r}', key=key,
               facts={'got': repr(got)})

    fn, v = _prop(ctx, 'x_indices', _css_code(ctx, css))
    ob(fn, 'x_indices = rows with an X component (CSS matrix)', _aslist(v), [True, False, True, False], 'x_indices|css')
    fn, v = _prop(ctx, 'z_indices', _css_code(ctx, css))
    ob(fn, 'z_indices = rows with a Z component (CSS matrix)', _aslist(v), [False, True, False, True], 'z_indices|css')
    fn, v = _prop(ctx, 'x_indices', _css_code(ctx, mixed))
    ob(fn, 'x_indices on a mixed (non-CSS) matrix', _aslist(v), [True, True, False], 'x_indices|mixed')
    fn, v = _prop(ctx, 'z_indices', _css_code(ctx, mixed))
    ob(fn, 'z_indices on a mixed (non-CSS) matrix', _aslist(v), [False, True, True], 'z_indices|mixed')
    fn, v = _prop(ctx, 'is_css', _css_code(ctx, css))
    ob(fn, 'is_css true when no row is in both masks', bool(v) if v is not None else v, True, 'is_css|css')
    fn, v = _prop(ctx, 'is_css', _css_code(ctx, mixed))
    ob(fn, 'is_css false when a row has X and Z components', bool(v) if not isinstance(v, str) else v, False,
       'is_css|mixed')
    # generators made of Y only: one Pauli letter per generator, yet every row has an X and a Z block
    all_y = [[1, 1, 0, 0, 1, 1, 0, 0],
             [0, 0, 1, 1, 0, 0, 1, 1]]
    fn, v = _prop(ctx, 'is_css', _css_code(ctx, all_y))
    ob(fn, 'is_css false when the generators are made of Y only (every row is in both masks)',
       bool(v) if not isinstance(v, str) else v, False, 'is_css|all-Y')
    fn, v = _prop(ctx, 'Hx', _css_code(ctx, css))
    ob(fn, 'Hx = X-rows of the X block', _aslist(v), [[1, 1, 0, 0], [0, 0, 0, 1]], 'Hx|css')
    fn, v = _prop(ctx, 'Hz', _css_code(ctx, css))
    ob(fn, 'Hz = Z-rows of the Z block', _aslist(v), [[0, 1, 1, 1], [1, 0, 0, 0]], 'Hz|css')
    fn, v = _prop(ctx, 'Hx', _css_code(ctx, mixed))
    ob(fn, 'Hx refuses non-CSS codes', v, 'raises ValueError', 'Hx|mixed')
    fn, v = _prop(ctx, 'Hz', _css_code(ctx, mixed))
    ob(fn, 'Hz refuses non-CSS codes', v, 'raises ValueError', 'Hz|mixed')
    syn = np.array([7, 8, 9, 10])
    fn, v = _prop(ctx, 'extract_x_syndrome', _css_code(ctx, css), [syn])
    ob(fn, 'extract_x_syndrome picks the X-rows', _aslist(v), [7, 9], 'extract_x_syndrome')
    fn, v = _prop(ctx, 'extract_z_syndrome', _css_code(ctx, css), [syn])
    ob(fn, 'extract_z_syndrome picks the Z-rows', _aslist(v), [8, 10], 'extract_z_syndrome')


# ------------------------------------------------------------------- R02.3

ORDER_ROOTS = ('get_qubit_coordinates', 'get_stabilizer_coordinates', 'get_logicals_x', 'get_logicals_z',
               'qubit_coordinates', 'stabilizer_coordinates', 'qubit_index', 'stabilizer_index',
               'stabilizer_matrix', 'logicals_x', 'logicals_z', 'get_stabilizer', 'to_bsf', 'from_bsf')
_UNORDERED_CALLS = {'set', 'frozenset'}
_FS_CALLS = {'os.listdir', 'listdir', 'glob', 'glob.glob', 'iglob', 'glob.iglob', 'os.scandir', 'scandir'}
_FS_METHODS = {'rglob', 'glob', 'iterdir'}


def _is_set_expr(e: ast.AST, setvars: set) -> bool:
    if isinstance(e, (ast.Set, ast.SetComp)):
        return True
    if isinstance(e, ast.Call):
        f = e.func
        if isinstance(f, ast.Name) and f.id in _UNORDERED_CALLS:
            return True
        try:
            d = ast.unparse(f)
        except Exception:
            d = ''
        if d in _FS_CALLS:
            return True
        if isinstance(f, ast.Attribute) and f.attr in _FS_METHODS:
            return True
        if isinstance(f, ast.Attribute) and f.attr in ('union', 'intersection', 'difference', 'symmetric_difference',
                                                       'copy') and _is_set_expr(f.value, setvars):
            return True
        if isinstance(f, ast.Attribute) and f.attr in ('keys', 'values', 'items') \
                and isinstance(f.value, ast.Name) and f.value.id in setvars:
            return True
    if isinstance(e, ast.Name) and e.id in setvars:
        return True
    if isinstance(e, ast.Attribute) and ('.' + e.attr) in setvars:      # class-level set reached as self.X / cls.X / C.X
        return True
    if isinstance(e, ast.BinOp) and isinstance(e.op, (ast.BitOr, ast.BitAnd, ast.Sub, ast.BitXor)):
        return _is_set_expr(e.left, setvars) and _is_set_expr(e.right, setvars)
    return False


def _elem_kind(e: ast.AST) -> str:
    """'str' if the set's elements are visibly strings, else 'unknown'."""
    if isinstance(e, ast.Set):
        if any(isinstance(x, ast.Constant) and isinstance(x.value, str) for x in e.elts):
            return 'str'
    if isinstance(e, ast.Call) and e.args:
        a = e.args[0]
        elt = None
        if isinstance(a, (ast.GeneratorExp, ast.ListComp, ast.SetComp)):
            elt = a.elt
        elif isinstance(a, (ast.List, ast.Tuple)):
            if any(isinstance(x, ast.Constant) and isinstance(x.value, str) for x in a.elts):
                return 'str'
        if elt is not None:
            if isinstance(elt, ast.Constant) and isinstance(elt.value, str):
                return 'str'
            if isinstance(elt, ast.JoinedStr):
                return 'str'
            if isinstance(elt, ast.Call) and isinstance(elt.func, ast.Attribute) \
                    and elt.func.attr in ('stabilizer_type', 'qubit_axis', 'format', 'join', 'id', 'label'):
                return 'str'
            if isinstance(elt, ast.Call) and isinstance(elt.func, ast.Name) and elt.func.id in ('str', 'repr'):
                return 'str'
    if isinstance(e, ast.SetComp):
        if isinstance(e.elt, (ast.JoinedStr,)) or (isinstance(e.elt, ast.Constant) and isinstance(e.elt.value, str)):
            return 'str'
    if isinstance(e, ast.Call):
        try:
            d = ast.unparse(e.func)
        except Exception:
            d = ''
        if d in _FS_CALLS or (isinstance(e.func, ast.Attribute) and e.func.attr in _FS_METHODS):
            return 'str'
    return 'unknown'


def hash_ordered_uses(fn: ast.AST, outer: dict = None):
    """Yield (node, source expr, elem kind) for order-sensitive consumption of a
    hash-ordered container inside function `fn`.  `outer` maps names defined
    outside the function (module globals; '.attr' for class-level attributes)
    to their set-valued defining expressions."""
    setvars = set(outer or ())
    src_of = dict(outer or {})
    changed = True
    body_nodes = list(walk_no_nested(fn))
    while changed:
        changed = False
        for n in body_nodes:
            if isinstance(n, ast.Assign) and len(n.targets) == 1 and isinstance(n.targets[0], ast.Name):
                if _is_set_expr(n.value, setvars) and n.targets[0].id not in setvars:
                    setvars.add(n.targets[0].id)
                    src_of[n.targets[0].id] = n.value
                    changed = True

    def src(e):
        if isinstance(e, ast.Name) and e.id in src_of:
            return src_of[e.id]
        if isinstance(e, ast.Attribute) and ('.' + e.attr) in src_of:
            return src_of['.' + e.attr]
        return e
    for n in body_nodes:
        if isinstance(n, ast.For) and _is_set_expr(n.iter, setvars):
            yield n, src(n.iter), _elem_kind(src(n.iter))
        if isinstance(n, (ast.ListComp, ast.GeneratorExp, ast.DictComp, ast.SetComp)):
            for g in n.generators:
                if _is_set_expr(g.iter, setvars):
                    yield n, src(g.iter), _elem_kind(src(g.iter))
        if isinstance(n, ast.Call) and isinstance(n.func, ast.Name) and n.func.id in ('list', 'tuple', 'enumerate',
                                                                                      'iter', 'next', 'zip') \
                and n.args and _is_set_expr(n.args[0], setvars):
            yield n, src(n.args[0]), _elem_kind(src(n.args[0]))
        if isinstance(n, ast.Call) and isinstance(n.func, ast.Attribute) and n.func.attr == 'pop' \
                and not n.args and _is_set_expr(n.func.value, setvars):
            yield n, src(n.func.value), _elem_kind(src(n.func.value))
        if isinstance(n, ast.Call):
            try:
                d = ast.unparse(n.func)
            except Exception:
                d = ''
            if d in ('np.array', 'numpy.array', 'np.asarray') and n.args and _is_set_expr(n.args[0], setvars):
                yield n, src(n.args[0]), _elem_kind(src(n.args[0]))
        if isinstance(n, ast.Call) and isinstance(n.func, ast.Name) and n.func.id in ('id', 'hash'):
            yield n, n, 'str'


def _order_functions(ctx: Ctx):
    """All functions that define index order: ORDER_ROOTS in StabilizerCode and
    every subclass, plus methods/functions of the same module they call."""
    m = ctx.model
    base = m.cls('StabilizerCode')
    out = {}
    for ci in [base] + m.subclasses(base):
        work = [(ci, name) for name in ORDER_ROOTS if name in ci.methods]
        seen = set()
        while work:
            c, name = work.pop()
            if (c.qualname, name) in seen:
                continue
            seen.add((c.qualname, name))
            fn = c.methods[name]
            out[(c.qualname, name)] = (c, fn)
            for n in ast.walk(fn):
                if isinstance(n, ast.Call) and isinstance(n.func, ast.Attribute) \
                        and isinstance(n.func.value, ast.Name) and n.func.value.id == 'self':
                    r = ci.find_method(n.func.attr)
                    if r and r[0].module.name.startswith('panqec.codes'):
                        work.append((r[0], n.func.attr))
                elif isinstance(n, ast.Call) and isinstance(n.func, ast.Name) and n.func.id in c.module.functions:
                    fn2 = c.module.functions[n.func.id]
                    out[(c.module.name, n.func.id)] = (c, fn2)
    return out


def _outer_sets(m, ci, fn) -> dict:
    """Set-valued names visible in `fn` from outside it: module-level constants (also imported ones) and
    class-level attributes of the class and its bases."""
    out = {}
    local = {n.id for n in ast.walk(fn) if isinstance(n, ast.Name) and isinstance(n.ctx, ast.Store)}
    local |= {a.arg for a in ast.walk(fn) if isinstance(a, ast.arg)}
    for n in ast.walk(fn):
        if isinstance(n, ast.Name) and isinstance(n.ctx, ast.Load) and n.id not in local and n.id not in out:
            r = m.resolve(ci.module, n.id)
            if r and r[0] == 'value' and _is_set_expr(r[2], set()):
                out[n.id] = r[2]
    for c in ci.mro or [ci]:
        for a, v in c.attrs.items():
            if _is_set_expr(v, set()) and ('.' + a) not in out:
                out['.' + a] = v
    return out


def _r023(ctx: Ctx) -> None:
    m = ctx.model
    funcs = _order_functions(ctx)
    n_classes = len({q for (q, _) in funcs})
    ctx.need(len(funcs) >= 60, 'R02.3', 'panqec/codes', f'only {len(funcs)} order-defining functions found')
    tainted = 0
    for (q, name), (ci, fn) in sorted(funcs.items()):
        uses = list(hash_ordered_uses(fn, _outer_sets(m, ci, fn)))
        viol = [u for u in uses if u[2] == 'str']
        und = [u for u in uses if u[2] != 'str']
        for node, srcexpr, kind in und:
            ctx.undecide(f'{q}.{name}: iteration over a set whose element type is not visible '
                         f'({norm_stmt(srcexpr, 80)}); hash order of ints/int tuples is process independent')
        ok = not viol
        if viol:
            tainted += 1
        ctx.ob('R02.3', site_of(ci.module, viol[0][0] if viol else fn),
               f'{q.split(".")[-1]}.{name}: no hash-ordered container reaches index order', ok,
               '' if ok else f'order-sensitive use of a hash-ordered container of strings/paths: '
                             f'{norm_stmt(viol[0][0], 100)} (source {norm_stmt(viol[0][1], 80)}); order changes '
                             f'with PYTHONHASHSEED / the file system',
               key=f'{q.split(".")[-1]}.{name}|hash-order')
    # positive control (built in, so that it does not depend on how the repository writes stabilizer_types today): a list
    # made from a set of stabilizer-type strings must be recognised as hash-ordered
    demo = ast.parse("def stabilizer_types(self):\n    if self._t is None:\n        self._t = list(set(\n"
                     "            self.stabilizer_type(location) for location in self.stabilizer_coordinates))\n"
                     "    return self._t\n").body[0]
    uses = list(hash_ordered_uses(demo))
    if not any(k == 'str' for _, _, k in uses):
        raise AnalysisError('R02.3', 'pqv/rules/c02.py',
                            'positive control failed: list(set(<stabilizer_type strings>)) not recognised as hash-ordered')
    ctx.extra['r023_functions'] = len(funcs)
    ctx.extra['r023_positive_control'] = 'StabilizerCode.stabilizer_types recognised (not an index sink)'
    # stabilizer_types itself must not feed index order
    for (q, name), (ci, fn) in funcs.items():
        for n in ast.walk(fn):
            if isinstance(n, ast.Attribute) and n.attr == 'stabilizer_types':
                ctx.ob('R02.3', site_of(ci.module, n), f'{q.split(".")[-1]}.{name} does not iterate stabilizer_types',
                       False, 'stabilizer_types is a hash-ordered list of strings (order varies with '
                              'PYTHONHASHSEED); it must not define qubit/stabilizer/logical order',
                       key=f'{q.split(".")[-1]}.{name}|stabilizer_types')


# ------------------------------------------------------------------- R02.4

def _r024(ctx: Ctx) -> None:
    """Derived indices of StabilizerCode on an abstract code defined through the coordinate API."""
    from .c08 import _HDeform, QS, STABS, LOGX, LOGZ
    from ..interp import Env, BoundMethod
    m = ctx.model
    ci = m.cls('StabilizerCode')
    mi = ci.module
    init = ci.find_method('__init__')

    def read(attr):
        hooks = _HDeform()
        it = Interp(m, hooks)

        def thunk():
            o = Obj(ci, 'code')
            it.call_closure(Closure(init[1], mi, ci), [2, 2], {}, init[1], self_obj=o)
            return it.getattr(o, attr, init[1])
        outs = guard('R02.4', mi, init[1])(lambda: it.explore(thunk))
        ctx.need(len(outs) == 1, 'R02.4', site_of(mi, ci.node), f'{attr}: {outs!r}')
        return outs[0].value if outs[0].kind == 'return' else f'raises {outs[0].exc}'

    def bsf(op):
        v = [0] * (2 * len(QS))
        for q, p in op.items():
            i = QS.index(q)
            if p in 'XY':
                v[i] = 1
            if p in 'YZ':
                v[len(QS) + i] = 1
        return v
    want = {
        'qubit_coordinates': list(QS), 'stabilizer_coordinates': list(STABS),
        'qubit_index': {q: i for i, q in enumerate(QS)}, 'stabilizer_index': {s_: i for i, s_ in enumerate(STABS)},
        'n': len(QS), 'n_stabilizers': len(STABS), 'k': len(LOGX),
        'logicals_x': [bsf(o) for o in LOGX], 'logicals_z': [bsf(o) for o in LOGZ],
        'stabilizer_matrix': [bsf(STABS[s_]) for s_ in STABS],
        'size': (2, 2),
    }
    for attr, w in want.items():
        r = ci.find_method(attr)
        ctx.need(r is not None, 'R02.4', site_of(mi, ci.node), f'StabilizerCode.{attr} not found')
        v = _aslist(read(attr))
        if isinstance(v, (int, np.integer)):
            v = int(v)
        ctx.ob('R02.4', site_of(mi, r[1]), f'StabilizerCode.{attr} on a code defined by coordinate lists', v == w,
               f'got {v!r}, expected {w!r} (indices are positions in the coordinate lists; rows follow that order)',
               key=f'StabilizerCode.{attr}|derived', facts=repr(v))


def run(ctx: Ctx) -> None:
    ctx.rule('R02.5', 'get_stabilizer/logicals hand out fresh values and derived data are written only by their own '
                      'guarded initialisation', floor=100)
    ctx.rule('R02.4', 'derived indices (qubit_index, stabilizer_index, n, k, logicals, matrix) follow the coordinate lists', floor=11)
    ctx.rule('R02.1', 'matrix rows / to_bsf / from_bsf / site are the BSF image and its inverse', floor=6)
    ctx.rule('R02.2', 'row masks, Hx/Hz blocks, syndrome parts and is_css take the right block and mask', floor=12)
    ctx.rule('R02.3', 'no hash-ordered container defines qubit, stabilizer or logical order', floor=60)
    ctx.trust('scipy csr slicing / boolean row indexing / getnnz semantics as modelled by pqv.symnp.MiniCSR',
              'CPython hashes ints and tuples of ints deterministically (no per-process randomisation)')
    with ctx.part():
        stabilizer_code_tables(ctx, 'R02.1')
    with ctx.part():
        _r022(ctx)
    with ctx.part():
        _r023(ctx)
    with ctx.part():
        _r024(ctx)
    from .c06 import code_state_rule, frozen_rule
    with ctx.part():
        frozen_rule(ctx, 'R02.5', 'panqec.codes')
    with ctx.part():
        code_state_rule(ctx, 'R02.5')
    with ctx.part():
        # what a code object answers is computed from that object: nothing shared between objects (a module-level table,
        # a default argument) is written by the members of the code classes, except a memo whose key determines the value
        from .c06 import global_state_rule
        base = ctx.model.cls('StabilizerCode')
        entries = [fn for c in [base] + list(ctx.model.subclasses(base)) for fn in c.methods.values()]
        global_state_rule(ctx, 'R02.5', entries, 'a code object is queried')
