"""C18 - error probabilities multiply per qubit and normalise."""
from __future__ import annotations

import ast

from ..domains import BITS, PAULIS, Poly, Sym
from ..interp import (NOT_HANDLED, TOP, BoundMethod, Closure, Env, Ext, Hooks, Interp, Obj, SliceV,
                      guard, site_of, truth)
from ..model import AnalysisError, norm_stmt
from ..nphooks import Tagged, elementwise, np_name
from ..report import Ctx

EXPLANATION = (
    'Abstract interpretation of BaseErrorModel.error_probability per qubit: the error vector is '
    'replaced by the bit pair (x,z) of one qubit, the channel tuple by four symbols, and the function is '
    'interpreted for all four bit pairs and both values of log_output. R18.1: the per-qubit factor must be '
    'exactly the symbol of the Pauli encoded by (x,z) (masks partition {I,X,Y,Z} and are aligned with '
    'their probabilities). R18.2: log form is sum(log(v)) and plain form prod(v) of the same vector. '
    'R18.3: SplittingSimulation.get_next_error evaluates old and new error in log form with the same '
    'model/code/rate, accepts with exp(min(0,new-old)), and the proposal writes the bit pair of a Pauli '
    'whose probability was tested to be non-zero.'
)


class _ErrVec:
    """The error vector seen at one qubit: halves are the bits x and z."""

    def __init__(self, x, z, nq, name='error'):
        self.x, self.z, self.nq, self.name = x, z, nq, name

    def pqv_getitem(self, idx):
        if isinstance(idx, SliceV) and idx.step is None:
            if idx.lo is None and idx.hi == self.nq:
                return self.x
            if idx.lo == self.nq and idx.hi is None:
                return self.z
        return TOP


class _Buf:
    """An array allocated with np.zeros/np.empty, read at the generic qubit: a cell that in-place operations and
    `out=` arguments can update."""

    def __init__(self, value=0):
        self.value = value

    def __repr__(self):
        return f'buf({self.value!r})'

    def _v(self, o):
        return o.value if isinstance(o, _Buf) else o

    def __add__(self, o): return self.value + self._v(o)
    def __radd__(self, o): return self._v(o) + self.value
    def __sub__(self, o): return self.value - self._v(o)
    def __rsub__(self, o): return self._v(o) - self.value
    def __mul__(self, o): return self.value * self._v(o)
    def __rmul__(self, o): return self._v(o) * self.value

    def __iadd__(self, o):
        self.value = self.value + self._v(o)
        return self

    def __imul__(self, o):
        self.value = self.value * self._v(o)
        return self

    def pqv_compare(self, op, other, swapped):
        # an elementwise test of the cell against a number: a mask the rule can name (which entries it selects depends
        # on the probabilities, the FORM sum(where(mask, log v, 0)) is what R18.2 judges)
        if isinstance(other, (int, float)) and not isinstance(other, bool):
            return Tagged('mask', type(op).__name__, self.value, other, swapped)
        return TOP


class _H181(Hooks):
    def __init__(self, syms, nq):
        self.syms = syms
        self.nq = nq

    def compare(self, it, op, a, b, node):
        # an elementwise test of the per-qubit vector against a number: a mask the rule can name (see _Buf.pqv_compare)
        if isinstance(op, (ast.Gt, ast.GtE, ast.Lt, ast.LtE, ast.NotEq, ast.Eq)):
            for x, y, sw in ((a, b, False), (b, a, True)):
                if isinstance(x, (Poly, Tagged, _Buf)) and isinstance(y, (int, float)) and not isinstance(y, bool):
                    return Tagged('mask', type(op).__name__, x.value if isinstance(x, _Buf) else x, y, sw)
        return NOT_HANDLED

    def attr(self, it, obj, name, node):
        if isinstance(obj, Sym) and obj.name == 'code' and name == 'n':
            return self.nq
        return NOT_HANDLED

    def call(self, it, func, args, kwargs, node, env):
        if isinstance(func, BoundMethod) and func.closure.fn.name == 'probability_distribution':
            self.dist_args = (args[0] if args else kwargs.get('code'), args[1] if len(args) > 1 else kwargs.get('error_rate'))
            return self.syms
        n = np_name(func)
        if n:
            if n in ('zeros', 'zeros_like', 'empty', 'empty_like'):
                return _Buf(0)
            kwargs = dict(kwargs)
            out, where = kwargs.pop('out', None), kwargs.pop('where', None)
            args = [a.value if isinstance(a, _Buf) else a for a in args]
            r = elementwise(n, args, kwargs)
            if r is NOT_HANDLED:
                r = TOP
            if out is not None or where is not None:
                if not isinstance(out, _Buf):
                    raise AnalysisError('R18.2', site_of(env.module, node), f'numpy.{n} with out={out!r}: target not tracked')
                # elements not selected by `where` keep what the buffer held
                out.value = r if where is None else Tagged('where', where, r, out.value)
                return out
            return r
        return NOT_HANDLED


def _r181_182(ctx: Ctx) -> None:
    m = ctx.model
    ci, fn = m.method('BaseErrorModel', 'error_probability')
    mi = ci.module
    site = site_of(mi, fn)
    params = [a.arg for a in fn.args.args]
    ctx.need(params[:5] == ['self', 'error', 'code', 'error_rate', 'log_output'], 'R18.1', site,
             f'unexpected signature {params}')
    nq = Sym('n')
    syms = tuple(Poly.var(n) for n in ('pi', 'px', 'py', 'pz'))
    want = dict(zip(PAULIS, syms))
    results = {}
    for pauli, (x, z) in BITS.items():
        for log_output in (False, True):
            it = Interp(m, _H181(syms, nq))
            self_obj = Obj(ci, 'error_model')
            clo = Closure(fn, mi, ci)

            def thunk():
                return it.call_closure(clo, [_ErrVec(x, z, nq), Sym('code'), Sym('p'), log_output], {},
                                       fn, self_obj=self_obj)
            outs = guard('R18.1', mi, fn)(lambda: it.explore(thunk))
            ctx.need(len(outs) == 1 and outs[0].kind == 'return', 'R18.1', site,
                     f'expected one straight-line path for (x,z)={(x, z)}, got {outs}')
            da = getattr(it.hooks, 'dist_args', None)
            if (pauli, log_output) == ('I', False):
                ctx.ob('R18.1', site, 'error_probability asks the channel for (code, error_rate) of its own arguments',
                       da == (Sym('code'), Sym('p')), f'probability_distribution called with {da!r}; the arguments are '
                                                      f'(code, error_rate)', key='BaseErrorModel.error_probability|dist-args')
            v_ = outs[0].value
            results[(pauli, log_output)] = v_.value if isinstance(v_, _Buf) else v_

    table = {}
    for pauli in PAULIS:
        v = results[(pauli, False)]
        inner = v.args[0] if isinstance(v, Tagged) and v.tag == 'prod' else None
        table[pauli] = repr(inner)
        ok = isinstance(inner, Poly) and inner == want[pauli]
        ctx.ob('R18.1', site, f'BaseErrorModel.error_probability factor for a qubit carrying {pauli}', ok,
               f'per-qubit factor for bits {BITS[pauli]} is {inner!r}, expected {want[pauli]!r} '
               f'(masks must partition I,X,Y,Z and be aligned with their probabilities)',
               key=f'BaseErrorModel.error_probability|factor[{pauli}]', facts={'factor': repr(inner)})
    for pauli in PAULIS:
        plain = results[(pauli, False)]
        logv = results[(pauli, True)]
        ok = (isinstance(plain, Tagged) and plain.tag == 'prod'
              and isinstance(logv, Tagged) and logv.tag == 'sum'
              and isinstance(logv.args[0], Tagged) and logv.args[0].tag == 'log'
              and logv.args[0].args[0] == plain.args[0])
        ctx.ob('R18.2', site, f'log/product forms agree on a qubit carrying {pauli}', ok,
               f'plain={plain!r} log={logv!r}; expected prod(v) and sum(log(v)) of the same v',
               key=f'BaseErrorModel.error_probability|forms[{pauli}]',
               facts={'plain': repr(plain), 'log': repr(logv)})


# --------------------------------------------------------------------- R18.3

class _T(Tagged):
    """Uninterpreted terms with arithmetic kept symbolic (addition is commutative)."""

    def __add__(self, o):
        return _T('add', *sorted((self, o), key=repr))

    __radd__ = __add__

    def __mod__(self, o):
        return _T('mod', self, o)

    def __floordiv__(self, o):
        return _T('floordiv', self, o)

    def __sub__(self, o):
        return _T('sub', self, o)

    def __rsub__(self, o):
        return _T('sub', o, self)

    def __mul__(self, o):
        return _T('mul', *sorted((self, o), key=repr))

    __rmul__ = __mul__

    def __xor__(self, o):
        return _T('xor', *sorted((self, o), key=repr))

    __rxor__ = __xor__

    def __hash__(self):
        return Tagged.__hash__(self)


class _Tst:
    """Outcome of a test `p_P[e] <op> c` on this path (decided once, recorded in the trace)."""

    def __init__(self, it, name, op, val):
        self.it, self.name, self.op, self.val = it, name, op, val

    def pqv_truth(self):
        r = self.it.choose(2) == 0
        self.it.trace.append(('cmp-out', self.name, self.op, self.val, r))
        return r


class _LogP:
    def __init__(self, which, model, code, rate, log_output):
        self.which, self.model, self.code, self.rate, self.log_output = which, model, code, rate, log_output

    def __repr__(self):
        return f'logP({self.which})'

    def __sub__(self, o):
        if isinstance(o, _LogP):
            return Tagged('diff', self, o)
        return TOP

    def pqv_compare(self, op, other, swapped):
        return TOP


class _Q:
    """acceptance probability value"""

    def __init__(self, inner):
        self.inner = inner

    def __rsub__(self, o):
        if o == 1:
            return Tagged('1-q', self)
        return TOP

    def __repr__(self):
        return f'q[{self.inner!r}]'


class _H183(Hooks):
    def __init__(self, nq):
        self.nq = nq
        self.events = {p: Sym('p' + p.lower()) for p in PAULIS}

    def attr(self, it, obj, name, node):
        if isinstance(obj, Sym) and obj.name == 'code':
            if name == 'n':
                return self.nq
            return Tagged('code.' + name)
        if isinstance(obj, Sym) and obj.name == 'decoder' and name == 'decode':
            return Tagged('decoder.decode')
        return NOT_HANDLED

    def subscript(self, it, obj, idx, node, env):
        if isinstance(obj, Sym) and obj.name in ('ppi', 'ppx', 'ppy', 'ppz'):
            return Tagged('elem', obj, idx)
        return NOT_HANDLED

    def compare(self, it, op, a, b, node):
        if isinstance(a, Tagged) and a.tag == 'elem':
            it.trace.append(('cmp', node, a.args[0], type(op).__name__, b, a.args[1]))
            return _Tst(it, a.args[0].name, type(op).__name__, b)
        return NOT_HANDLED

    def store_subscript(self, it, obj, idx, value, node, env):
        if isinstance(obj, Tagged) and obj.tag == 'new_edge':
            if isinstance(idx, (list, tuple)):          # fancy index: one store per listed position
                for i_ in idx:
                    it.trace.append(('store', i_, value))
            else:
                it.trace.append(('store', idx, value))
            return None
        return NOT_HANDLED

    def call(self, it, func, args, kwargs, node, env):
        if isinstance(func, BoundMethod):
            nm = func.closure.fn.name
            if nm == 'probability_distribution':
                it.trace.append(('dist-args', args[0] if args else kwargs.get('code'),
                                 args[1] if len(args) > 1 else kwargs.get('error_rate')))
                return tuple(Sym('p' + self.events[p].name[1:]) if False else Sym('pp' + p.lower())
                             for p in PAULIS)
            if nm == 'error_probability':
                a = list(args) + [None] * 4
                lo = kwargs.get('log_output', a[3] if len(args) > 3 else False)
                it.trace.append(('errprob', args[0], func.obj, args[1] if len(args) > 1 else kwargs.get('code'),
                                 args[2] if len(args) > 2 else kwargs.get('error_rate'), lo))
                return _LogP(args[0], func.obj, a[1], a[2], lo)
            if nm == 'measure_syndrome':
                return _T('syndrome', args[0] if args else None)
            if nm in ('is_logical_error', 'in_codespace', 'is_success'):
                it.trace.append(('classify', nm, args[0] if args else None))
                return TOP
            if nm == 'decode':
                return _T('correction', args[0] if args else None)
        if isinstance(func, Tagged) and func.tag == 'decoder.decode':
            return _T('correction', args[0] if args else None)
        if isinstance(func, Tagged) and func.tag == 'code.measure_syndrome':
            return _T('syndrome', args[0] if args else None)
        if isinstance(func, Tagged) and func.tag in ('code.is_logical_error', 'code.in_codespace', 'code.is_success'):
            it.trace.append(('classify', func.tag[5:], args[0] if args else None))
            return TOP
        n = np_name(func)
        if n == 'zeros':
            it.trace.append(('zeros', args[0] if args else kwargs.get('shape')))
            return Tagged('new_edge')
        if n == 'zeros_like' and args and isinstance(args[0], _PrevErr):
            it.trace.append(('zeros', _KN(2)))          # as long as the error it is added to
            return Tagged('new_edge')
        if n == 'random.choice':
            it.trace.append(('choice', args, kwargs))
            if args and isinstance(args[0], list) and all(isinstance(x, str) for x in args[0]):
                if not args[0]:
                    return TOP
                return args[0][it.choose(len(args[0]), node)]
            if isinstance(args[0], list) and 'p' in kwargs:
                return TOP
            return _Idx(self.nq)
        if n == 'exp' and len(args) == 1:
            return _Q(args[0])
        if n:
            return TOP
        if isinstance(func, Ext) and func.name == 'builtins.min':
            return Tagged('min', *args)
        return NOT_HANDLED


class _Idx:
    def __init__(self, nq, off=False):
        self.nq, self.off = nq, off

    def __add__(self, o):
        if o == self.nq and not self.off:
            return _Idx(self.nq, True)
        return TOP

    __radd__ = __add__

    def __eq__(self, o):
        return isinstance(o, _Idx) and o.off == self.off

    def __hash__(self):
        return hash(('_Idx', self.off))

    def __repr__(self):
        return 'n+e_index' if self.off else 'e_index'


class _PrevErr:
    def __repr__(self):
        return 'previous_error'

    def __add__(self, o):
        if isinstance(o, Tagged) and o.tag == 'new_edge':
            return Tagged('prev+edge')
        return TOP

    __radd__ = __add__


class _N(Sym):
    """The qubit count, with the multiples k*n needed for vector lengths."""

    def __mul__(self, o):
        return _KN(o) if isinstance(o, int) and not isinstance(o, bool) else NotImplemented

    __rmul__ = __mul__

    def __add__(self, o):
        return _KN(2) if isinstance(o, _N) else NotImplemented

    __hash__ = Sym.__hash__


class _KN:
    def __init__(self, k):
        self.k = k

    def __repr__(self):
        return f'{self.k}*n'


def _r183(ctx: Ctx) -> None:
    m = ctx.model
    ci, fn = m.method('SplittingSimulation', 'get_next_error')
    mi = ci.module
    site = site_of(mi, fn)
    nq = _N('n')
    hooks = _H183(nq)
    it = Interp(m, hooks)
    prev = _PrevErr()

    class ModT(Tagged):
        def __mod__(self, o):
            return Tagged('new_error') if self.tag == 'prev+edge' and o == 2 else TOP
    # (previous_error + new_edge) % 2 -> new_error
    Tagged.__mod__ = lambda self, o: Tagged('new_error') if (self.tag == 'prev+edge' and o == 2) else TOP

    def fresh():
        pass

    def thunk():
        self_obj = Obj(ci, 'sim')
        self_obj.fields['code'] = Sym('code')
        em = Obj(m.cls('BaseErrorModel'), 'error_model')
        self_obj.fields['error_model'] = em
        return it.call_closure(Closure(fn, mi, ci), [Sym('decoder'), Sym('rate'), prev], {}, fn,
                               self_obj=self_obj)
    outs = guard('R18.3', mi, fn)(lambda: it.explore(thunk))
    rets = [o for o in outs if o.kind == 'return']
    ctx.need(rets, 'R18.3', site, 'no returning path found')

    # (a) both likelihood evaluations use log form, same model/code/rate, on previous and new error
    ok_a, detail_a = True, ''
    seen_calls = set()
    for o in rets:
        calls = [t for t in o.trace if t[0] == 'errprob']
        kinds = {}
        for _, err, model_obj, code, rate, lo in calls:
            seen_calls.add((repr(err), repr(code), repr(rate), repr(lo)))
            which = 'prev' if err is prev else ('new' if isinstance(err, Tagged) and err.tag == 'new_error' else '?')
            kinds[which] = (model_obj, code, rate, lo)
        if set(kinds) != {'prev', 'new'}:
            ok_a, detail_a = False, f'error_probability calls on {sorted(kinds)}; expected previous and new error'
            break
        (m1, c1, r1, l1), (m2, c2, r2, l2) = kinds['prev'], kinds['new']
        if not (l1 is True and l2 is True):
            ok_a, detail_a = False, f'log_output flags are {l1!r} and {l2!r}; both must be True'
            break
        if not (m1 is m2 and c1 == c2 and r1 == r2 and r1 == Sym('rate') and c1 == Sym('code')):
            ok_a, detail_a = False, 'old and new likelihood use different model/code/error rate'
            break
    ctx.ob('R18.3', site, 'get_next_error: likelihoods of old and new error in log form at the same rate',
           ok_a, detail_a, key='SplittingSimulation.get_next_error|loglik', facts=sorted(seen_calls))

    # (b) acceptance probability exp(min(0, new - old)) used as P(b=1)
    ok_b, detail_b, fact_b = False, 'no Bernoulli draw np.random.choice([0,1], p=[1-q,q]) found', None
    for o in rets:
        for t in o.trace:
            if t[0] == 'choice' and 'p' in t[2]:
                opts, probs = t[1][0], t[2]['p']
                fact_b = (repr(opts), repr(probs))
                if opts == [0, 1] and isinstance(probs, list) and len(probs) == 2:
                    q = probs[1]
                    good = (isinstance(q, _Q) and isinstance(q.inner, Tagged) and q.inner.tag == 'min'
                            and 0 in [a for a in q.inner.args if isinstance(a, int)])
                    if good:
                        d = [a for a in q.inner.args if isinstance(a, Tagged) and a.tag == 'diff']
                        good = (len(d) == 1 and isinstance(d[0].args[0].which, Tagged)
                                and d[0].args[0].which.tag == 'new_error' and d[0].args[1].which is prev
                                and probs[0] == Tagged('1-q', q))
                    ok_b = bool(good)
                    if not ok_b:
                        detail_b = f'acceptance draw is choice({opts!r}, p={probs!r}); expected p=[1-q, q] with ' \
                                   f'q=exp(min(0, logP(new)-logP(previous)))'
                else:
                    detail_b = f'acceptance draw has options {opts!r}'
                break
        if fact_b:
            break
    ctx.ob('R18.3', site, 'get_next_error: Metropolis acceptance exp(min(0, logP(new)-logP(old)))',
           ok_b, detail_b, key='SplittingSimulation.get_next_error|accept', facts=fact_b)

    das = {(repr(t[1]), repr(t[2])) for o in rets for t in o.trace if t[0] == 'dist-args'}
    ctx.ob('R18.3', site, 'get_next_error: proposal probabilities come from the channel of (self.code, error_rate)',
           das == {(repr(Sym('code')), repr(Sym('rate')))}, f'probability_distribution called with {sorted(das)}',
           key='SplittingSimulation.get_next_error|dist-args')

    # (e) what is classified after an accepted draw is the residual (correction + new error) mod 2, the correction
    # being the decoder's answer to the syndrome of the new error
    new_err = Tagged('new_error')
    want_res = _T('mod', _T('add', *sorted((_T('correction', _T('syndrome', new_err)), new_err), key=repr)), 2)
    cls_args = [t[2] for o in rets for t in o.trace if t[0] == 'classify']
    ctx.need(cls_args, 'R18.3', site, 'get_next_error: no classification of the residual found')
    lost = [a for a in cls_args if a is TOP or 'TOP' in repr(a)]
    if lost:
        raise AnalysisError('R18.3', site, f'get_next_error: classified vector not tracked ({lost[0]!r})')
    bad_res = [a for a in cls_args if not (a == want_res or a == _T('xor', *sorted((_T('correction', _T('syndrome', new_err)), new_err), key=repr)))]
    ctx.ob('R18.3', site, 'get_next_error: the vector classified is (decode(syndrome(new error)) + new error) mod 2',
           not bad_res, f'classifies {bad_res[0]!r}, expected {want_res!r}' if bad_res else '',
           key='SplittingSimulation.get_next_error|residual', facts=sorted({repr(a) for a in cls_args}))

    # (d) what is returned is (error, log-likelihood OF THAT error) on every path: the caller records the number and
    # may hand it back as the likelihood of the current error
    ok_d, detail_d, pairs = True, '', set()
    for o in rets:
        v = o.value
        if not (isinstance(v, tuple) and len(v) == 2):
            raise AnalysisError('R18.3', site, f'get_next_error returns {v!r}, expected (error, log-likelihood)')
        err, lp = v

        def name(e):
            return 'previous' if e is prev else ('new' if isinstance(e, Tagged) and e.tag == 'new_error' else None)
        if name(err) is None or not isinstance(lp, _LogP) or name(lp.which) is None:
            raise AnalysisError('R18.3', site, f'get_next_error returns ({err!r}, {lp!r}): not tracked')
        pairs.add((name(err), name(lp.which)))
        if name(err) != name(lp.which):
            ok_d, detail_d = False, (f'a path returns the {name(err)} error together with the log-likelihood of the '
                                     f'{name(lp.which)} error: the recorded likelihood (and any later acceptance ratio '
                                     f'computed from it) does not belong to the current error')
    ctx.ob('R18.3', site, 'get_next_error: the returned log-likelihood is that of the returned error', ok_d, detail_d,
           key='SplittingSimulation.get_next_error|pair', facts=sorted(pairs))

    # (c) the proposal writes exactly the bit pair of the chosen Pauli, offered only if its probability != 0
    per_pauli = {}
    for o in rets:
        chosen = None
        offered = None
        for t in o.trace:
            if t[0] == 'choice' and t[1] and isinstance(t[1][0], list) and all(isinstance(x, str) for x in t[1][0]):
                offered = list(t[1][0])
        # which pauli was chosen on this path: re-derive from stores + offered via choices is indirect;
        # instead evaluate: stores on the path
        stores = [t for t in o.trace if t[0] == 'store']
        tested = {}
        for t in o.trace:
            if t[0] == 'cmp':
                tested[t[2].name] = (t[3], t[4])
        per_pauli.setdefault(tuple(offered or ()), []).append((stores, tested, o))
    ok_c, detail_c, facts_c = True, '', {}
    idx, idx_z = _Idx(nq), _Idx(nq, True)
    found_any = False
    for offered, lst in per_pauli.items():
        for p in offered:
            # every offered Pauli must have been tested p_P[e] != 0 on the path
            for stores, tested, o in lst:
                tp = tested.get('pp' + p.lower())
                if tp != ('NotEq', 0):
                    ok_c, detail_c = False, f"'{p}' is offered without the test p_{p.lower()}[e_index] != 0"
        # stores: group paths by chosen pauli = position in offered via the choice; we check the set of
        # store patterns seen over paths with this offer equals the bit pairs of the offered Paulis
        pats = set()
        for stores, tested, o in lst:
            xs = any(s[1] == idx and s[2] == 1 for s in stores)
            zs = any(s[1] == idx_z and s[2] == 1 for s in stores)
            if any(s[1] not in (idx, idx_z) or s[2] != 1 for s in stores):
                ok_c, detail_c = False, f'unexpected store into the proposal vector: {stores!r}'
            pats.add((int(xs), int(zs)))
        # offered = exactly the Paulis whose probability was found non-zero on these paths, each once
        for stores, tested, o in lst:
            nonzero = [p for p in 'XYZ' if any(t[0] == 'cmp-out' and t[1] == 'pp' + p.lower() and
                                                ((t[2], t[3], t[4]) in (('NotEq', 0, True), ('Eq', 0, False), ('Gt', 0, True)))
                                                for t in o.trace)]
            if sorted(offered) != sorted(nonzero):
                ok_c, detail_c = False, (f'on the path where exactly {nonzero} have non-zero probability the proposal offers '
                                         f'{list(offered)}')
        want = {BITS[p] for p in offered}
        facts_c[''.join(offered)] = sorted(pats)
        if offered:
            found_any = True
            if pats != want:
                ok_c, detail_c = False, f'with {offered} offered the proposal writes bit pairs {sorted(pats)}, ' \
                                        f'expected {sorted(want)}'
    # the proposal vector has the length of a BSF vector of the code (2n): a store at n + e_index must exist
    szs = [t[1] for o in rets for t in o.trace if t[0] == 'zeros']
    if not szs or any(not isinstance(z, _KN) for z in szs):
        raise AnalysisError('R18.3', site, f'get_next_error: length of the proposal vector not tracked ({szs[:3]!r})')
    sizes = {repr(z) for z in szs}
    two_n = {repr(_KN(2))}
    ctx.ob('R18.3', site, 'get_next_error: the proposal vector has length 2n', sizes <= two_n,
           f'np.zeros({sorted(sizes - two_n)}): a Z or Y proposal stores at n + e_index, outside a vector of that length',
           key='SplittingSimulation.get_next_error|length', facts=sorted(sizes))
    ctx.need(found_any, 'R18.3', site, 'no Pauli proposal found')
    ctx.ob('R18.3', site, 'get_next_error: proposal = one qubit, Pauli with non-zero probability, BSF bits',
           ok_c, detail_c, key='SplittingSimulation.get_next_error|proposal', facts=facts_c)


def run(ctx: Ctx) -> None:
    ctx.rule('R18.1', 'each (mask, probability) term of error_probability selects exactly its Pauli', floor=4)
    ctx.rule('R18.2', 'log form = sum(log(v)), plain form = prod(v), same vector v', floor=4)
    ctx.rule('R18.3', 'Metropolis step uses log-likelihoods of old/new error at one rate; proposal is a '
                      'single-qubit Pauli of non-zero probability', floor=4)
    ctx.rule('R18.4', 'error_probability as resolved on the concrete noise class (an override included) equals the '
                      'product / log-sum of the per-qubit channel of the same object, for directions with and without equal '
                      'rates, deformed and undeformed', floor=8)
    ctx.trust('numpy semantics of logical_and/logical_not/==, sum, prod, log, exp on arrays')
    with ctx.part():
        _r181_182(ctx)
    with ctx.part():
        from .c08 import prob_vs_distribution
        prob_vs_distribution(ctx, 'R18.4')
    with ctx.part():
        _r183(ctx)
