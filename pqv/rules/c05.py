"""C05 - decoders return valid corrections that reproduce the measured syndrome."""
from __future__ import annotations

import ast

from ..interp import Env, Hooks, Interp, guard, site_of
from ..model import AnalysisError, norm_stmt, walk_no_nested
from ..report import Ctx
from . import sector

EXPLANATION = (
    'R05.1: every name in every allowed_codes is the name of a registered, exported code class; id properties '
    'return the class name; every registered decoder declares allowed_codes. R05.2/R05.3: sector typing by '
    'abstract interpretation of __init__ + decode of MatchingDecoder (3 error_type configurations), '
    'BeliefPropagationOSDDecoder (CSS / non-CSS, with and without channel update), UnionFindDecoder, '
    'SweepMatchDecoder, RotatedSweepMatchDecoder: every third-party or project sub-decoder is built on a check '
    'matrix of the code; a solver on Hz (detects X errors) receives the Z-row syndrome and its result goes into the '
    'X half (dually for Hx); the non-CSS BP-OSD vector is [z|x] and is swapped back; decode returns a length-2n '
    'vector [X-correction | Z-correction] with exactly the decoded halves filled. R05.4: no int()/float()/bool() of '
    'a NumPy call that passes size=/shape= (raises TypeError on the installed NumPy 2).'
)


def r054_scalar_of_sized(ctx: Ctx, rule: str = 'R05.4') -> None:
    m = ctx.model
    n_sites = 0
    for mi in m.modules.values():
        for node in ast.walk(mi.tree):
            if isinstance(node, ast.Call) and isinstance(node.func, ast.Name) and node.func.id in ('int', 'float', 'bool') \
                    and len(node.args) == 1 and isinstance(node.args[0], ast.Call):
                inner = node.args[0]
                kws = {k.arg: k.value for k in inner.keywords if k.arg}
                sized = [k for k in ('size', 'shape') if k in kws
                         and not (isinstance(kws[k], ast.Constant) and kws[k].value is None)]
                fname = ast.unparse(inner.func)
                is_rng = any(s in fname for s in ('rng', 'random', 'np.', 'numpy.'))
                if not is_rng:
                    continue
                n_sites += 1
                ctx.ob(rule, site_of(mi, node), f'{mi.relpath}: {node.func.id}() of a NumPy draw', not sized,
                       f'{norm_stmt(node)}: the argument has ndim >= 1 ({sized[0] if sized else ""}= given); '
                       f'{node.func.id}() of it raises TypeError on NumPy >= 2', key=f'{mi.relpath}|{norm_stmt(node)}')
    # the two tie-break sites must be found (floor) - conversions of an indexed element are fine
    for cname in ('SweepDecoder3D', 'RotatedSweepDecoder3D'):
        ci, fn = m.method(cname, 'get_default_direction')
        calls = [n for n in ast.walk(fn) if isinstance(n, ast.Call) and isinstance(n.func, ast.Attribute)
                 and n.func.attr == 'choice']
        ctx.need(len(calls) == 1, rule, site_of(ci.module, fn), f'{cname}.get_default_direction: tie-break draw not found')
        c = calls[0]
        kws = {k.arg for k in c.keywords}
        # how is the draw turned into a scalar?
        ret = [n for n in ast.walk(fn) if isinstance(n, ast.Return)]
        txt = norm_stmt(fn.body[-2] if len(fn.body) >= 2 else fn.body[-1])
        bad = False
        for node in ast.walk(fn):
            if isinstance(node, ast.Call) and isinstance(node.func, ast.Name) and node.func.id in ('int', 'float') \
                    and node.args and node.args[0] is c and ('size' in kws or 'shape' in kws):
                bad = True
        ctx.ob(rule, site_of(ci.module, c), f'{cname}.get_default_direction yields a scalar direction', not bad,
               f'{txt}: int() applied to a size=1 array', key=f'{cname}.get_default_direction|scalar')


def _r051(ctx: Ctx) -> None:
    m = ctx.model
    cfg = m.module('panqec.config')
    codes_node = cfg.assigns.get('CODES')
    ctx.need(isinstance(codes_node, ast.Dict), 'R05.1', cfg.relpath, 'CODES literal not found')
    code_keys = {k.value for k in codes_node.keys if isinstance(k, ast.Constant)}
    code_classes = {c.name for c in m.subclasses(m.cls('StabilizerCode'))}
    exported = set()
    init = m.module('panqec.codes')
    for nm in init.imports:
        exported.add(nm)
    decs = m.subclasses(m.cls('BaseDecoder'))
    ctx.need(len(decs) >= 9, 'R05.1', 'panqec/decoders', f'only {len(decs)} decoder classes found')
    for d in sorted(decs, key=lambda c: c.name):
        a = d.find_attr('allowed_codes')
        site = site_of(d.module, a[1] if a else d.node)
        if a is None:
            ctx.ob('R05.1', site, f'{d.name} declares allowed_codes', False, 'allowed_codes is not a class constant',
                   key=f'{d.name}|allowed_codes-declared')
            continue
        try:
            val = ast.literal_eval(a[1])
        except ValueError:
            raise AnalysisError('R05.1', site, f'{d.name}.allowed_codes is not a literal')
        if val is None:
            ctx.ob('R05.1', site, f'{d.name}: all codes allowed', True, '', key=f'{d.name}|allowed_codes=None')
            continue
        for nm in val:
            ok = nm in code_classes and nm in code_keys and nm in exported
            ctx.ob('R05.1', site, f"{d.name}.allowed_codes names an exported, registered code class: '{nm}'", ok,
                   f"'{nm}' is {'not a code class' if nm not in code_classes else 'not registered in CODES' if nm not in code_keys else 'not exported by panqec.codes'}",
                   key=f"{d.name}|allowed[{nm}]")
    for d in sorted(decs, key=lambda c: c.name):
        r = d.find_method('__init__')
        params = [a.arg for a in r[1].args.args][1:4] if r else []
        ctx.ob('R05.1', site_of(r[0].module, r[1]) if r else site_of(d.module, d.node),
               f'{d.name}.__init__ takes (code, error_model, error_rate) first', params == ['code', 'error_model', 'error_rate'],
               f'first parameters are {params}: the input parser passes them by keyword and the GUI by position',
               key=f'{d.name}|ctor-signature')
    for cname in ('BaseDecoder', 'StabilizerCode', 'BaseErrorModel'):
        ci, fn = m.method(cname, 'id')
        rets = [n for n in ast.walk(fn) if isinstance(n, ast.Return)]
        ok = len(rets) == 1 and rets[0].value is not None and ast.unparse(rets[0].value) in (
            'self.__class__.__name__', 'type(self).__name__')
        ctx.ob('R05.1', site_of(ci.module, fn), f'{cname}.id is the class name', ok,
               f'returns {ast.unparse(rets[0].value) if rets and rets[0].value is not None else None}', key=f'{cname}.id')
    # subclasses must not override id with something else
    for base in ('BaseDecoder', 'StabilizerCode', 'BaseErrorModel'):
        for c in m.subclasses(m.cls(base)):
            if 'id' in c.methods or 'id' in c.attrs:
                ctx.ob('R05.1', site_of(c.module, c.node), f'{c.name} does not override id', False,
                       f'{c.name} redefines id; allowed_codes / registries / menus compare it with the class name',
                       key=f'{c.name}|id-override')


def facts_to_obs(ctx: Ctx, facts, mapping) -> None:
    """mapping: fact tag -> rule id (facts with other tags are ignored)."""
    seen = set()
    lost = []
    for f in facts:
        r = mapping.get(f.tag)
        if r is None:
            continue
        if callable(r):
            r = r(f)
            if r is None:
                continue
        if getattr(f, 'lost', False):
            lost.append(f)
            continue
        k = (r, f.key, f.ok)
        if k in seen:
            continue
        seen.add(k)
        ctx.ob(r, f.site, f.what, f.ok, f.detail, key=f.key, facts=f.facts)
    sector.raise_if_lost(lost)


def _r056_xcube_axes(ctx: Ctx) -> None:
    """XCubeMatchingDecoder treats the three lattice axes with one piece of code parametrised by the projection axis.
    Every lattice extent used for axis a must be the extent OF axis a (and helpers working in the plane orthogonal to
    a get the extents of the two other axes, in order): on a cubic lattice a mix-up is invisible, on Lx != Ly != Lz it
    indexes qubits that do not exist."""
    m = ctx.model
    ci = m.cls('XCubeMatchingDecoder')
    mi = ci.module
    AXES = ('x', 'y', 'z')
    SIZE = {'Lx': 'x', 'Ly': 'y', 'Lz': 'z'}

    def size_names(fn):
        # `Lx, Ly, Lz = <...>.size`
        for n in walk_no_nested(fn):
            if isinstance(n, ast.Assign) and isinstance(n.targets[0], ast.Tuple) and len(n.targets[0].elts) == 3 \
                    and isinstance(n.value, ast.Attribute) and n.value.attr == 'size':
                return {e.id: a for e, a in zip(n.targets[0].elts, AXES) if isinstance(e, ast.Name)}
        return {}

    def tags(expr, names, env_extra, fn):
        """Axes of the extents an expression evaluates to (lattice extents are replaced by their axis letter)."""
        it = Interp(m, Hooks())
        e = Env(mi)
        e.vars.update(names)
        e.vars.update(env_extra)
        outs = guard('R05.6', mi, fn)(lambda: it.explore(lambda: it.ev(expr, e)))
        if len(outs) != 1 or outs[0].kind != 'return':
            raise AnalysisError('R05.6', site_of(mi, expr), f'extent expression {ast.unparse(expr)} not evaluated: {outs!r}')
        v = outs[0].value
        if isinstance(v, str):
            return (v,)
        if isinstance(v, (tuple, list)) and all(isinstance(x, str) and x in AXES for x in v):
            return tuple(v)
        raise AnalysisError('R05.6', site_of(mi, expr), f'extent expression {ast.unparse(expr)} evaluates to {v!r}')

    init = ci.methods.get('__init__')
    dec = ci.methods.get('decode')
    ctx.need(init is not None and dec is not None, 'R05.6', site_of(mi, ci.node), 'XCubeMatchingDecoder.__init__/decode not found')
    # (1) the auxiliary 2-D codes
    names = size_names(init)
    ctx.need(len(names) == 3, 'R05.6', site_of(mi, init), 'Lx, Ly, Lz = code.size not found in __init__')
    found = 0
    for n in ast.walk(init):
        if isinstance(n, ast.Dict) and n.keys and all(isinstance(k, ast.Constant) and k.value in AXES for k in n.keys) \
                and all(isinstance(v, ast.Call) and v.args and isinstance(v.func, ast.Name)
                        and (m.resolve(mi, v.func.id) or ('',))[0] == 'class' for v in n.values):
            for k, v in zip(n.keys, n.values):
                got = tuple(t for a in v.args for t in tags(a, names, {}, init))
                want = tuple(a for a in AXES if a != k.value)
                found += 1
                ctx.ob('R05.6', site_of(mi, v), f"XCubeMatchingDecoder: the 2-D code of the planes normal to {k.value} has the "
                                                f"extents of the two other axes", got == want,
                       f'{ast.unparse(v)} uses the extents of axes {got}, expected {want}', key=f'XCube|toric_code[{k.value}]',
                       facts=got)
    ctx.need(found == 3, 'R05.6', site_of(mi, init), f'auxiliary 2-D codes: {found} entries recognised')
    # (2) decode: plane indices, L_proj, helpers called inside the loop over the projection axis
    names = size_names(dec)
    ctx.need(len(names) == 3, 'R05.6', site_of(mi, dec), 'Lx, Ly, Lz = self.code.size not found in decode')
    found = 0
    for n in ast.walk(dec):
        if isinstance(n, ast.Dict) and n.keys and all(isinstance(k, ast.Constant) and k.value in AXES for k in n.keys) \
                and all(isinstance(v, ast.DictComp) for v in n.values):
            for k, v in zip(n.keys, n.values):
                used = tuple(sorted({names[x.id] for x in ast.walk(v.generators[0].iter) if isinstance(x, ast.Name) and x.id in names}))
                found += 1
                ctx.ob('R05.6', site_of(mi, v), f'XCubeMatchingDecoder.decode: planes normal to {k.value} are indexed along {k.value}',
                       used == (k.value,), f'{ast.unparse(v.generators[0].iter)} ranges over the extent of {used}',
                       key=f'XCube|planes[{k.value}]', facts=used)
    ctx.need(found == 3, 'R05.6', site_of(mi, dec), f'plane tables: {found} entries recognised')
    loops = [n for n in ast.walk(dec) if isinstance(n, ast.For) and isinstance(n.target, ast.Name)
             and isinstance(n.iter, (ast.List, ast.Tuple)) and [getattr(e, 'value', None) for e in n.iter.elts] == list(AXES)
             and any(isinstance(c, ast.Call) and ast.unparse(c.func) == 'decode_plane' for c in ast.walk(n))]
    ctx.need(len(loops) == 1, 'R05.6', site_of(mi, dec), 'loop over the projection axis not found')
    loop = loops[0]
    lv = loop.target.id
    # straight-line definitions at the top of the loop body (proj_axis_int, ortho_axes, L_proj ...)
    pre = {}
    for n in ast.walk(dec):
        if isinstance(n, ast.Assign) and isinstance(n.targets[0], ast.Name) and isinstance(n.value, ast.Dict) \
                and all(isinstance(k, ast.Constant) for k in n.value.keys):
            try:
                pre[n.targets[0].id] = ast.literal_eval(n.value)
            except ValueError:
                pass
        elif isinstance(n, ast.Assign) and isinstance(n.targets[0], ast.Name) and isinstance(n.value, ast.Call) \
                and isinstance(n.value.func, ast.Name) and n.value.func.id == 'dict' and not n.value.args \
                and all(k.arg and isinstance(k.value, ast.Constant) for k in n.value.keywords):
            pre[n.targets[0].id] = {k.arg: k.value.value for k in n.value.keywords}      # dict(x=0, y=1, z=2)
    sized_calls = [c for c in ast.walk(loop) if isinstance(c, ast.Call) and ast.unparse(c.func) == 'decode_plane']
    lproj = [s_ for s_ in loop.body if isinstance(s_, ast.Assign) and isinstance(s_.targets[0], ast.Name)
             and any(isinstance(x, ast.Name) and x.id in names for x in ast.walk(s_.value))]
    for axis in AXES:
        env_extra = dict(pre)
        env_extra[lv] = axis
        it = Interp(m, Hooks())
        e = Env(mi)
        e.vars.update(names)
        e.vars.update(env_extra)
        for s_ in loop.body:             # the leading assignments of the loop body, in order
            if isinstance(s_, ast.Assign) and isinstance(s_.targets[0], ast.Name):
                outs = guard('R05.6', mi, dec)(lambda: it.explore(lambda: it.ev(s_.value, e)))
                if len(outs) == 1 and outs[0].kind == 'return':
                    e.vars[s_.targets[0].id] = outs[0].value
            else:
                break
        local = {k: v for k, v in e.vars.items() if k not in names}
        for s_ in lproj:
            got = tags(s_.value, names, local, dec)
            if len(got) == 1:
                ctx.ob('R05.6', site_of(mi, s_), f'XCubeMatchingDecoder.decode: {s_.targets[0].id} for projection axis {axis} is '
                                                 f'the extent along {axis}', got == (axis,),
                       f'{norm_stmt(s_)} gives the extent of {got}', key=f'XCube|{s_.targets[0].id}[{axis}]', facts=got)
        for c in sized_calls:
            # the second parameter of decode_plane, given by position or by keyword
            dp = mi.functions.get('decode_plane')
            pnames = [a.arg for a in dp.args.args] if dp is not None else ['loops', 'size']
            size_arg = c.args[1] if len(c.args) >= 2 else next((k.value for k in c.keywords if len(pnames) > 1 and k.arg == pnames[1]), None)
            ctx.need(size_arg is not None, 'R05.6', site_of(mi, c), 'decode_plane call without a size argument')
            got = tags(size_arg, names, local, dec)
            want = tuple(a for a in AXES if a != axis)
            ctx.ob('R05.6', site_of(mi, c), f'XCubeMatchingDecoder.decode: decode_plane for projection axis {axis} gets the extents '
                                            f'of the two orthogonal axes', got == want,
                   f'{ast.unparse(c)} passes the extents of {got}; the loop coordinates have the {axis} component removed, so '
                   f'they live on axes {want}: on a lattice with unequal sides the returned coordinates are not qubits '
                   f'(KeyError) or the wrong ones', key=f'XCube|decode_plane[{axis}]', facts=got)


def run(ctx: Ctx) -> None:
    ctx.rule('R05.1', 'allowed_codes names are exported registered code classes; id = class name', floor=14)
    ctx.rule('R05.2', 'decode returns a 2n vector [X-correction | Z-correction] with the decoded halves filled', floor=20)
    ctx.rule('R05.3', 'solver on Hz <-> Z-row syndrome <-> X half (dually Hx); [z|x] swapped back', floor=30)
    ctx.rule('R05.4', 'no scalar conversion of a sized NumPy draw', floor=2)
    ctx.rule('R05.6', 'XCube matching decoder: every lattice extent belongs to the axis it is used for', floor=12)
    ctx.rule('R05.5', 'nothing memoised per code object depends on what deform() changes on that object', floor=1)
    ctx.trust('PyMatching / ldpc BpOsdDecoder / Support return a solution for the matrix and syndrome they are given',
              'SweepDecoder3D / RotatedSweepDecoder3D return a Z-only BSF vector (decided by C10 R10.2)',
              'XCubeMatchingDecoder is outside R05.3 (projection onto auxiliary 2-D codes, see DESIGN.md)')
    with ctx.part():
        _r051(ctx)
    with ctx.part():
        facts = sector.analyse(ctx.model)
        facts_to_obs(ctx, facts, {'output': 'R05.2', 'matrix': 'R05.3', 'syndrome': 'R05.3'})
    with ctx.part():
        r054_scalar_of_sized(ctx)
    with ctx.part():
        from .c06 import memo_code_rule
        memo_code_rule(ctx, 'R05.5')
    with ctx.part():
        _r056_xcube_axes(ctx)
    with ctx.part():
        # the weights / priors a decoder is built from are read from memoised channel data: written through, the next
        # decoder built from the same noise model gets other weights (a zero syndrome then has a non-zero matching)
        from .c06 import frozen_rule
        frozen_rule(ctx, 'R05.5', 'panqec.error_models')
        frozen_rule(ctx, 'R05.5', 'panqec.decoders')
