"""C13 - input specifications expand to exactly the requested simulations."""
from __future__ import annotations

import ast
import itertools

from ..domains import Sym
from ..interp import (NOT_HANDLED, TOP, BoundMethod, ClassRef, Closure, Env, Ext, Hooks, Interp, Obj, guard,
                      site_of)
from ..model import AnalysisError, ClassInfo, decorator_names
from ..report import Ctx

EXPLANATION = (
    'R13.1: the three registry literals of panqec.config are evaluated; every key must be the __name__ of the '
    'class its value resolves to, and register_code/register_error_model/register_decoder are interpreted on a '
    'class reference: the key they add must be that class\'s own name. R13.2: expand_input_ranges and '
    'get_simulations are partially evaluated on tagged specifications with axis sizes 2 x 3 x 2 x 5 (every value '
    'a distinct tag; forms: single ranges dict, list of ranges, explicit runs, list-form and dict-form '
    'parameters; class constructors replaced by recorders): the result must be the Cartesian product, each '
    'element once, every code / noise model / decoder built from its own parameters, every decoder built with '
    'the code, noise model and error rate of the simulation it belongs to. R13.3: for every code, decoder and '
    'noise class, __init__ is interpreted on symbolic arguments and `params` evaluated afterwards: every key '
    'must be a constructor parameter carrying exactly the value passed for it, and every stored constructor '
    'parameter must be reported; `id` is the class name; simulations record id/params of the objects they hold.'
)


# ------------------------------------------------------------------- R13.1

class _MetaRef:
    def __init__(self, name):
        self.name = name

    def pqv_getattr(self, attr):
        if attr == '__name__':
            return self.name
        return TOP


class _HReg(Hooks):
    def __init__(self, tables):
        self.tables = tables

    def global_name(self, it, name, env):
        if name in self.tables:
            return self.tables[name]
        return NOT_HANDLED

    def attr(self, it, obj, name, node):
        if isinstance(obj, ClassRef) and name == '__class__':
            meta = 'type'
            for kw in obj.ci.mro[-1].node.keywords:
                if kw.arg == 'metaclass':
                    meta = ast.unparse(kw.value).split('.')[-1]
            return _MetaRef(meta)
        return NOT_HANDLED


def _registry(ctx: Ctx, name: str) -> dict:
    m = ctx.model
    cfg = m.module('panqec.config')
    ctx.need(name in cfg.assigns, 'R13.1', cfg.relpath, f'{name} not found (vanished anchor)')
    node = cfg.assigns[name]
    ctx.need(isinstance(node, ast.Dict), 'R13.1', site_of(cfg, node), f'{name} is not a dict literal')
    it = Interp(m)
    out = {}
    for k, v in zip(node.keys, node.values):
        ctx.need(isinstance(k, ast.Constant) and isinstance(k.value, str), 'R13.1', site_of(cfg, node),
                 f'{name} has a non-literal key')
        val = it.ev(v, Env(cfg))
        out[k.value] = (val, v)
    return out


def _r131(ctx: Ctx) -> None:
    m = ctx.model
    cfg = m.module('panqec.config')
    bases = {'CODES': 'StabilizerCode', 'ERROR_MODELS': 'BaseErrorModel', 'DECODERS': 'BaseDecoder'}
    floors = {'CODES': 16, 'ERROR_MODELS': 1, 'DECODERS': 7}
    tables = {}
    for reg, base in bases.items():
        entries = _registry(ctx, reg)
        ctx.need(len(entries) >= floors[reg], 'R13.1', cfg.relpath, f'{reg} has only {len(entries)} entries')
        tables[reg] = {}
        for key, (val, node) in entries.items():
            ok = isinstance(val, ClassRef) and val.ci.name == key
            tables[reg][key] = val
            ctx.ob('R13.1', site_of(cfg, node), f"{reg}['{key}'] resolves to the class of that name", ok,
                   f"{reg}['{key}'] is {val.ci.qualname if isinstance(val, ClassRef) else val!r}",
                   key=f"{reg}|{key}", facts=val.ci.qualname if isinstance(val, ClassRef) else repr(val))
            if isinstance(val, ClassRef):
                bci = m.cls(base)
                ctx.ob('R13.1', site_of(cfg, node), f"{reg}['{key}'] is a {base}", bci in val.ci.mro,
                       f'{val.ci.qualname} does not derive from {base}', key=f"{reg}|{key}|kind")
    ctx.extra['registries'] = {r: sorted(t) for r, t in tables.items()}
    # every exported code class is registered (so that recorded inputs can be re-instantiated)
    codes_pkg = m.module('panqec.codes')
    base = m.cls('StabilizerCode')
    for c in m.subclasses(base):
        ctx.ob('R13.1', site_of(c.module, c.node), f'code class {c.name} is registered in CODES', c.name in tables['CODES'],
               f'{c.name} is exported by panqec.codes but missing from CODES: result files recording it cannot be '
               f're-instantiated', key=f'CODES|registered[{c.name}]')

    for fname, reg, sample in (('register_code', 'CODES', 'Toric2DCode'),
                               ('register_error_model', 'ERROR_MODELS', 'PauliErrorModel'),
                               ('register_decoder', 'DECODERS', 'MatchingDecoder')):
        mi, fn = m.func('panqec.config', fname)
        live = {r: dict() for r in bases}
        it = Interp(m, _HReg(live))
        cref = ClassRef(m.cls(sample))
        outs = guard('R13.1', mi, fn)(lambda: it.explore(lambda: it.call_closure(Closure(fn, mi), [cref], {}, fn)))
        added = {r: dict(t) for r, t in live.items() if t}
        ok = list(added) == [reg] and list(added[reg]) == [sample] and added[reg][sample] is cref
        ctx.ob('R13.1', site_of(mi, fn), f'{fname}(cls) registers cls under its own name in {reg}', ok,
               f'{fname}({sample}) added { {r: list(t) for r, t in added.items()} }; expected '
               f"{reg}['{sample}']", key=f'{fname}|key', facts={r: list(t) for r, t in added.items()})
        # registering a class again under a name already taken (a class redefined in a notebook, a user class
        # shadowing a built-in one) binds the name to the class just given
        live2 = {r: dict() for r in bases}
        live2[reg][sample] = 'class registered earlier under this name'
        it2 = Interp(m, _HReg(live2))
        guard('R13.1', mi, fn)(lambda: it2.explore(lambda: it2.call_closure(Closure(fn, mi), [cref], {}, fn)))
        ctx.ob('R13.1', site_of(mi, fn), f'{fname}(cls) rebinds a name that is already registered', live2[reg].get(sample) is cref,
               f"after {fname}({sample}) with {reg}['{sample}'] already present the name resolves to "
               f'{live2[reg].get(sample)!r}, not to the class just registered', key=f'{fname}|rebind')


# ------------------------------------------------------------------- R13.2

def _spec(form: str):
    # every value is a distinct tag; numeric so that arithmetic on them stays concrete
    # ... except that some elements carry the SAME values in other roles (sizes that are permutations of each other,
    # one number under two names): an element is identified by names and positions, not by its bag of values
    codes = [{'L_x': 3, 'L_y': 5}, {'L_x': 4, 'L_y': 6}, {'L_x': 5, 'L_y': 3}]
    noises = [{'r_x': 0.11}, {'r_x': 0.12}, {'r_x': 0.13}, {'r_y': 0.11}]
    decs = [{'osd_order': 21}, {'osd_order': 22}]
    # the rate 0 is a legitimate (falsy) grid point; rates of the rare-event regime differ beyond the sixth decimal
    rates = [0.0, 2e-07, 4e-07, 2.5e-06, 0.031, 0.032, 0.033, 0.034]
    if form == 'list-params':
        codes = [[3, 5], [4, 6], [5, 3]]
        noises = [[0.11, 0.21, 0.31], [0.12, 0.22, 0.32, 'XZZX'], [0.13, 0.23, 0.33, 'XY', {'deformation_axis': 'x'}],
                  [0.21, 0.11, 0.31]]
    rng = {'label': 'L', 'code': {'name': 'Toric2DCode', 'parameters': codes},
           'error_model': {'name': 'PauliErrorModel', 'parameters': noises},
           'decoder': {'name': 'MatchingDecoder', 'parameters': decs},
           'error_rate': rates}
    want = [(_freeze(c), _freeze(n), _freeze(d), p) for c in codes for n in noises for d in decs for p in rates]
    return rng, want


def _want_bound(model, want):
    """expected product elements with list-form parameters bound to constructor parameter names"""
    out = []
    for c, n, d, p in want:
        cb = _bound(model, ('Toric2DCode', list(c), {})) if not (c and isinstance(c[0], tuple)) else dict(c)
        nb = _bound(model, ('PauliErrorModel', [_thaw(x) for x in n], {})) if not (n and isinstance(n[0], tuple) and len(n[0]) == 2 and isinstance(n[0][0], str)) else dict(n)
        out.append(('Toric2DCode', _freeze(cb), _freeze(nb), d, p))
    return out


def _thaw(x):
    if isinstance(x, tuple) and x and all(isinstance(e, tuple) and len(e) == 2 and isinstance(e[0], str) for e in x):
        return {k: _thaw(v) for k, v in x}
    return x


def _freeze(x):
    if isinstance(x, dict):
        return tuple(sorted((k, _freeze(v)) for k, v in x.items()))
    if isinstance(x, (list, tuple)):
        return tuple(_freeze(v) for v in x)
    return x


class _HSim(Hooks):
    """Class constructors become recorders."""

    def call(self, it, func, args, kwargs, node, env):
        if isinstance(func, ClassRef):
            o = Obj(func.ci, f'{func.ci.name}')
            o.fields['_ctor'] = (func.ci.name, list(args), dict(kwargs))
            return o
        if isinstance(func, Ext) and func.name == 'itertools.product':
            from ..interp import GenList
            seqs = [list(a) for a in args]
            for a in args:
                if isinstance(a, GenList):
                    del a[:]                  # a generator / map object handed to product is exhausted by it
            return list(itertools.product(*seqs))
        if isinstance(func, Ext) and func.name in ('json.dumps', 'builtins.repr', 'builtins.str', 'builtins.hash') \
                and args and not kwargs.get('cls'):
            import json as _json
            try:
                if func.name == 'json.dumps':
                    return _json.dumps(args[0], **{k: v for k, v in kwargs.items() if k in ('sort_keys', 'indent')})
            except (TypeError, ValueError):
                return TOP
        return NOT_HANDLED


def _ctor(o):
    return o.fields['_ctor'] if isinstance(o, Obj) and '_ctor' in o.fields else None


def _bound(model, c):
    """Constructor call (class name, args, kwargs) -> {parameter name: value} using the class's __init__
    signature, so that positional and keyword forms of the same call compare equal."""
    name, args, kwargs = c
    ci = model.cls(name)
    r = ci.find_method('__init__')
    names = [a.arg for a in r[1].args.args][1:] if r else []
    b = {}
    for i, v in enumerate(args):
        b[names[i] if i < len(names) else f'*{i}'] = v
    b.update(kwargs)
    return b


def _r132(ctx: Ctx) -> None:
    m = ctx.model
    bmod = 'panqec.simulation._batch_simulation'
    mi, fn_expand = m.func(bmod, 'expand_input_ranges')
    _, fn_get = m.func(bmod, 'get_simulations')

    # expand_input_ranges on a tagged spec
    for form in ('dict-params', 'list-params'):
        rng, want = _spec(form)
        it = Interp(m, _HSim())
        outs = guard('R13.2', mi, fn_expand)(
            lambda: it.explore(lambda: it.call_closure(Closure(fn_expand, mi), [rng], {}, fn_expand)))
        ctx.need(len(outs) == 1, 'R13.2', site_of(mi, fn_expand), f'expand_input_ranges: paths {outs!r}')
        o = outs[0]
        got = None
        ok = o.kind == 'return' and isinstance(o.value, list)
        detail = f'{o!r}'
        if ok:
            try:
                got = [(_freeze(r['code']['parameters']), _freeze(r['error_model']['parameters']),
                        _freeze(r['decoder']['parameters']), r['error_rate']) for r in o.value]
                names_ok = all(r['code'].get('name') == 'Toric2DCode' and r['error_model'].get('name') == 'PauliErrorModel'
                               and r['decoder'].get('name') == 'MatchingDecoder' and r.get('label') == 'L'
                               for r in o.value)
            except (KeyError, TypeError) as e:
                ok, detail = False, f'run dictionaries malformed: {e!r}'
            else:
                ok = sorted(map(repr, got)) == sorted(map(repr, want)) and names_ok
                detail = f'{len(got)} runs ({len(set(map(repr, got)))} distinct), expected the {len(want)}-element ' \
                         f'Cartesian product; first runs: {got[:3]!r}'
        ctx.ob('R13.2', site_of(mi, fn_expand), f'expand_input_ranges yields exactly the Cartesian product ({form})',
               ok, detail, key=f'expand_input_ranges|product[{form}]',
               facts={'runs': len(got) if got else 0, 'sample': repr(got[0]) if got else None})

    # get_simulations
    def sims_of(data, it=None):
        it = it or Interp(m, _HSim())
        sims_of.last = it
        outs = guard('R13.2', mi, fn_get)(
            lambda: it.explore(lambda: it.call_closure(Closure(fn_get, mi), [data], {}, fn_get)))
        ctx.need(len(outs) == 1, 'R13.2', site_of(mi, fn_get), f'get_simulations: paths {outs!r}')
        return outs[0]

    def describe(sims):
        """[(code ctor, noise ctor, decoder params, rate)] with consistency problems."""
        out, problems = [], []
        for s in sims:
            c = _ctor(s)
            if not c or c[0] != 'DirectSimulation':
                problems.append(f'not a DirectSimulation: {s!r}')
                continue
            _, args, kwargs = c
            names = ['code', 'error_model', 'decoder', 'error_rate']
            b = dict(zip(names, args))
            b.update({k: v for k, v in kwargs.items() if k in names})
            code, em, dec, rate = (b.get(k) for k in names)
            cc, ec, dc = _ctor(code), _ctor(em), _ctor(dec)
            if not (cc and ec and dc):
                problems.append(f'simulation built from {code!r}, {em!r}, {dec!r}')
                continue
            if ec[0] != 'PauliErrorModel' or dc[0] != 'MatchingDecoder':
                problems.append(f'classes {cc[0]}, {ec[0]}, {dc[0]} do not match the requested names')
            dk = dict(dc[2])
            if dk.get('code') is not code or dk.get('error_model') is not em or dk.get('error_rate') != rate:
                problems.append(f'decoder built with code/noise/rate {dk.get("code")!r}/{dk.get("error_model")!r}/'
                                f'{dk.get("error_rate")!r} that differ from its simulation\'s')
            dparams = {k: v for k, v in dk.items() if k not in ('code', 'error_model', 'error_rate')}
            out.append((cc[0], _freeze(_bound(m, cc)), _freeze(_bound(m, ec)), _freeze(dparams), rate))
        return out, problems

    for form, build in (
        ('ranges dict', lambda rng: {'ranges': rng}),
        ('ranges list', lambda rng: {'ranges': [rng, dict(rng, label='M')]}),
    ):
        for pform in ('dict-params', 'list-params'):
            rng, want = _spec(pform)
            data = build(rng)
            o = sims_of(data)
            mult = 2 if form == 'ranges list' else 1
            ok = o.kind == 'return' and isinstance(o.value, list)
            detail = f'{o!r}'
            got = None
            if ok:
                got, problems = describe(o.value)
                wb = _want_bound(m, want)
                ok = not problems and sorted(map(repr, got)) == sorted(map(repr, wb * mult))
                miss = [w for w in map(repr, wb) if w not in set(map(repr, got))]
                detail = '; '.join(problems[:2]) or (f'{len(got)} simulations ({len(set(map(repr, got)))} distinct), '
                                                     f'expected {len(want) * mult}; first requested combination not '
                                                     f'built as requested: {miss[:1]}')
            ctx.ob('R13.2', site_of(mi, fn_get), f'get_simulations: one simulation per product element ({form}, {pform})',
                   ok, detail, key=f'get_simulations|{form}|{pform}',
                   facts={'simulations': len(got) if got else 0})
            if ok:
                # the specification is not consumed by its own expansion: expanding the same object again (run, then
                # reload; count, then run) gives the same simulations
                # (same interpreter: state that outlives a call - module-level containers, default arguments - is kept)
                o2 = sims_of(data, sims_of.last)
                ok2 = o2.kind == 'return' and isinstance(o2.value, list)
                got2 = describe(o2.value)[0] if ok2 else None
                ok2 = ok2 and sorted(map(repr, got2)) == sorted(map(repr, got))
                ctx.ob('R13.2', site_of(mi, fn_get), f'get_simulations: a second expansion of the same specification object '
                                                     f'gives the same simulations ({form}, {pform})', ok2,
                       f'first expansion {len(got)} simulations, second {len(got2) if got2 is not None else o2!r}: the '
                       f'expansion modified the specification it was given or kept state from the first call', key=f'get_simulations|again|{form}|{pform}')
    # explicit runs
    runs = [{'code': {'name': ('Toric2DCode', 'Planar2DCode', 'Toric2DCode')[i], 'parameters': {'L_x': 3 + (i == 2)}},
             'error_model': {'name': 'PauliErrorModel', 'parameters': {'r_x': 0.1 + i}},
             'decoder': {'name': 'MatchingDecoder', 'parameters': {'osd_order': 20 + i}},
             'error_rate': 0.03 + i} for i in range(3)]
    want = [(('Toric2DCode', 'Planar2DCode', 'Toric2DCode')[i], _freeze({'L_x': 3 + (i == 2)}), _freeze({'r_x': 0.1 + i}),
             _freeze({'osd_order': 20 + i}), 0.03 + i) for i in range(3)]
    o = sims_of({'runs': runs})
    ok = o.kind == 'return' and isinstance(o.value, list)
    detail = f'{o!r}'
    if ok:
        got, problems = describe(o.value)
        ok = not problems and list(map(repr, got)) == list(map(repr, want))
        detail = '; '.join(problems[:2]) or f'got {got!r}, expected {want!r}'
    ctx.ob('R13.2', site_of(mi, fn_get), 'get_simulations: explicit runs are taken one by one, in order', ok, detail,
           key='get_simulations|runs')


def _r132_splitting(ctx: Ctx) -> None:
    """A splitting simulation gets one decoder per error rate (get_simulations builds them in the order of the
    requested rates): after construction decoder i must be the one built for error_rates[i]."""
    m = ctx.model
    ci = m.cls('SplittingSimulation')
    init = ci.find_method('__init__')
    ctx.need(init is not None, 'R13.2', site_of(ci.module, ci.node), 'SplittingSimulation.__init__ not found')
    site = site_of(init[0].module, init[1])
    from ..symnp import call_numpy

    class H(Hooks):
        def call(self, it, func, args, kwargs, node, env):
            if isinstance(func, BoundMethod) and func.closure.fn.name == '__init__' and func.closure.cls is not None \
                    and func.closure.cls.name == 'BaseSimulation':
                func.obj.fields.setdefault('_results', {})
                func.obj.fields.setdefault('_inputs', {})
                return None
            if isinstance(func, Ext) and func.name.startswith('numpy'):
                r = call_numpy(func, args, kwargs)
                return TOP if r is NOT_HANDLED else r
            return NOT_HANDLED
    for label, rates in (('ascending', [0.1, 0.2, 0.3]), ('descending', [0.3, 0.2, 0.1]), ('unordered', [0.2, 0.3, 0.1])):
        it = Interp(m, H())

        def thunk():
            o = Obj(ci, 'sim')
            decs = []
            for r in rates:
                d = Obj(m.cls('BaseDecoder'), f'decoder built for p={r}')
                d.fields.update(error_rate=r, id='D', params={})
                decs.append(d)
            it.call_closure(Closure(init[1], init[0].module, init[0]),
                            [Obj(m.cls('StabilizerCode'), 'code'), Obj(m.cls('BaseErrorModel'), 'noise'), decs, list(rates), 5],
                            {}, init[1], self_obj=o)
            return o.fields.get('decoders'), o.fields.get('error_rates')
        outs = guard('R13.2', init[0].module, init[1])(lambda: it.explore(thunk))
        ctx.need(len(outs) == 1 and outs[0].kind == 'return', 'R13.2', site, f'SplittingSimulation.__init__: {outs!r}')
        decs, ers = outs[0].value
        try:
            pairs = [(d.fields['error_rate'], float(r)) for d, r in zip(decs, list(ers))]
        except Exception:
            raise AnalysisError('R13.2', site, f'SplittingSimulation.__init__: decoders/error_rates not tracked ({decs!r}, {ers!r})')
        ok = len(pairs) == len(rates) and all(abs(a - b) < 1e-12 for a, b in pairs) and sorted(b for _, b in pairs) == sorted(rates)
        ctx.ob('R13.2', site, f'SplittingSimulation: decoder i is the decoder built for error_rates[i] ({label} rates)', ok,
               f'(rate the decoder was built with, rate it is used at) = {pairs}', key=f'SplittingSimulation|pairing[{label}]',
               facts=pairs)
    # the step uses them index by index
    run = ci.methods.get('_run')
    ctx.need(run is not None, 'R13.2', site, 'SplittingSimulation._run not found')
    uses = [n for n in ast.walk(run) if isinstance(n, ast.Subscript) and ast.unparse(n.value) == 'self.decoders']
    loops = [n for n in ast.walk(run) if isinstance(n, ast.For) and 'self.error_rates' in ast.unparse(n.iter)]
    okr = bool(uses) and all(
        any(u in ast.walk(lp) and isinstance(lp.target, ast.Tuple) and isinstance(lp.target.elts[0], ast.Name)
            and ast.unparse(u.slice) == lp.target.elts[0].id and ast.unparse(lp.iter).replace(' ', '') == 'enumerate(self.error_rates)'
            for lp in loops) or (isinstance(u.slice, ast.Constant))
        for u in uses)
    ctx.ob('R13.2', site_of(ci.module, run), 'SplittingSimulation._run: decoders[i] is used with the i-th entry of error_rates', okr,
           f'uses of self.decoders: {[ast.unparse(u) for u in uses]}', key='SplittingSimulation._run|pairing')


# ------------------------------------------------------------------- R13.3

class _HInit(Hooks):
    """Interpreting constructors: third-party and heavy project calls are opaque."""

    def attr(self, it, obj, name, node):
        if isinstance(obj, Obj) and name == 'n' and obj.ci is not None and \
                any(c.name == 'StabilizerCode' for c in obj.ci.mro):
            return 4
        if isinstance(obj, Sym):
            return TOP
        return NOT_HANDLED

    def call(self, it, func, args, kwargs, node, env):
        if isinstance(func, ClassRef):
            return TOP                       # sub-decoders, auxiliary codes: irrelevant for params
        if isinstance(func, Ext):
            if func.name.startswith('scipy') or func.name.startswith('pymatching') or func.name.startswith('ldpc'):
                return TOP
            if func.name.startswith('numpy'):
                return TOP
        if isinstance(func, Closure) and func.module.name.startswith('panqec.bsparse'):
            return TOP
        if isinstance(func, Closure) and func.module.name != env.module.name and func.cls is None:
            return TOP                       # helper functions of other modules
        return NOT_HANDLED


def _ctor_params(ci: ClassInfo):
    r = ci.find_method('__init__')
    if not r:
        return None, []
    fn = r[1]
    a = fn.args
    names = [p.arg for p in a.posonlyargs + a.args][1:] + [p.arg for p in a.kwonlyargs]
    return r, names


def _check_params(ctx: Ctx, ci: ClassInfo, exclude=()) -> None:
    m = ctx.model
    r, names = _ctor_params(ci)
    site = site_of(ci.module, ci.node)
    ctx.need(r is not None, 'R13.3', site, f'{ci.name} has no __init__')
    pr = ci.find_method('params')
    ctx.need(pr is not None, 'R13.3', site, f'{ci.name} has no params')
    it = Interp(m, _HInit())
    it.recursion_raises = False
    syms = {n: Sym(n) for n in names}

    def thunk():
        o = Obj(ci, ci.name)
        it.call_closure(Closure(r[1], r[0].module, r[0]), [], dict(syms), r[1], self_obj=o)
        p = it.getattr(o, 'params', pr[1])
        ident = it.getattr(o, 'id', pr[1])
        return p, ident, dict(o.fields)
    outs = guard('R13.3', ci.module, r[1])(lambda: it.explore(thunk))
    rets = [o for o in outs if o.kind == 'return']
    ctx.need(rets, 'R13.3', site, f'{ci.name}: constructor has no returning path: {outs[:3]!r}')
    bad = None
    facts = None
    for o in rets:
        p, ident, fields = o.value
        if not isinstance(p, dict):
            bad = f'params is {p!r}, not a dict'
            break
        facts = {k: repr(v) for k, v in p.items()}
        for k, v in p.items():
            if k in exclude or k not in names:
                bad = f"params key '{k}' is not a constructor parameter of {ci.name} ({names})"
                break
            if not (isinstance(v, Sym) and v.name == k):
                # tolerate normalised defaults such as `kwargs or {}` only when the stored value is the parameter
                bad = f"params['{k}'] is {v!r}, not the value passed for constructor parameter '{k}'"
                break
        if bad:
            break
        stored = {v.name for v in _leaves(fields) if isinstance(v, Sym) and v.name in names}
        missing = [n for n in names if n in stored and n not in p and n not in exclude]
        if missing:
            bad = f'constructor parameters {missing} are stored on the object but not reported by params: ' \
                  f're-instantiating from recorded inputs would silently use defaults'
            break
        if ident != ci.name:
            bad = f'id is {ident!r}, expected the class name'
            break
    ctx.ob('R13.3', site, f'{ci.name}: params keys/values = constructor parameters; id = class name', bad is None,
           bad or '', key=f'{ci.name}|params', facts=facts)


def _leaves(x, depth=0):
    if depth > 3:
        return
    if isinstance(x, dict):
        for v in x.values():
            yield from _leaves(v, depth + 1)
    elif isinstance(x, (list, tuple)):
        for v in x:
            yield from _leaves(v, depth + 1)
    else:
        yield x


def _r133(ctx: Ctx) -> None:
    m = ctx.model
    n = 0
    for c in sorted(m.subclasses(m.cls('StabilizerCode')), key=lambda c: c.name):
        _check_params(ctx, c)
        n += 1
    for c in sorted(m.subclasses(m.cls('BaseDecoder')), key=lambda c: c.name):
        _check_params(ctx, c, exclude=('code', 'error_model', 'error_rate'))
        n += 1
    for c in sorted(m.subclasses(m.cls('BaseErrorModel')), key=lambda c: c.name):
        _check_params(ctx, c)
        n += 1
    ctx.need(n >= 26, 'R13.3', 'panqec', f'only {n} classes with params found')
    sim_inputs(ctx, 'R13.3')


def sim_inputs(ctx: Ctx, rule: str) -> None:
    """_inputs of DirectSimulation names the id/params of the objects it holds (shared with C12)."""
    m = ctx.model
    ci = m.cls('DirectSimulation')
    r = ci.find_method('__init__')

    def mk(label):
        o = Obj(None, label)
        o.fields.update({'id': Sym(label + '.id'), 'params': Sym(label + '.params'), 'n': Sym('n'), 'k': Sym('k'),
                         'd': Sym('d')})
        return o
    code, em, dec = mk('code'), mk('error_model'), mk('decoder')
    it = Interp(m, Hooks())

    def thunk():
        o = Obj(ci, 'sim')
        it.call_closure(Closure(r[1], ci.module, ci), [code, em, dec, Sym('rate')], {}, r[1], self_obj=o)
        return o.fields.get('_inputs')
    outs = guard(rule, ci.module, r[1])(lambda: it.explore(thunk))
    ctx.need(len(outs) == 1 and outs[0].kind == 'return', rule, site_of(ci.module, r[1]), f'paths {outs!r}')
    inp = outs[0].value
    want = {'code': ('code.id', 'code.params'), 'error_model': ('error_model.id', 'error_model.params'),
            'decoder': ('decoder.id', 'decoder.params')}
    bad = None
    if not isinstance(inp, dict):
        bad = f'_inputs is {inp!r}'
    else:
        for k, (i, p) in want.items():
            e = inp.get(k)
            if not (isinstance(e, dict) and e.get('name') == Sym(i) and e.get('parameters') == Sym(p)):
                bad = f"_inputs['{k}'] = {e!r}; expected name={i}, parameters={p}"
                break
        if bad is None and inp.get('error_rate') != Sym('rate'):
            bad = f"_inputs['error_rate'] = {inp.get('error_rate')!r}, expected the error rate"
    ctx.ob(rule, site_of(ci.module, r[1]), 'DirectSimulation._inputs = id/params of its code, noise model, decoder + rate',
           bad is None, bad or '', key='DirectSimulation.__init__|_inputs',
           facts={k: repr(v) for k, v in inp.items()} if isinstance(inp, dict) else repr(inp))


def _r132_read_input(ctx: Ctx) -> None:
    """read_input_dict(spec, out) returns a batch that holds exactly the simulations get_simulations(spec) builds, in
    order, for every form of specification - and does not raise on any of them (labels of nested ranges included)."""
    m = ctx.model
    bmod = 'panqec.simulation._batch_simulation'
    mi, fn = m.func(bmod, 'read_input_dict')
    site = site_of(mi, fn)
    rng, _ = _spec('dict-params')
    forms = {
        'ranges dict': {'ranges': rng},
        'ranges list': {'ranges': [rng, dict(rng, label='M')]},
        'ranges list, nested form with one label': {'ranges': [{'ranges': dict(rng, label='L')}, {'ranges': dict(rng, label='L')}]},
        'ranges list, nested form with two labels': {'ranges': [{'ranges': dict(rng, label='L')}, {'ranges': dict(rng, label='M')}]},
        'runs': {'runs': [{'code': {'name': 'Toric2DCode', 'parameters': {'L_x': 3}},
                           'error_model': {'name': 'PauliErrorModel', 'parameters': {'r_x': 0.1}},
                           'decoder': {'name': 'MatchingDecoder', 'parameters': {}}, 'error_rate': 0.1}]},
    }

    class H(_HSim):
        def call(self, it, func, args, kwargs, node, env):
            if isinstance(func, ClassRef) and func.ci.name == 'BatchSimulation':
                o = Obj(func.ci, 'batch')
                o.fields['_ctor'] = ('BatchSimulation', list(args), dict(kwargs))
                o.fields['_simulations'] = []
                return o
            if isinstance(func, Closure) and getattr(func.fn, 'name', '') == 'get_simulations':
                sims = [Obj(None, f'sim{i}') for i in range(3)]
                self.sims = sims
                return list(sims)
            if isinstance(func, Ext) and func.name == 'builtins.print':
                return None
            return super().call(it, func, args, kwargs, node, env)
    for label, data in forms.items():
        hooks = H()
        it = Interp(m, hooks)
        outs = guard('R13.2', mi, fn)(lambda: it.explore(lambda: it.call_closure(Closure(fn, mi), [data, 'out.json'], {}, fn)))
        bad = None
        if not outs or any(o.kind != 'return' for o in outs):
            bad = f'raises / does not return: {[o for o in outs if o.kind != "return"][:1]!r}'
        else:
            for o in outs:
                b = o.value
                got = b.fields.get('_simulations') if isinstance(b, Obj) else None
                if not (isinstance(got, list) and len(got) == 3 and all(x is y for x, y in zip(got, hooks.sims))):
                    bad = f'the batch holds {got!r}; get_simulations built {getattr(hooks, "sims", None)!r}'
        ctx.ob('R13.2', site, f'read_input_dict ({label}): the batch holds exactly the simulations of get_simulations, in order',
               bad is None, bad or '', key=f'read_input_dict|{label}')


def run(ctx: Ctx) -> None:
    ctx.rule('R13.1', 'registry key = class name; register_* derive the key from the class\'s own name', floor=50)
    ctx.rule('R13.2', 'expansion = Cartesian product, each element once, objects built from their own parameters', floor=7)
    ctx.rule('R13.3', 'params <-> __init__ agreement for every code, decoder and noise class; _inputs faithful', floor=27)
    ctx.trust('itertools.product enumerates the Cartesian product')
    with ctx.part():
        _r131(ctx)
    with ctx.part():
        _r132(ctx)
    with ctx.part():
        _r132_splitting(ctx)
    with ctx.part():
        _r132_read_input(ctx)
    with ctx.part():
        from .c06 import global_state_rule
        bmod = 'panqec.simulation._batch_simulation'
        entries = [ctx.model.func(bmod, f)[1] for f in ('get_simulations', 'expand_input_ranges', 'read_input_dict')]
        global_state_rule(ctx, 'R13.2', entries, 'a specification is expanded')
    with ctx.part():
        _r133(ctx)
