"""C07 - Pauli noise model is the stated i.i.d. channel and is sampled faithfully."""
from __future__ import annotations

import ast

import numpy as np

from ..domains import FLIP, PAULIS, Event, Ratio, Sym
from ..interp import (NOT_HANDLED, TOP, BoundMethod, Closure, Env, Ext, Hooks, Interp, Obj, guard, site_of, truth)
from ..model import AnalysisError
from ..nphooks import Tagged, np_name
from ..report import Ctx
from . import sector
from .c05 import facts_to_obs
from .c08 import _r086

EXPLANATION = (
    'R07.1/R07.8: PauliErrorModel.probability_distribution is interpreted symbolically: (p_I,p_X,p_Y,p_Z) = '
    '(1-p, r_x p, r_y p, r_z p) with r_x,r_y,r_z the constructor arguments of those names, permuted per qubit '
    'by the code\'s own deformation table (snapshot reads); the constructor rejects directions that do not sum '
    'to 1. R07.2: every consumer of the 4-tuple is interpreted with position i bound to the event '
    '{I},{X},{Y},{Z}[i]; uses are judged by event, not by variable name (error_probability in C18, get_weights, '
    'BP-OSD, MBP p_channel row order). R07.3: generate() pairs option letter P with the probability of event '
    '{P}, uses the rng it is given, and converts the drawn letters with pauli_to_bsf. R07.4: fast_choice is '
    'partially evaluated on exact rationals for variates on both sides of and exactly on every cumulative '
    'boundary (incl. 0): it returns the first option whose cumulative probability exceeds the variate, never an '
    'option of probability zero, and draws from the supplied generator. R07.5: get_weights = negative log-odds '
    'of the X-flip / Z-flip marginals. R07.6: BP-OSD channel probabilities are the flip marginal of the sector '
    'each decoder detects; non-CSS order [z|x]. R07.7: update_probabilities is P(target flip | conditioning '
    'correction) in both directions and both outcomes.'
)


# ------------------------------------------------------------------- R07.1 (constructor)

def _r071_ctor(ctx: Ctx) -> None:
    m = ctx.model
    ci = m.cls('PauliErrorModel')
    r = ci.find_method('__init__')
    fn = r[1]
    # the constructor must raise when r_x + r_y + r_z is not (close to) 1
    guards = []
    for n in ast.walk(fn):
        if isinstance(n, ast.If) and any(isinstance(s, ast.Raise) for s in n.body):
            guards.append(n)
    ok, detail = False, 'no guard that raises on a bad direction found'
    for g in guards:
        t = g.test
        neg = False
        if isinstance(t, ast.UnaryOp) and isinstance(t.op, ast.Not):
            neg, t = True, t.operand
        txt = ast.unparse(t)
        names = {n.id for n in ast.walk(t) if isinstance(n, ast.Name)}
        if {'r_x', 'r_y', 'r_z'} <= names:
            is_sum = any(isinstance(b, ast.BinOp) and isinstance(b.op, ast.Add) for b in ast.walk(t))
            if neg and 'isclose' in txt and is_sum and any(isinstance(c, ast.Constant) and c.value == 1 for c in ast.walk(t)):
                ok, detail = True, txt
            elif not neg and isinstance(t, ast.Compare) and isinstance(t.ops[0], ast.NotEq) and is_sum:
                ok, detail = True, txt
            else:
                detail = f'guard is `{ast.unparse(g.test)}`'
    ctx.ob('R07.1', site_of(ci.module, fn), 'PauliErrorModel.__init__ rejects directions with r_x+r_y+r_z != 1', ok, detail,
           key='PauliErrorModel.__init__|sum-guard', facts=detail)


# ------------------------------------------------------------------- R07.2 (MBP)

def _r072_mbp(ctx: Ctx) -> None:
    m = ctx.model
    ci = m.cls('MemoryBeliefPropagationDecoder')
    mi = ci.module
    gp = ci.methods.get('get_probabilities')
    ctx.need(gp is not None, 'R07.2', site_of(mi, ci.node), 'MBP.get_probabilities not found')

    asked = []

    class H(Hooks):
        def call(self, it, func, args, kwargs, node, env):
            if isinstance(func, BoundMethod) and func.closure.fn.name == 'probability_distribution':
                asked.append((args[0] if args else kwargs.get('code'), args[1] if len(args) > 1 else kwargs.get('error_rate')))
                return tuple(Event({p}) for p in PAULIS)
            return NOT_HANDLED
    it = Interp(m, H())

    def thunk():
        asked.clear()
        o = Obj(ci, 'decoder')
        o.fields['error_model'] = Obj(m.cls('PauliErrorModel'), 'error_model')
        o.fields['code'] = Sym('code')
        o.fields['error_rate'] = Sym('error_rate')
        return it.call_closure(Closure(gp, mi, ci), [], {}, gp, self_obj=o), list(asked)
    outs = guard('R07.2', mi, gp)(lambda: it.explore(thunk))
    v, calls = outs[0].value if len(outs) == 1 and outs[0].kind == 'return' else (None, [])
    want = tuple(Event({p}) for p in PAULIS)
    ctx.ob('R07.2', site_of(mi, gp), 'MBP.get_probabilities returns (p_I,p_X,p_Y,p_Z) in that order', v == want,
           f'returns {v!r}', key='MemoryBeliefPropagationDecoder.get_probabilities|order', facts=repr(v))
    ok_rate = len(calls) == 1 and calls[0][0] == Sym('code') and calls[0][1] == Sym('error_rate')
    ctx.ob('R07.2', site_of(mi, gp), 'MBP channel prior is the distribution of the decoder\'s own code and error rate', ok_rate,
           f'probability_distribution is asked for (code, error rate) = {calls!r}; the decoder was constructed with '
           f'(code, error_rate): its channel prior does not depend on the error rate it is given',
           key='MemoryBeliefPropagationDecoder.get_probabilities|rate', facts=repr(calls))
    init = ci.methods['__init__']
    stacks = [n for n in ast.walk(init) if isinstance(n, ast.Call) and ast.unparse(n.func) in ('np.vstack', 'np.array', 'np.stack')
              and n.args and isinstance(n.args[0], (ast.List, ast.Tuple)) and len(n.args[0].elts) == 4]
    unpack = [n for n in ast.walk(init) if isinstance(n, ast.Assign) and isinstance(n.targets[0], ast.Tuple)
              and isinstance(n.value, ast.Call) and ast.unparse(n.value.func) == 'self.get_probabilities']
    ctx.need(len(stacks) == 1 and len(unpack) == 1, 'R07.2', site_of(mi, init), 'MBP p_channel construction not recognised')
    names = [e.id for e in unpack[0].targets[0].elts if isinstance(e, ast.Name)]
    order = [e.id for e in stacks[0].args[0].elts if isinstance(e, ast.Name)]
    ok = len(names) == 4 and order == names
    ctx.ob('R07.2', site_of(mi, stacks[0]), 'MBP p_channel rows are (I,X,Y,Z) = Pauli numbers 0..3', ok,
           f'unpacked as {names}, stacked as {order}', key='MemoryBeliefPropagationDecoder.__init__|p_channel', facts=order)


# ------------------------------------------------------------------- R07.3

class _Rng:
    def __init__(self, name):
        self.name = name

    def __repr__(self):
        return f'rng:{self.name}'


class _ScriptRng:
    """A generator whose uniform variates are scripted (bounded evaluation of samplers that do not go through
    fast_choice)."""

    def __init__(self, values, name='caller'):
        self.values, self.pos, self.name = list(values), 0, name

    def _next(self, n=None):
        if n is None:
            v = self.values[self.pos]
            self.pos += 1
            return v
        out = np.array(self.values[self.pos:self.pos + int(n)], dtype=float)
        if len(out) != int(n):
            raise IndexError('script exhausted')
        self.pos += int(n)
        return out

    def pqv_getattr(self, name):
        if name == 'random':
            class _C:
                def pqv_call(_s, *a, **k):
                    size = a[0] if a else k.get('size')
                    return self._next(size)
            return _C()
        return TOP


def _r073_scripted(ctx: Ctx, m, ci, mi, fn, site, given: bool) -> None:
    """generate() without fast_choice: evaluated on three qubits with different channels and scripted variates; the
    letters must be those of the inverse CDF in the order I, X, Y, Z (u < cumulative sum)."""
    from ..symnp import call_numpy
    dists = np.array([[0.7, 0.1, 0.15, 0.05], [0.25, 0.25, 0.25, 0.25], [0.0, 0.5, 0.0, 0.5]])
    scripts = [[0.05, 0.05, 0.05], [0.69999, 0.3, 0.49999], [0.7, 0.5, 0.5], [0.8, 0.74, 0.9999], [0.97, 0.76, 0.2],
               [0.9499, 0.2499, 0.0], [0.95, 0.25, 0.75]]
    bits = {'I': (0, 0), 'X': (1, 0), 'Y': (1, 1), 'Z': (0, 1)}
    bad = None
    for script in scripts:
        rngs = []

        class H(Hooks):
            def attr(self, it, obj, name, node):
                if isinstance(obj, Sym) and obj.name == 'code' and name == 'n':
                    return 3
                return NOT_HANDLED

            def call(self, it, func, args, kwargs, node, env):
                if isinstance(func, BoundMethod) and func.closure.fn.name == 'probability_distribution':
                    return tuple(np.array(dists[:, j]) for j in range(4))
                if isinstance(func, Ext) and func.name == 'numpy.random.default_rng':
                    r = _ScriptRng(script, 'fresh default_rng()')
                    rngs.append(r)
                    return r
                if isinstance(func, Ext) and func.name.startswith('numpy'):
                    r = call_numpy(func, args, kwargs)
                    return TOP if r is NOT_HANDLED else r
                return NOT_HANDLED
        it = Interp(m, H())
        rng = _ScriptRng(script) if given else None
        outs = guard('R07.3', mi, fn)(lambda: it.explore(lambda: it.call_closure(
            Closure(fn, mi, ci), [Sym('code'), Sym('rate')], {'rng': rng}, fn, self_obj=Obj(ci, 'error_model'))))
        if len(outs) != 1 or outs[0].kind != 'return' or not isinstance(outs[0].value, np.ndarray) \
                or outs[0].value.dtype == object:
            raise AnalysisError('R07.3', site, f'generate (scripted variates {script}): not evaluated: {outs!r}')
        got = [int(x) for x in outs[0].value.tolist()]
        letters = []
        for q, u in enumerate(script):
            cum = 0.0
            letter = 'Z'
            for L, p_ in zip('IXYZ', dists[q]):
                cum += p_
                if u < cum:
                    letter = L
                    break
            letters.append(letter)
        want = [bits[L][0] for L in letters] + [bits[L][1] for L in letters]
        used = (rng if given else (rngs[0] if rngs else None))
        if got != want:
            bad = f'variates {script}: returns {got}, the inverse CDF in the order I,X,Y,Z gives {letters} = {want}'
            break
        if used is None or used.pos != 3:
            bad = f'variates {script}: {0 if used is None else used.pos} variates consumed from {"the generator supplied" if given else "a fresh default_rng()"} for 3 qubits'
            break
    ctx.ob('R07.3', site, f'generate: letter P drawn with probability of event {{P}}; rng threading '
                          f'({"rng supplied" if given else "rng=None"})', bad is None, bad or '',
           key=f'PauliErrorModel.generate|draws[{given}]', facts='scripted evaluation (7 variate triples, 3 channels)')
    ctx.ob('R07.3', site, f'generate returns the BSF of the drawn letters ({"rng" if given else "no rng"})', bad is None, bad or '',
           key=f'PauliErrorModel.generate|bsf[{given}]')


def _r073(ctx: Ctx) -> None:
    m = ctx.model
    ci = m.cls('PauliErrorModel')
    mi = ci.module
    fn = ci.methods.get('generate')
    ctx.need(fn is not None, 'R07.3', site_of(mi, ci.node), 'PauliErrorModel.generate not found')
    site = site_of(mi, fn)
    uses_fast_choice = any(isinstance(n, ast.Call) and isinstance(n.func, ast.Name) and n.func.id == 'fast_choice'
                           for n in ast.walk(fn))
    for given in (True, False):
        if not uses_fast_choice:
            _r073_scripted(ctx, m, ci, mi, fn, site, given)
            continue
        rec = []

        class H(Hooks):
            def attr(self, it, obj, name, node):
                if isinstance(obj, Sym) and obj.name == 'code' and name == 'n':
                    return 2
                return NOT_HANDLED

            def call(self, it, func, args, kwargs, node, env):
                if isinstance(func, BoundMethod) and func.closure.fn.name == 'probability_distribution':
                    dist_args.append((args[0] if args else kwargs.get('code'),
                                      args[1] if len(args) > 1 else kwargs.get('error_rate')))
                    return tuple(Event({p}) for p in PAULIS)
                if isinstance(func, Closure) and getattr(func.fn, 'name', '') == 'fast_choice':
                    params = [a.arg for a in func.fn.args.args]
                    b = dict(zip(params, args))
                    b.update(kwargs)
                    rec.append((b.get('options'), b.get('probs'), b.get('rng')))
                    return Tagged('drawn', len(rec))
                if isinstance(func, Closure) and getattr(func.fn, 'name', '') == 'pauli_to_bsf':
                    return Tagged('pauli_to_bsf', args[0])
                if isinstance(func, Ext) and func.name == 'numpy.random.default_rng':
                    return _Rng('fresh default_rng()')
                if getattr(func, '__name__', '') == 'join' and isinstance(getattr(func, '__self__', None), str):
                    return Tagged('joined', tuple(args[0]) if isinstance(args[0], (list, tuple)) else args[0])
                return NOT_HANDLED
        it = Interp(m, H())
        rng = _Rng('caller') if given else None
        dist_args = []

        def thunk():
            rec.clear()
            o = Obj(ci, 'error_model')
            v = it.call_closure(Closure(fn, mi, ci), [Sym('code'), Sym('rate')], {'rng': rng}, fn, self_obj=o)
            return v, list(rec)
        outs = guard('R07.3', mi, fn)(lambda: it.explore(thunk))
        ctx.need(outs and all(o.kind == 'return' for o in outs), 'R07.3', site, f'generate: paths {outs!r}')
        # the symbolic reading applies to one shape of generate: letters drawn by fast_choice, joined, handed to
        # pauli_to_bsf.  Any other shape (bits drawn directly, another assembly of the vector) is evaluated on scripted
        # variates instead - a shape the rule does not know is not a violation
        def _symbolic_shape(o):
            v_p, calls_p = o.value
            letters = all(isinstance(c[0], (tuple, list)) and all(isinstance(x, str) and len(x) == 1 for x in c[0])
                          for c in calls_p)
            return (letters and calls_p and isinstance(v_p, Tagged) and v_p.tag == 'pauli_to_bsf'
                    and isinstance(v_p.args[0], Tagged) and v_p.args[0].tag == 'joined')
        if not all(_symbolic_shape(o) for o in outs):
            _r073_scripted(ctx, m, ci, mi, fn, site, given)
            continue
        ok, detail, okv, v = True, '', True, None
        calls = []
        # every path (e.g. one per kind of model) is judged on its own
        for o in outs:
            v_p, calls_p = o.value
            ok_p, detail_p = _judge_draws(calls_p, rng, given, dist_args)
            okv_p = (isinstance(v_p, Tagged) and v_p.tag == 'pauli_to_bsf' and isinstance(v_p.args[0], Tagged)
                     and v_p.args[0].tag == 'joined'
                     and list(v_p.args[0].args[0]) == [Tagged('drawn', 1), Tagged('drawn', 2)])
            if ok and not ok_p:
                ok, detail = False, detail_p
            if okv and not okv_p:
                okv, v = False, v_p
            calls = calls or calls_p
            v = v if v is not None else v_p
        ctx.ob('R07.3', site, f'generate: letter P drawn with probability of event {{P}}; rng threading '
                              f'({"rng supplied" if given else "rng=None"})', ok, detail,
               key=f'PauliErrorModel.generate|draws[{given}]', facts=[repr(c) for c in calls])
        ctx.ob('R07.3', site, f'generate returns pauli_to_bsf of the drawn letters ({"rng" if given else "no rng"})', okv,
               f'returns {v!r}', key=f'PauliErrorModel.generate|bsf[{given}]', facts=repr(v))


def _judge_draws(calls, rng, given, dist_args):
    ok, detail = True, ''
    if len(calls) != 2:
        ok, detail = False, f'{len(calls)} draws for 2 qubits'
    for opts, probs, r in calls:
        if not (isinstance(opts, (tuple, list)) and isinstance(probs, (tuple, list)) and len(opts) == len(probs) == 4):
            ok, detail = False, f'options {opts!r} / probabilities {probs!r}'
            break
        for o_, p_ in zip(opts, probs):
            if not (isinstance(p_, Event) and p_.s == {o_}):
                ok, detail = False, f"option '{o_}' is drawn with probability {p_!r}"
        if set(opts) != set(PAULIS):
            ok, detail = False, f'options are {opts!r}'
        # the SOURCE of the uniform variate does not change the distribution: the caller's generator, a fresh one, or
        # fast_choice's own fallback (rng=None).  Which of them it must be is reproducibility - C11 R11.3 - not this property.
        if not (r is None or r is rng or isinstance(r, _Rng)):
            raise AnalysisError('R07.3', 'PauliErrorModel.generate', f'source of the uniform variate not tracked: {r!r}')
    if ok and any((repr(a), repr(b)) != (repr(Sym('code')), repr(Sym('rate'))) for a, b in dist_args) or not dist_args:
        ok, detail = False, (f'probability_distribution is asked for {dist_args!r}; generate was called with '
                             f'(code, error_rate)')
    return ok, detail


# ------------------------------------------------------------------- R07.4

def _r074(ctx: Ctx) -> None:
    m = ctx.model
    mi, fn = m.func('panqec.error_models._pauli_error_model', 'fast_choice')
    site = site_of(mi, fn)
    opts = ('I', 'X', 'Y', 'Z')
    # probabilities in units of 1/1000 (exact integers; fast_choice only adds and compares)
    dists = [
        [400, 100, 200, 300],
        [0, 500, 0, 500],           # p = 1, no Y
        [1000, 0, 0, 0],            # p = 0
        [0, 0, 0, 1000],            # pure Z at p = 1
        [500, 0, 500, 0],
    ]
    if ctx.tier == 'thorough':
        import random as _r
        rr = _r.Random(ctx.seed)
        for _ in range(40):
            cuts = sorted(rr.randint(0, 1000) for _ in range(3))
            dists.append([cuts[0], cuts[1] - cuts[0], cuts[2] - cuts[1], 1000 - cuts[2]])
    n_cases = 0
    bad = None
    used = {'rng': 0, 'global': 0}
    for probs in dists:
        cums = []
        c = 0
        for p in probs:
            c += p
            cums.append(c)
        xs = {0, 999}
        for c in cums:
            for d in (-1, 0, 1):
                x = c + d
                if 0 <= x < 1000:
                    xs.add(x)
        for x in sorted(xs):
            for with_rng in (True, False):
                class H(Hooks):
                    def call(self, it, func, args, kwargs, node, env):
                        if isinstance(func, Ext) and func.name == 'random.random':
                            used['global'] += 1
                            it.trace.append('global')
                            return x
                        if isinstance(func, Tagged) and func.tag == 'rng.random':
                            used['rng'] += 1
                            it.trace.append('rng')
                            return x
                        return NOT_HANDLED

                    def attr(self, it, obj, name, node):
                        if isinstance(obj, _Rng) and name == 'random':
                            return Tagged('rng.random')
                        return NOT_HANDLED
                it = Interp(m, H())
                rng = _Rng('caller') if with_rng else None
                outs = guard('R07.4', mi, fn)(lambda: it.explore(
                    lambda: it.call_closure(Closure(fn, mi), [opts, list(probs)], {'rng': rng}, fn)))
                n_cases += 1
                if len(outs) != 1 or outs[0].kind != 'return':
                    bad = f'x={x}, probs={probs}: paths {outs!r}'
                    break
                got = outs[0].value
                want = next((o for o, c in zip(opts, cums) if x < c), opts[-1])
                src = outs[0].trace[-1] if outs[0].trace and outs[0].trace[-1] in ('rng', 'global') else \
                    [t for t in outs[0].trace if t in ('rng', 'global')]
                srcs = [t for t in outs[0].trace if t in ('rng', 'global')]
                if got != want:
                    bad = f'probs={[str(p) for p in probs]}, variate {x}: returns {got!r}, inverse CDF gives {want!r}'
                    break
                if probs[opts.index(got)] == 0:
                    bad = f'probs={[str(p) for p in probs]}, variate {x}: returns {got!r} which has probability 0'
                    break
                # exactly one uniform variate per draw; WHICH generator it comes from is reproducibility (C11 R11.3)
                if len(srcs) != 1:
                    bad = f'one draw consumes {len(srcs)} uniform variates ({srcs})'
                    break
            if bad:
                break
        if bad:
            break
    ctx.ob('R07.4', site, f'fast_choice is the inverse CDF on {n_cases} (distribution, variate) cases incl. boundaries',
           bad is None, bad or '', key='fast_choice|inverse-cdf', facts={'cases': n_cases, 'variate_sources': used})


# ------------------------------------------------------------------- R07.7 direct

def _ev_of(text: str) -> frozenset:
    """'P{YZ}' -> {'Y','Z'}"""
    if text.startswith('P{') and text.endswith('}'):
        return frozenset(text[2:-1])
    return frozenset()


def _r077(ctx: Ctx) -> None:
    m = ctx.model
    ci = m.cls('BeliefPropagationOSDDecoder')
    mi = ci.module
    fn = ci.methods.get('update_probabilities')
    ctx.need(fn is not None, 'R07.7', site_of(mi, ci.node), 'update_probabilities not found')
    site = site_of(mi, fn)
    ALL = frozenset(PAULIS)
    for direction, cond in (('z->x', 'Z'), ('x->z', 'X')):
        log = []
        hooks = sector.SectorHooks(m, True, log)
        it = Interp(m, hooks)

        def thunk():
            log.clear()
            hooks.store.clear()
            sector._CUR['it'], sector._CUR['store'] = it, hooks.store
            o = Obj(ci, 'decoder')
            ev = {p: Event({p}) for p in PAULIS}
            ret = it.call_closure(Closure(fn, mi, ci), [sector.Corr(cond), ev['X'], ev['Y'], ev['Z']],
                                  {'direction': direction}, fn, self_obj=o)
            return ret, list(log), dict(hooks.store)
        outs = guard('R07.7', mi, fn)(lambda: it.explore(thunk))
        tgt = sector.OTHER[cond]
        verdicts = {True: [], False: []}
        for o in outs:
            if o.kind != 'return':
                continue
            ret, lg, st_end = o.value
            if not isinstance(ret, sector.ProbCell) or 'TOP' in repr(ret.value):
                # the returned array is not one the generic-qubit reading follows: undecided, never a violation
                raise AnalysisError('R07.7', site, f'update_probabilities("{direction}") returns {ret!r}: '
                                                   f'per-qubit value not tracked')
            st = {}
            for kind, st_, value in lg:
                if kind == 'prob-store':
                    st = st_
            # the path's assumptions: flipped or not, and which probabilities were found to be zero
            st_all = dict(st)
            st_all.update(st_end)
            zero = [k[1][1] for k, v_ in st_all.items() if isinstance(k, tuple) and k[0] == 'maybe' and v_ is False]
            flips = [st_all['flipped']] if 'flipped' in st_all else [True, False]
            for flipped in flips:
                C = FLIP[cond] if flipped else Event(ALL - FLIP[cond].s)
                if repr(C) in zero:
                    continue                         # conditioning on an event of probability zero: any value will do
                want = Ratio(Event(FLIP[tgt].s & C.s), C)
                got = ret.value
                num_zero = any(repr(Event(FLIP[tgt].s & C.s)) == z or
                               (Event(FLIP[tgt].s & C.s).s <= _ev_of(z)) for z in zero)
                ok = got == want or (got == 0 and num_zero)
                verdicts[flipped].append((ok, got, want, zero))
        for flipped in (True, False):
            vs = verdicts[flipped]
            bad = [v_ for v_ in vs if not v_[0]]
            ok = bool(vs) and not bad
            if not vs:
                detail = 'no path of the function covers this outcome'
            elif bad:
                _, got, want, zero = bad[0]
                detail = (f'returns {got!r}' + (f' on the path where {", ".join(zero)} = 0' if zero else '') +
                          f', expected {want!r}')
            else:
                detail = ''
            ctx.ob('R07.7', site, f'update_probabilities("{direction}"): P({tgt} flip | {cond} '
                                  f'{"flipped" if flipped else "not flipped"})', ok, detail,
                   key=f'update_probabilities|{direction}|{int(flipped)}', facts=[repr(v_[1]) for v_ in vs])
    # unknown direction rejected
    it = Interp(m, sector.SectorHooks(m, True, []))
    sector._CUR['it'], sector._CUR['store'] = it, {}
    ev = {p: Event({p}) for p in PAULIS}
    outs = guard('R07.7', mi, fn)(lambda: it.explore(lambda: it.call_closure(
        Closure(fn, mi, ci), [sector.Corr('Z'), ev['X'], ev['Y'], ev['Z']], {'direction': 'bogus'}, fn,
        self_obj=Obj(ci, 'decoder'))))
    ctx.ob('R07.7', site, 'update_probabilities rejects an unknown direction', all(o.kind == 'raise' for o in outs),
           'an unknown direction silently returns zeros', key='update_probabilities|bogus')


def run(ctx: Ctx) -> None:
    ctx.rule('R07.1', 'channel definition (1-p, r_x p, r_y p, r_z p); directions must sum to 1', floor=2)
    ctx.rule('R07.2', 'tuple order (I,X,Y,Z) at producers/consumers not covered by other rules', floor=2)
    ctx.rule('R07.3', 'sampler pairs letters with their probabilities, threads the rng, converts with pauli_to_bsf', floor=4)
    ctx.rule('R07.4', 'fast_choice is the inverse CDF (boundaries, zero-probability options, rng source)', floor=1)
    ctx.rule('R07.5', 'matching weights are negative log-odds of the flip marginals', floor=2)
    ctx.rule('R07.6', 'BP-OSD priors are the flip marginal of the detected sector; [z|x] for non-CSS', floor=8)
    ctx.rule('R07.7', 'conditional update = P(target flip | outcome of the conditioning sector)', floor=5)
    ctx.rule('R07.8', 'noise-side deformation permutes (p_X,p_Y,p_Z) per qubit with the code\'s table', floor=2)
    ctx.trust('independence across qubits: generate draws each qubit separately from the generator; '
              'rng.random() is uniform on [0,1)')
    with ctx.part():
        _r071_ctor(ctx)
    # definition + deformation (shared implementation with C08 R08.6, re-labelled)
    sub = Ctx('C07', ctx.model, ctx.tier, ctx.seed)
    sub.rule('R08.6', '', 0)
    with ctx.part():
        _r086(sub)
    for o in sub.obs:
        rid = 'R07.1' if 'undeformed' in o.key else 'R07.8'
        ctx.ob(rid, o.site, o.what, o.ok, o.detail, key=o.key.split('|', 1)[1], facts=o.facts)
    with ctx.part():
        _r072_mbp(ctx)
    with ctx.part():
        _r073(ctx)
    with ctx.part():
        _r074(ctx)
    with ctx.part():
        facts = sector.analyse(ctx.model)
        facts_to_obs(ctx, facts, {'get_weights': 'R07.5', 'prior': 'R07.6', 'update-formula': 'R07.7', 'rate': 'R07.6'})
    with ctx.part():
        _r077(ctx)
    with ctx.part():
        from .c06 import global_state_rule
        pci = ctx.model.cls('PauliErrorModel')
        global_state_rule(ctx, 'R07.3', [pci.methods['generate'], pci.find_method('probability_distribution')[1]],
                          'errors are sampled')
    with ctx.part():
        from .c08 import weights_vs_distribution
        weights_vs_distribution(ctx, 'R07.5')
