"""Sector typing of decoders (engine S): abstract interpretation of decoder
constructors and `decode` methods where every value carries its sector.

Shared by C05 (R05.2, R05.3), C06 (R06.4), C07 (R07.5-7), C09 (R09.1).
`analyse(ctx)` returns a list of facts; each property module turns the facts
it owns into obligations.
"""
from __future__ import annotations

import ast
from dataclasses import dataclass, field
from typing import Any, Dict, List, Optional

from ..domains import FLIP, PAULIS, Bad, Event, LogRatio, Ratio, Sym
from ..interp import (NOT_HANDLED, TOP, BoundMethod, ClassRef, Closure, Env, Ext, Hooks, Interp, Obj, SliceV,
                      guard, site_of, truth)
from ..model import AnalysisError, ClassInfo, Model
from ..nphooks import Tagged, elementwise, np_name

OTHER = {'X': 'Z', 'Z': 'X'}
ALL = frozenset(PAULIS)


@dataclass
class Fact:
    tag: str             # 'weights' | 'syndrome' | 'prior' | 'store' | 'output' | 'typestate' | 'update-formula' | 'get_weights'
    decoder: str         # class name
    config: str          # configuration label (css/non-css, error_type ...)
    site: str
    what: str
    ok: bool
    detail: str = ''
    key: str = ''
    facts: Any = None
    lost: bool = False   # the analysis lost track of a value this fact is about: undecided, never a violation


class NQ:
    """The qubit count n (symbolic)."""
    _inst = None

    def __new__(cls):
        if cls._inst is None:
            cls._inst = super().__new__(cls)
        return cls._inst

    def __repr__(self):
        return 'n'

    def __mul__(self, o):
        return TwoN() if o == 2 else TOP

    __rmul__ = __mul__

    def pqv_compare(self, op, other, swapped):
        if isinstance(op, ast.Eq):
            return other is self
        return TOP


class TwoN:
    _inst = None

    def __new__(cls):
        if cls._inst is None:
            cls._inst = super().__new__(cls)
        return cls._inst

    def __repr__(self):
        return '2n'


class CheckMat:
    def __init__(self, rows: str):
        self.rows = rows                                  # 'X' | 'Z' | 'all'
        self.detects = {'X': 'Z', 'Z': 'X', 'all': 'both'}[rows]

    def __repr__(self):
        return {'X': 'Hx', 'Z': 'Hz', 'all': 'H'}[self.rows]

    def pqv_getattr(self, name):
        if name in ('todense', 'toarray', 'tocsr', 'copy'):
            return _Callable(lambda *a, **k: self)
        if name == 'shape':
            return (TOP, NQ() if self.rows != 'all' else TwoN())
        return TOP


class Mask:
    def __init__(self, kind):
        self.kind = kind

    def __repr__(self):
        return f'{self.kind.lower()}_indices'


class Syn:
    """Syndrome: kind 'all' (full) or the part measured by X / Z rows."""

    def __init__(self, kind='all', origin='param'):
        self.kind, self.origin = kind, origin

    def __repr__(self):
        return {'all': 'syndrome', 'X': 'syndrome[X rows]', 'Z': 'syndrome[Z rows]'}[self.kind]

    def pqv_getitem(self, idx):
        if isinstance(idx, Mask) and self.kind == 'all':
            return Syn(idx.kind)
        return TOP

    def pqv_getattr(self, name):
        if name in ('copy', 'astype'):
            return _Callable(lambda *a, **k: Syn(self.kind, 'copy'))
        return TOP

    def pqv_compare(self, op, other, swapped):
        return TOP


class Corr:
    """A length-n correction for errors of `sector` ('X' or 'Z')."""

    def __init__(self, sector, source=''):
        self.sector, self.source = sector, source

    def __repr__(self):
        return f'{self.sector}-correction'

    def pqv_getattr(self, name):
        if name == 'shape':
            return (NQ(),)
        if name in ('astype', 'copy'):
            return _Callable(lambda *a, **k: self)
        return TOP

    def pqv_getitem(self, idx):
        if isinstance(idx, _Flipped):
            return self
        return _CorrElem(self)

    def pqv_compare(self, op, other, swapped):
        # whole-array comparison: a per-qubit mask, read for the generic qubit
        return _CorrElem(self).pqv_compare(op, other, swapped)


class _CorrElem:
    def __init__(self, corr):
        self.corr = corr

    def pqv_compare(self, op, other, swapped):
        if isinstance(op, ast.Eq) and other == 1:
            return _Flipped(self.corr)
        if isinstance(op, ast.NotEq) and other == 0:
            return _Flipped(self.corr)
        if isinstance(op, ast.Eq) and other == 0:
            return _Flipped(self.corr, neg=True)
        if isinstance(op, ast.NotEq) and other == 1:
            return _Flipped(self.corr, neg=True)
        return TOP


_CUR = {'it': None, 'store': None}


class _Flipped:
    """`correction[i] == 1` for the generic qubit i (also as a whole-array mask `correction == 1`); `extra` holds
    further conditions and-ed to it (`& (p != 0)`)."""

    def __init__(self, corr, neg=False, extra=()):
        self.corr, self.neg, self.extra = corr, neg, tuple(extra)

    def pqv_truth(self):
        st = _CUR['store']
        if 'flipped' not in st:
            st['flipped'] = (_CUR['it'].choose(2) == 0)
            st['flipped_corr'] = self.corr
        if st['flipped'] == self.neg:
            return False
        for e in self.extra:
            if not e.pqv_truth():
                return False
        return True

    def __invert__(self):
        if self.extra:
            return TOP
        return _Flipped(self.corr, not self.neg)

    def pqv_not(self):
        return self.__invert__()

    def __and__(self, o):
        if o is True:
            return self
        if isinstance(o, _Maybe):
            return _Flipped(self.corr, self.neg, self.extra + (o,))
        return TOP

    __rand__ = __and__

    def pqv_getattr(self, name):
        if name in ('astype', 'copy'):
            return _Callable(lambda *a, **k: self)
        return TOP


class _Maybe:
    """A per-qubit condition on the probabilities (`p != 0`): unknown, decided once per path."""

    def __init__(self, what):
        self.what = what

    def pqv_truth(self):
        st = _CUR['store']
        k = ('maybe', self.what)
        if k not in st:
            st[k] = (_CUR['it'].choose(2) == 0)
        return st[k]

    def __and__(self, o):
        if isinstance(o, _Flipped):
            return o.__and__(self)
        return TOP

    __rand__ = __and__


class _IdxSet:
    """np.flatnonzero(mask) / np.nonzero(mask)[0] / np.where(mask)[0]: the indices selected by a per-qubit mask.
    Read at the generic qubit it is the mask again."""

    def __init__(self, mask):
        self.mask = mask

    def pqv_truth_mask(self):
        return self.mask.pqv_truth()

    def pqv_getattr(self, name):
        if name == 'size':
            return _SizeVal(self.mask)
        return TOP

    def pqv_len(self):
        return _SizeVal(self.mask)

    def pqv_getitem(self, idx):
        if isinstance(idx, _Maybe) and isinstance(self.mask, _Flipped):
            return _IdxSet(self.mask.__and__(idx))
        if isinstance(idx, (int,)) and not isinstance(idx, bool):
            return self                  # np.nonzero(mask)[0]
        return TOP


class _SizeVal:
    """Number of selected qubits; only `> 0`-style tests are understood."""

    def __init__(self, mask):
        self.mask = mask

    def pqv_compare(self, op, other, swapped):
        if not swapped and ((isinstance(op, (ast.Gt, ast.NotEq)) and other == 0) or (isinstance(op, ast.GtE) and other == 1)):
            return _SizePos(self.mask)
        if not swapped and ((isinstance(op, ast.Eq) and other == 0) or (isinstance(op, ast.Lt) and other == 1)):
            return _NotMaybe(_SizePos(self.mask))
        return TOP

    def pqv_truth(self):
        return _SizePos(self.mask).pqv_truth()


class _SizePos:
    """"Some qubit is selected": certainly true when the generic qubit itself is selected, unknown otherwise."""

    def __init__(self, mask):
        self.mask = mask

    def pqv_truth(self):
        if self.mask.pqv_truth():
            return True
        st = _CUR['store']
        k = ('maybe', ('some-other-qubit-selected', repr(self.mask)))
        if k not in st:
            st[k] = (_CUR['it'].choose(2) == 0)
        return st[k]


class _NotMaybe:
    def __init__(self, m):
        self.m = m

    def pqv_truth(self):
        return not self.m.pqv_truth()


class Swapped:
    """A length-2n vector in [z | x] order."""

    def __init__(self, source=''):
        self.source = source

    def __repr__(self):
        return '[z|x] vector'

    def pqv_getitem(self, idx):
        if isinstance(idx, SliceV) and idx.step is None:
            if idx.lo is None and idx.hi is NQ():
                return Corr('Z', 'first half of [z|x]')
            if idx.lo is NQ() and idx.hi is None:
                return Corr('X', 'second half of [z|x]')
        return TOP


class Full:
    """A length-2n BSF vector [x | z]; halves: None (zeros) or Corr."""

    def __init__(self, x=None, z=None):
        self.x, self.z = x, z
        self.bad: List[str] = []

    def __repr__(self):
        return f'[{self.x or 0} | {self.z or 0}]'

    def pqv_getitem(self, idx):
        if isinstance(idx, SliceV) and idx.step is None:
            if idx.lo is None and idx.hi is NQ():
                return self.x if self.x is not None else Corr('X', 'zeros')
            if idx.lo is NQ() and idx.hi is None:
                return self.z if self.z is not None else Corr('Z', 'zeros')
        return TOP

    def pqv_getattr(self, name):
        if name in ('astype', 'copy'):
            return _Callable(lambda *a, **k: self)
        return TOP

    def __add__(self, o):
        if isinstance(o, Full):
            r = Full(self.x or o.x, self.z or o.z)
            r.bad = self.bad + o.bad
            if self.x and o.x:
                r.bad.append('two X-halves added')
            if self.z and o.z:
                r.bad.append('two Z-halves added')
            return r
        return TOP

    __radd__ = __add__

    def __iadd__(self, o):
        return self.__add__(o)

    def __mod__(self, o):
        return self if o == 2 else TOP


class _Callable:
    def __init__(self, f):
        self.f = f

    def pqv_call(self, *a, **k):
        return self.f(*a, **k)


class ProbCell:
    """np.zeros(n) used as a per-qubit probability array; remembers stores."""

    def __init__(self):
        self.value = 0

    def pqv_getitem(self, idx):
        return self.value


class Solver:
    def __init__(self, kind: str, H, node, facts_cb, prior=None):
        self.kind, self.H, self.node, self.cb = kind, H, node, facts_cb
        self.prior = prior
        self.events: List[str] = []

    def __repr__(self):
        return f'{self.kind}({self.H!r})'

    # configuration of the third-party decoder that makes decode() consume an internal random stream
    RANDOM_CONFIG = ('random_schedule_seed', 'random_serial_schedule')
    KNOWN_CONFIG = ('pcm', 'error_rate', 'error_channel', 'channel_probs', 'max_iter', 'bp_method', 'ms_scaling_factor',
                    'schedule', 'osd_method', 'osd_order', 'input_vector_type', 'serial_schedule_order')

    def configure(self, name, value, where):
        if name in self.RANDOM_CONFIG:
            if value is TOP or not isinstance(value, (int, bool)):
                raise AnalysisError('R06.4', where, f'ldpc option {name}={value!r}: value not tracked')
            if value:
                self.random = (name, value)
            return
        if name == 'schedule' and value not in ('parallel', 'serial'):
            raise AnalysisError('R06.4', where, f'ldpc option schedule={value!r} not modelled')
        if name not in self.KNOWN_CONFIG:
            raise AnalysisError('R06.4', where, f'ldpc option {name}={value!r} not modelled')

    def pqv_setattr(self, name, value):
        if self.kind != 'BpOsdDecoder':
            raise AttributeError(name)
        self.configure(name, value, 'attribute store on the ldpc decoder')

    def pqv_getattr(self, name):
        if name == 'decode':
            return _Callable(self._decode)
        if name == 'update_channel_probs':
            return _Callable(self._update)
        if name in ('osdw_decoding', 'osd0_decoding', 'decoding', 'bp_decoding'):
            self.cb('read', self, name)
            return self._result()
        return TOP

    def _result(self):
        if not isinstance(self.H, CheckMat):
            return TOP
        if self.H.rows == 'all':
            return Swapped('decoder on the full matrix')
        return Corr(self.H.detects, repr(self))

    def _decode(self, *args, **kwargs):
        self.cb('decode', self, args[0] if args else None)
        return self._result()

    def _update(self, *args, **kwargs):
        self.cb('update', self, args[0] if args else None)
        return None


class Prior2:
    """hstack([a, b]) of two per-qubit probability arrays."""

    def __init__(self, a, b):
        self.a, self.b = a, b

    def __repr__(self):
        return f'[{self.a!r} | {self.b!r}]'


class SectorHooks(Hooks):
    def __init__(self, model: Model, css: Optional[bool], log: list):
        self.model = model
        self.css = css
        self.log = log            # (kind, solver, arg, node) events of the current path
        self.store: dict = {}

    # ------------------------------------------------------------ solver events
    def _cb(self, kind, solver, arg):
        self.log.append((kind, solver, arg))

    def compare(self, it, op, a, b, node):
        # `p != 0` / `p > 0` / `p == 0` on a per-qubit probability: unknown, decided once per path
        for x, y in ((a, b), (b, a)):
            if isinstance(x, (Event, Ratio)) and isinstance(y, (int, float)) and not isinstance(y, bool) and y == 0:
                key = (repr(x), type(op).__name__)
                if isinstance(op, (ast.NotEq, ast.Gt, ast.Lt)):
                    return _Maybe(('nonzero', repr(x)))
                if isinstance(op, ast.Eq):
                    return _NotMaybe(_Maybe(('nonzero', repr(x))))
        return NOT_HANDLED

    # ------------------------------------------------------------------ attrs
    def attr(self, it, obj, name, node):
        if isinstance(obj, Obj) and obj.label == 'code':
            if name == 'Hx':
                return CheckMat('X')
            if name == 'Hz':
                return CheckMat('Z')
            if name == 'stabilizer_matrix':
                return CheckMat('all')
            if name == 'n':
                return NQ()
            if name == 'x_indices':
                return Mask('X')
            if name == 'z_indices':
                return Mask('Z')
            if name == 'is_css':
                return self.css if self.css is not None else TOP
            if name in ('size', 'k', 'd', 'id', 'label', 'qubit_coordinates', 'stabilizer_coordinates',
                        'qubit_index', 'stabilizer_index', 'n_stabilizers'):
                return TOP
        return NOT_HANDLED

    # ------------------------------------------------------------------ calls
    def call(self, it, func, args, kwargs, node, env):
        if isinstance(func, BoundMethod):
            nm = func.closure.fn.name
            o = func.obj
            if isinstance(o, Obj) and o.label == 'code':
                if nm == 'extract_x_syndrome':
                    return args[0].pqv_getitem(Mask('X')) if isinstance(args[0], Syn) else TOP
                if nm == 'extract_z_syndrome':
                    return args[0].pqv_getitem(Mask('Z')) if isinstance(args[0], Syn) else TOP
                if nm in ('measure_syndrome', 'to_bsf', 'from_bsf', 'is_stabilizer', 'stabilizer_type', 'qubit_axis'):
                    return TOP
            if nm == 'probability_distribution':
                self.log.append(('dist-args', args[0] if args else kwargs.get('code'),
                                 args[1] if len(args) > 1 else kwargs.get('error_rate')))
                return tuple(Event({p}) for p in PAULIS)
        if isinstance(func, Ext) and func.name in ('builtins.min', 'builtins.max', 'builtins.round', 'builtins.abs') \
                and any(isinstance(a, (Sym, Tagged)) for a in args):
            # a function of the decoder's error rate that is not the identity on [0, 1]
            return Tagged(func.name.split('.')[-1], *args)
        if isinstance(func, Ext) and func.name == 'builtins.float' and len(args) == 1 and isinstance(args[0], Sym):
            return args[0]
        if isinstance(func, Ext):
            last = func.name.split('.')[-1]
            if func.name.startswith('pymatching') and (last == 'Matching' or func.name.endswith('Matching.from_check_matrix')):
                # Matching(H, spacelike_weights=w) == Matching(H, weights=w) == Matching.from_check_matrix(H, weights=w);
                # parallel edges (identical columns) keep the lightest weight unless merge_strategy says otherwise
                known_kw = {'H', 'check_matrix', 'spacelike_weights', 'weights', 'merge_strategy'}
                if set(kwargs) - known_kw:
                    raise AnalysisError('R09.1', site_of(env.module, node),
                                        f'pymatching constructor keyword(s) {sorted(set(kwargs) - known_kw)} not modelled')
                H = args[0] if args else kwargs.get('H', kwargs.get('check_matrix'))
                w = kwargs.get('spacelike_weights', kwargs.get('weights', args[1] if len(args) > 1 else None))
                s = Solver('Matching', H, node, self._cb, prior=w)
                s.merge = kwargs.get('merge_strategy', 'smallest-weight')
                self.log.append(('construct', s, w))
                return s
            if func.name.startswith('ldpc') and last in ('BpOsdDecoder', 'bposd_decoder', 'BpDecoder', 'bp_decoder'):
                H = args[0] if args else kwargs.get('pcm')
                s = Solver('BpOsdDecoder', H, node, self._cb)
                # plain belief propagation has no post-processing stage: when it does not converge its output does
                # not satisfy the syndrome (the "complete decoder" clause rests on the OSD stage)
                s.complete = last in ('BpOsdDecoder', 'bposd_decoder')
                s.ctor = last
                for k_, v_ in kwargs.items():
                    s.configure(k_, v_, site_of(env.module, node))
                self.log.append(('construct', s, None))
                return s
            n = np_name(func)
            if n:
                return self._numpy(it, n, args, kwargs, node)
            if func.name == 'builtins.print':
                return None
        if isinstance(func, ClassRef):
            if func.ci.name == 'Support':
                syn = args[0] if args else kwargs.get('syndrome')
                H = args[1] if len(args) > 1 else kwargs.get('H')
                s = Solver('Support', H, node, self._cb)
                self.log.append(('construct', s, None))
                self.log.append(('decode-arg', s, syn))
                return s
            if func.ci.name in ('SweepDecoder3D', 'RotatedSweepDecoder3D'):
                o = Obj(func.ci, 'sweeper')
                return o
        if isinstance(func, BoundMethod) and isinstance(func.obj, Obj) and func.obj.label == 'sweeper' \
                and func.closure.fn.name == 'decode':
            # Z-only correction (decided by C10 R10.2): to_bsf of a dictionary of 'Z' entries
            self.log.append(('sweep-decode', func.obj, args[0] if args else None))
            return Full(None, Corr('Z', 'sweep decoder'))
        return NOT_HANDLED

    def _numpy(self, it, n, args, kwargs, node):
        if n in ('zeros', 'zeros_like'):
            a = args[0] if args else None
            if isinstance(a, TwoN):
                return Full()
            if isinstance(a, NQ):
                return ProbCell()
            return TOP
        if n in ('array', 'asarray') and args and isinstance(args[0], (Syn, Corr, Full)):
            if isinstance(args[0], Syn):
                return Syn(args[0].kind, 'copy')
            return args[0]
        out_ = kwargs.get('out')
        if out_ is not None:
            wh = kwargs.get('where')
            if isinstance(out_, ProbCell) and n in ('divide', 'true_divide') and len(args) == 2 \
                    and (wh is None or isinstance(wh, (_Flipped, _Maybe))):
                if wh is None or wh.pqv_truth():
                    out_.value = args[0] / args[1] if hasattr(args[0], '__truediv__') else TOP
                    self.log.append(('prob-store', dict(self.store), out_.value))
                return out_
            raise AnalysisError('R05.3', f'numpy.{n}', f'call with out={out_!r} is not modelled')
        if n in ('flatnonzero',) and len(args) == 1 and isinstance(args[0], (_Flipped, _Maybe)):
            return _IdxSet(args[0])
        if n in ('nonzero', 'where') and len(args) == 1 and isinstance(args[0], (_Flipped, _Maybe)):
            return (_IdxSet(args[0]),)
        if n == 'where' and len(args) == 3 and isinstance(args[0], (_Flipped, _Maybe)):
            return args[1] if args[0].pqv_truth() else args[2]
        if n in ('hstack', 'concatenate') and args and isinstance(args[0], (list, tuple)) and len(args[0]) == 2:
            a, b = [v.value if isinstance(v, ProbCell) and isinstance(v.value, Corr) else v for v in args[0]]
            zero = lambda v: isinstance(v, ProbCell) and isinstance(v.value, int) and v.value == 0
            if (zero(a) or zero(b)) and all(isinstance(v, Corr) or zero(v) for v in (a, b)):
                # a half that is a constant zero vector of length n: that half is not filled
                f = Full(None if zero(a) else a, None if zero(b) else b)
                if isinstance(a, Corr) and a.sector != 'X':
                    f.bad.append(f'first half of the returned vector is the {a.sector}-correction')
                if isinstance(b, Corr) and b.sector != 'Z':
                    f.bad.append(f'second half of the returned vector is the {b.sector}-correction')
                return f
            if isinstance(a, Corr) and isinstance(b, Corr):
                f = Full(a, b)
                if a.sector != 'X':
                    f.bad.append(f'first half of the returned vector is the {a.sector}-correction')
                if b.sector != 'Z':
                    f.bad.append(f'second half of the returned vector is the {b.sector}-correction')
                return f
            if isinstance(a, (Event, Bad)) and isinstance(b, (Event, Bad)):
                return Prior2(a, b)
            return TOP
        # probabilities lie in [0, 1]: clamping to that interval is the identity
        if n in ('maximum', 'fmax') and len(args) == 2 and not kwargs:
            for x, y in ((args[0], args[1]), (args[1], args[0])):
                if isinstance(x, (Event, Ratio)) and isinstance(y, (int, float)) and not isinstance(y, bool) and y <= 0:
                    return x
        if n in ('minimum', 'fmin') and len(args) == 2 and not kwargs:
            for x, y in ((args[0], args[1]), (args[1], args[0])):
                if isinstance(x, (Event, Ratio)) and isinstance(y, (int, float)) and not isinstance(y, bool) and y >= 1:
                    return x
        if n == 'clip' and len(args) == 3 and not kwargs and isinstance(args[0], (Event, Ratio)) \
                and all(isinstance(y, (int, float)) and not isinstance(y, bool) for y in args[1:]) and args[1] <= 0 and args[2] >= 1:
            return args[0]
        r = elementwise(n, args, kwargs)
        if r is not NOT_HANDLED:
            return r
        return TOP

    # ------------------------------------------------------------- subscripts
    def store_subscript(self, it, obj, idx, value, node, env):
        if isinstance(obj, Full) and isinstance(idx, SliceV) and idx.step is None:
            if idx.lo is None and idx.hi is NQ():
                half = 'X'
            elif idx.lo is NQ() and idx.hi is None:
                half = 'Z'
            else:
                obj.bad.append(f'store into an unrecognised slice {idx!r}')
                return None
            if isinstance(value, Corr):
                if value.sector != half:
                    obj.bad.append(f'{value!r} (from {value.source}) stored into the {half} half')
                if half == 'X':
                    obj.x = value
                else:
                    obj.z = value
            else:
                obj.bad.append(f'{value!r} stored into the {half} half')
            return None
        if isinstance(obj, ProbCell) and isinstance(value, Corr) and isinstance(idx, SliceV) \
                and idx.lo is None and idx.hi is None and idx.step is None:
            # zeros(n) used as the buffer of one sector's correction: buf[:] = correction
            obj.value = value
            return None
        if isinstance(obj, ProbCell):
            if isinstance(idx, _IdxSet):
                idx = idx.mask
            if isinstance(idx, (_Flipped, _Maybe)) and not idx.pqv_truth():
                return None                      # masked store: the generic qubit is not selected on this path
            obj.value = value
            self.log.append(('prob-store', dict(self.store), value))
            return None
        if isinstance(obj, Syn):
            self.log.append(('syndrome-store', obj, idx))
            return None
        return NOT_HANDLED


# --------------------------------------------------------------------------
# driver


def _mk_env(model: Model, deccls: ClassInfo):
    code = Obj(model.cls('StabilizerCode'), 'code')
    em = Obj(model.cls('PauliErrorModel'), 'error_model')
    return code, em


def _interp_decoder(model: Model, deccls: ClassInfo, css: Optional[bool], ctor_kwargs: dict, rule: str):
    """Interpret __init__ then decode(syndrome) on fresh abstract objects; returns list of
    (outcome, log) per path."""
    results = []
    log: list = []
    hooks = SectorHooks(model, css, log)
    it = Interp(model, hooks)
    it.recursion_raises = False
    init = deccls.find_method('__init__')
    dec = deccls.find_method('decode')

    def thunk():
        log.clear()
        hooks.store.clear()
        _CUR['it'], _CUR['store'] = it, hooks.store
        code, em = _mk_env(model, deccls)
        o = Obj(deccls, 'decoder')
        from ..domains import Sym
        it.call_closure(Closure(init[1], init[0].module, init[0]), [code, em, Sym('error_rate')],
                        dict(ctor_kwargs), init[1], self_obj=o)
        n_init = len(log)
        v = it.call_closure(Closure(dec[1], dec[0].module, dec[0]), [Syn()], {}, dec[1], self_obj=o)
        return v, list(log), n_init
    outs = guard(rule, dec[0].module, dec[1])(lambda: it.explore(thunk))
    return outs, dec


def expected_weight(sector: str) -> LogRatio:
    e = FLIP[sector]
    return LogRatio(Ratio(e, Event(ALL - e.s)), -1)


def analyse_get_weights(model: Model) -> List[Fact]:
    """BaseErrorModel.get_weights returns (-log odds of X flip, -log odds of Z flip)."""
    ci, fn = model.method('BaseErrorModel', 'get_weights')
    mi = ci.module
    log: list = []
    hooks = SectorHooks(model, True, log)
    it = Interp(model, hooks)
    code = Obj(model.cls('StabilizerCode'), 'code')
    em = Obj(ci, 'error_model')
    from ..domains import Sym
    outs = guard('R07.5', mi, fn)(lambda: it.explore(
        lambda: it.call_closure(Closure(fn, mi, ci), [code, Sym('error_rate')], {}, fn, self_obj=em)))
    site = site_of(mi, fn)
    facts = []
    if len(outs) != 1 or outs[0].kind != 'return':
        raise AnalysisError('R07.5', site, f'get_weights: unexpected paths {outs!r}')
    da = [(repr(e[1]), repr(e[2])) for e in log if e[0] == 'dist-args']
    facts.append(Fact('get_weights', 'BaseErrorModel', 'args', site,
                      'get_weights asks the channel for (code, error_rate) of its own arguments',
                      da == [(repr(code), repr(Sym('error_rate')))],
                      f'probability_distribution called with {da!r}', key='BaseErrorModel.get_weights|dist-args', facts=da))
    v = outs[0].value
    ok = isinstance(v, tuple) and len(v) == 2
    for i, sector in enumerate(('X', 'Z')):
        got = v[i] if ok else v
        want = expected_weight(sector)
        facts.append(Fact('get_weights', 'BaseErrorModel', sector, site,
                          f'get_weights()[{i}] = -log(P{{{sector} flip}}/(1-P{{{sector} flip}}))',
                          ok and got == want, f'got {got!r}, expected {want!r}',
                          key=f'BaseErrorModel.get_weights|{sector}', facts=repr(got)))
        if 'TOP' in repr(got):
            facts[-1].lost = True          # a value the analysis lost is undecided, never a violation
    return facts


DECODER_CONFIGS = {
    'MatchingDecoder': [('error_type=None', True, {}), ("error_type='X'", True, {'error_type': 'X'}),
                        ("error_type='Z'", True, {'error_type': 'Z'})],
    'BeliefPropagationOSDDecoder': [('CSS', True, {}), ('CSS, channel_update', True, {'channel_update': True}),
                                    ('non-CSS', False, {}), ('non-CSS, channel_update', False, {'channel_update': True}),
                                    # osd_order=0 is what the GUI and the example inputs use
                                    ('CSS, osd_order=0', True, {'osd_order': 0}), ('non-CSS, osd_order=0', False, {'osd_order': 0})],
    'UnionFindDecoder': [('CSS', True, {})],
    'SweepMatchDecoder': [('CSS', True, {})],
    'RotatedSweepMatchDecoder': [('CSS', True, {})],
}


def analyse(model: Model, only=None) -> List[Fact]:
    """Facts about every decoder in DECODER_CONFIGS (or those named in `only`: a property that is about some of
    the decoders is not undecided because another decoder uses a construct the analysis does not follow)."""
    facts: List[Fact] = []
    facts += analyse_get_weights(model)
    for name, configs in DECODER_CONFIGS.items():
        if only is not None and name not in only:
            continue
        ci = model.cls(name)
        for label, css, kw in configs:
            outs, dec = _interp_decoder(model, ci, css, kw, 'R05.3')
            site = site_of(dec[0].module, dec[1])
            rets = [o for o in outs if o.kind == 'return']
            if not rets:
                raise AnalysisError('R05.3', site, f'{name} [{label}]: no returning path: {outs[:3]!r}')
            for pi, o in enumerate(rets):
                v, log, n_init = o.value
                cfg = f'{label}' + (f', path {pi + 1}' if len(rets) > 1 else '')
                facts += _judge(name, cfg, site, v, log, n_init, kw)
    return facts


def raise_if_lost(facts) -> None:
    """Called by a property module once the facts it uses have been reported: any of them undecided makes the check
    undecided (violations reported before take precedence)."""
    for f in facts:
        if f.lost:
            raise AnalysisError('R05.3', f.site, f'{f.what}: value not tracked by the analysis ({f.detail})')


def _judge(name, cfg, site, v, log, n_init, kw) -> List[Fact]:
    out: List[Fact] = []
    solvers = [e[1] for e in log if e[0] == 'construct']
    # O1 weights / construction
    for kind, s, arg in log:
        if kind != 'construct':
            continue
        H = s.H
        okH = isinstance(H, CheckMat)
        out.append(Fact('matrix', name, cfg, site, f'{name} [{cfg}]: {s.kind} built on a check matrix of the code', okH,
                        f'{s.kind} constructed on {H!r}', key=f'{name}|{cfg}|{s.kind}|matrix[{H!r}]', facts=repr(H)))
        if s.kind == 'BpOsdDecoder':
            out.append(Fact('matrix', name, cfg, site, f'{name} [{cfg}]: the ldpc decoder on {H!r} has an OSD stage (always returns '
                                                       f'a correction with the given syndrome)', getattr(s, 'complete', True),
                            f'constructed as ldpc.{getattr(s, "ctor", "?")}: plain BP returns its last iterate when it does not '
                            f'converge, which need not reproduce the syndrome', key=f'{name}|{cfg}|complete[{H!r}]',
                            facts=getattr(s, 'ctor', None)))
        if s.kind == 'BpOsdDecoder':
            rnd = getattr(s, 'random', None)
            out.append(Fact('deterministic', name, cfg, site, f'{name} [{cfg}]: the ldpc decoder on {H!r} is configured without a '
                                                              f'random schedule (decode is a function of the syndrome)',
                            rnd is None, f'{rnd[0] if rnd else ""}={rnd[1] if rnd else ""!r} switches on the random serial '
                            f'schedule: its generator lives in the long-lived ldpc object and advances on every decode, so the '
                            f'correction for a syndrome depends on the calls made before',
                            key=f'{name}|{cfg}|deterministic[{H!r}]', facts=repr(rnd)))
        if s.kind == 'Matching' and okH and H.rows in ('X', 'Z'):
            want = expected_weight(H.detects)
            given_weights = 'weights' in kw
            ok = (arg == want) if not given_weights else True
            out.append(Fact('weights', name, cfg, site,
                            f'{name} [{cfg}]: matcher on {H!r} (detects {H.detects} errors) weighted by the '
                            f'{H.detects}-flip log-likelihood ratio', ok,
                            f'weights are {arg!r}, expected {want!r}', key=f'{name}|{cfg}|weights[{H!r}]',
                            facts=repr(arg)))
            merge = getattr(s, 'merge', 'smallest-weight')
            out.append(Fact('weights', name, cfg, site,
                            f'{name} [{cfg}]: qubits with identical columns of {H!r} keep the lightest weight', 
                            merge == 'smallest-weight',
                            f'merge_strategy={merge!r}: parallel edges are combined into an edge whose weight is not the '
                            f'weight of any qubit, so the matching no longer minimises the log-likelihood weight',
                            key=f'{name}|{cfg}|merge[{H!r}]', facts=repr(merge)))
    # the channel the weights / priors are computed from is that of the decoder's own code and error rate
    seen_da = set()
    for ent in log:
        if ent[0] != 'dist-args':
            continue
        _, code_arg, rate_arg = ent
        k_ = (repr(code_arg), repr(rate_arg))
        if k_ in seen_da:
            continue
        seen_da.add(k_)
        ok = isinstance(code_arg, Obj) and code_arg.label == 'code' and isinstance(rate_arg, Sym) and rate_arg.name == 'error_rate'
        if not ok and (rate_arg is TOP or code_arg is TOP):
            raise AnalysisError('R05.3', site, f'{name} [{cfg}]: arguments of probability_distribution not tracked '
                                               f'({code_arg!r}, {rate_arg!r})')
        out.append(Fact('rate', name, cfg, site, f'{name} [{cfg}]: weights / priors come from the channel at the decoder\'s '
                                                 f'own code and error rate', ok,
                        f'probability_distribution is asked for ({code_arg!r}, {rate_arg!r}); the decoder was constructed '
                        f'with (code, error_rate)', key=f'{name}|{cfg}|rate[{rate_arg!r}]', facts=repr(rate_arg)))
    # O2 syndrome parts / O3 priors
    for kind, s, arg in log:
        if kind == 'decode' and s.kind == 'Support':
            continue                     # the syndrome of a Support is given at construction
        if kind in ('decode', 'decode-arg') and isinstance(s.H, CheckMat):
            want_kind = s.H.rows
            ok = isinstance(arg, Syn) and arg.kind == want_kind
            out.append(Fact('syndrome', name, cfg, site,
                            f'{name} [{cfg}]: {s.kind} on {s.H!r} decodes the syndrome of the same rows', ok,
                            f'{s.kind} on {s.H!r} is given {arg!r}', key=f'{name}|{cfg}|syndrome[{s.H!r}]',
                            facts=repr(arg)))
        if kind == 'update' and isinstance(s.H, CheckMat):
            if s.H.rows == 'all':
                ok = isinstance(arg, Prior2) and arg.a == FLIP['Z'] and arg.b == FLIP['X']
                want = '[P{Z flip} | P{X flip}] (column order of [H_X | H_Z])'
            else:
                d = s.H.detects
                ok = arg == FLIP[d] or _is_conditional(arg, d)
                want = f'P{{{d} flip}} = {FLIP[d]!r} (or its conditional update)'
            out.append(Fact('prior', name, cfg, site,
                            f'{name} [{cfg}]: channel probabilities of {s.kind} on {s.H!r}', ok,
                            f'given {_show(arg)}, expected {want}', key=f'{name}|{cfg}|prior[{s.H!r}]',
                            facts=_show(arg)))
    # conditional-update formulas
    for kind, st, value in log:
        if kind == 'prob-store':
            corr = st.get('flipped_corr')
            if corr is None or 'flipped' not in st:
                out.append(Fact('update-formula', name, cfg, site, f'{name} [{cfg}]: conditional update', False,
                                f'probability {value!r} stored without testing the conditioning correction',
                                key=f'{name}|{cfg}|update|untested'))
                continue
            cond = corr.sector                 # sector whose correction we condition on
            tgt = OTHER[cond]
            C = FLIP[cond] if st['flipped'] else Event(ALL - FLIP[cond].s)
            want = Ratio(Event(FLIP[tgt].s & C.s), C)
            ok = value == want
            out.append(Fact('update-formula', name, cfg, site,
                            f'{name} [{cfg}]: P({tgt} flip | {cond} {"flipped" if st["flipped"] else "not flipped"})',
                            ok, f'stored {value!r}, expected {want!r}',
                            key=f'{name}|{cfg}|update[{cond}->{tgt},{"1" if st["flipped"] else "0"}]',
                            facts=repr(value)))
    # typestate per solver (this call only: events after n_init)
    for s in {e[1] for e in log if e[0] in ('decode', 'update', 'read')}:
        if s.kind != 'BpOsdDecoder':
            continue
        seq = [e[0] for e in log[n_init:] if e[1] is s and e[0] in ('decode', 'update', 'read')]
        ok, why = True, ''
        fresh = False
        decoded = False
        buffers = [e[2] for e in log[n_init:] if e[1] is s and e[0] == 'read']
        if buffers:
            ok, why = False, (f'result taken from the attribute(s) {sorted(set(buffers))} instead of the value returned by '
                              f'decode(): ldpc refreshes these buffers only when the post-processing runs, so after a '
                              f'converged BP run they still hold the output of an earlier call')
        for ev in seq:
            if ev == 'update':
                fresh = True
            elif ev == 'decode':
                if not fresh:
                    ok, why = False, 'decode() without a preceding update_channel_probs() in the same call: ' \
                                     'priors left over from the previous call (or overwritten mid-call) are reused'
                fresh = False
                decoded = True
            elif ev == 'read':
                if not decoded:
                    ok, why = False, 'result buffer read before decode() in this call: result of a previous call'
        if 'decode' not in seq:
            continue
        out.append(Fact('typestate', name, cfg, site,
                        f'{name} [{cfg}]: {s!r}: reset priors -> decode -> use the returned value', ok,
                        why + f' (sequence {seq})', key=f'{name}|{cfg}|typestate[{s.H!r}]', facts=seq))
    # output
    ok = isinstance(v, Full) and not v.bad
    detail = ''
    if not isinstance(v, Full):
        detail = f'decode returns {v!r}, not a length-2n vector assembled as [X-correction | Z-correction]'
    elif v.bad:
        detail = '; '.join(v.bad)
    out.append(Fact('output', name, cfg, site, f'{name} [{cfg}]: decode returns [X-correction | Z-correction] of length 2n',
                    ok, detail, key=f'{name}|{cfg}|output', facts=repr(v)))
    # a value the interpretation lost track of is not evidence of anything: undecided, never a violation (and an
    # undecided fact on one path does not hide a violation established on another: see analyse)
    for f in out:
        if not f.ok and 'TOP' in f.detail:
            f.lost = True
    if isinstance(v, Full):
        # which halves must be present
        et = kw.get('error_type')
        need_x = et in (None, 'X')
        need_z = et in (None, 'Z')
        got_x, got_z = v.x is not None, v.z is not None
        okh = (got_x == need_x) and (got_z == need_z)
        out.append(Fact('output', name, cfg, site, f'{name} [{cfg}]: halves filled match the sectors decoded', okh,
                        f'X half filled: {got_x} (expected {need_x}), Z half filled: {got_z} (expected {need_z})',
                        key=f'{name}|{cfg}|halves', facts={'x': repr(v.x), 'z': repr(v.z)}))
    for kind, s, arg in log:
        if kind == 'sweep-decode':
            ok = isinstance(arg, Syn) and arg.kind == 'all'
            out.append(Fact('syndrome', name, cfg, site, f'{name} [{cfg}]: sweep sub-decoder receives the full syndrome',
                            ok, f'given {arg!r}', key=f'{name}|{cfg}|sweep-syndrome', facts=repr(arg)))
    # the caller's syndrome is never stored into
    for kind, s, idx in log:
        if kind == 'syndrome-store' and s.origin == 'param':
            out.append(Fact('purity', name, cfg, site, f'{name} [{cfg}]: store through the syndrome argument', False,
                            f'syndrome[{idx!r}] assigned in decode', key=f'{name}|{cfg}|syndrome-store'))
    return out


def _is_conditional(arg, target: str) -> bool:
    """ProbCell holding a conditional probability of the target flip."""
    if isinstance(arg, ProbCell):
        v = arg.value
        if isinstance(v, Ratio):
            return v.num.s <= FLIP[target].s
        if isinstance(v, int) and v == 0:
            return True          # guarded division: the conditioning event has probability zero
    return False


def _show(arg) -> str:
    if isinstance(arg, ProbCell):
        return f'conditional array (last entry {arg.value!r})'
    return repr(arg)
