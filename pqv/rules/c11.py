"""C11 - Monte-Carlo trials are self-consistent and reproducible (structural clauses)."""
from __future__ import annotations

import ast
import math

import numpy as np

from ..domains import Sym
from ..effects import Effects
from ..interp import (NOT_HANDLED, TOP, BoundMethod, ClassRef, Closure, Env, Ext, Hooks, Interp, Obj, guard,
                      site_of, truth)
from ..model import AnalysisError, norm_stmt, parent_map
from ..nphooks import Tagged, np_name
from ..report import Ctx
from ..symnp import call_numpy
from .c06 import effects
from .simfacts import Atom, Term, TermHooks, is_all_zero

EXPLANATION = (
    'Partial. R11.1: run_once is interpreted with every simulation step as an uninterpreted term: the recorded '
    'dictionary must bind error <- generate(code, rate, rng), syndrome <- measure_syndrome(error), correction <- '
    'decode(syndrome), effective_error <- logical effect of (correction + error) mod 2, codespace <- '
    'in_codespace of that same total; the generator passed in is the one handed to generate. R11.2: '
    'DirectSimulation._run is interpreted for k trials from empty and from pre-loaded results: every per-trial '
    'list grows by exactly k in call order and n_runs by k; get_results is evaluated on concrete success '
    'patterns: n_fail = #failures, n_runs = #trials, p_est = n_fail/n_runs, p_se = sqrt(p(1-p)/(n+1)). '
    'R11.3: in everything reachable from DirectSimulation._run (whole-package call graph) a call to a '
    'process-global generator (random.*, np.random.<function>, unseeded default_rng()) occurs only under an '
    '`rng is None` guard, and _run passes self.rng down. Unbiasedness against the exact failure probability and '
    'bit-for-bit equality of third-party decoders are NOT decided.'
)


class _H111(TermHooks):
    def __init__(self, store):
        self.store = store
        self.calls = []

    def call(self, it, func, args, kwargs, node, env):
        if isinstance(func, _OMeth):
            nm, lab = func.name, func.obj.label
            if lab == 'error_model' and nm == 'generate':
                params = ['code', 'error_rate', 'rng']
                b = dict(zip(params, args))
                b.update(kwargs)
                self.calls.append(('generate', b))
                return Term('error')
            if lab == 'code' and nm == 'measure_syndrome':
                return Term('syndrome', *args)
            if lab == 'decoder' and nm == 'decode':
                return Term('correction', *args)
            if lab == 'code' and nm == 'in_codespace':
                self.calls.append(('in_codespace', args[0] if args else None))
                return Atom('A', it, self.store)
            if lab == 'code' and nm == 'logical_errors':
                return Term('effect', args[0], Term('lx'), Term('lz'))
            return TOP
        if isinstance(func, Closure) and getattr(func.fn, 'name', '') == 'get_effective_error':
            return Term('effect', *args)
        if isinstance(func, Ext) and func.name == 'numpy.random.default_rng':
            return Term('fresh_rng', *args)
        if isinstance(func, Ext) and func.name in ('numpy.zeros_like', 'numpy.zeros') and args:
            return Term('zeros')                      # a zero vector (not the error, not the correction)
        return super().call(it, func, args, kwargs, node, env)

    def attr(self, it, obj, name, node):
        if isinstance(obj, Obj) and obj.label == 'code' and name in ('logicals_x', 'logicals_z'):
            return Term('lx' if name == 'logicals_x' else 'lz')
        if isinstance(obj, Obj) and obj.ci is None and obj.label in ('code', 'error_model', 'decoder'):
            return _OMeth(obj, name)
        return NOT_HANDLED


class _OMeth:
    def __init__(self, obj, name):
        self.obj, self.name = obj, name


def run_once_keys(ctx: Ctx):
    """Keys of the dictionary run_once returns: a literal (returned directly or through one local), `**` of the
    dictionary a helper of the same module returns included."""
    modname = 'panqec.simulation._direct_simulation'
    mi, fn = ctx.model.func(modname, 'run_once')

    def dict_of(f, depth=0):
        for n in ast.walk(f):
            if not isinstance(n, ast.Return) or n.value is None:
                continue
            d = n.value
            if isinstance(d, ast.Name):
                defs = [a.value for a in ast.walk(f) if isinstance(a, ast.Assign) and isinstance(a.targets[0], ast.Name)
                        and a.targets[0].id == d.id]
                d = defs[0] if len(defs) == 1 else None
            if isinstance(d, ast.Dict):
                return d
        return None

    def keys_of(d, depth=0):
        out = []
        for k, v in zip(d.keys, d.values):
            if isinstance(k, ast.Constant):
                out.append(k.value)
            elif k is None and isinstance(v, ast.Call) and isinstance(v.func, ast.Name) and depth < 2:
                try:
                    _, f2 = ctx.model.func(modname, v.func.id)
                except Exception:
                    raise AnalysisError('R11.1', site_of(mi, fn), f'run_once: **{v.func.id}(...) not resolved')
                d2 = dict_of(f2)
                if d2 is None:
                    raise AnalysisError('R11.1', site_of(mi, fn), f'run_once: dictionary returned by {v.func.id} not found')
                out += keys_of(d2, depth + 1)
            else:
                raise AnalysisError('R11.1', site_of(mi, fn), 'run_once: returned dictionary has computed keys')
        return out
    d = dict_of(fn)
    if d is None:
        raise AnalysisError('R11.1', site_of(mi, fn), 'run_once: returned dictionary literal not found')
    return keys_of(d)


def _r111(ctx: Ctx) -> None:
    m = ctx.model
    mi, fn = m.func('panqec.simulation._direct_simulation', 'run_once')
    site = site_of(mi, fn)
    for given in (True, False):
        store = {}
        hooks = _H111(store)
        it = Interp(m, hooks)
        code, em, dec = Obj(None, 'code'), Obj(None, 'error_model'), Obj(None, 'decoder')
        rng = Term('caller_rng') if given else None

        def thunk():
            store.clear()
            hooks.calls.clear()
            v = it.call_closure(Closure(fn, mi), [code, em, dec, 0.25], {'rng': rng}, fn)
            return v, list(hooks.calls)
        outs = guard('R11.1', mi, fn)(lambda: it.explore(thunk))
        rets = [o for o in outs if o.kind == 'return']
        ctx.need(rets, 'R11.1', site, f'run_once: no returning path: {outs!r}')
        err = Term('error')
        syn = Term('syndrome', err)
        cor = Term('correction', syn)
        total = Term('mod', Term('add', *sorted((cor, err), key=repr)), 2)
        bad = None
        for o in rets:
            res, calls = o.value
            if not isinstance(res, dict):
                bad = f'run_once returns {res!r}'
                break
            want = {'error': err, 'syndrome': syn, 'correction': cor}
            for k, w in want.items():
                if res.get(k) != w:
                    bad = f"results['{k}'] = {res.get(k)!r}, expected {w!r}"
            eff = res.get('effective_error')
            if not (isinstance(eff, Term) and eff.f == 'effect' and eff.args and eff.args[0] == total):
                bad = f"results['effective_error'] = {eff!r}, expected the logical effect of {total!r}"
            ics = [c for c in calls if c[0] == 'in_codespace']
            if len(ics) != 1 or ics[0][1] != total:
                bad = f'in_codespace evaluated on {[c[1] for c in ics]!r}, expected {total!r}'
            cs = res.get('codespace')
            if not (isinstance(cs, (Atom, bool))):
                bad = f"results['codespace'] = {cs!r} is not the in_codespace verdict"
            elif isinstance(cs, bool) and cs != store.get('A'):
                bad = f"results['codespace'] does not equal the in_codespace verdict"
            gens = [c for c in calls if c[0] == 'generate']
            if len(gens) != 1:
                bad = f'{len(gens)} calls of generate'
            else:
                b = gens[0][1]
                if b.get('code') is not code or b.get('error_rate') != 0.25:
                    bad = f'generate called with code={b.get("code")!r}, error_rate={b.get("error_rate")!r}'
                if given and b.get('rng') != rng:
                    bad = f'generate receives rng={b.get("rng")!r} instead of the generator passed to run_once'
                if not given and not (isinstance(b.get('rng'), Term) and b.get('rng').f == 'fresh_rng'):
                    bad = f'without a generator run_once passes rng={b.get("rng")!r}'
            if bad:
                break
        ctx.ob('R11.1', site, f'run_once pipeline and recorded dictionary ({"rng supplied" if given else "rng=None"})',
               bad is None, bad or '', key=f'run_once|pipeline[{given}]',
               facts={k: repr(v) for k, v in rets[0].value[0].items()} if isinstance(rets[0].value[0], dict) else None)
    # recorded success = codespace and no logical effect (same evaluation as C04 R04.1)
    from .c04 import _classify_def, _table_with_effect_terms, home_of
    kinds = {}
    target = None
    mi, fn = home_of(m, 'panqec.simulation._direct_simulation', mi, fn, lambda f: any(
        isinstance(n, ast.Dict) and any(isinstance(k, ast.Constant) and k.value == 'success' for k in n.keys)
        for n in ast.walk(f)))
    for n in ast.walk(fn):
        if isinstance(n, ast.Assign) and len(n.targets) == 1 and isinstance(n.targets[0], ast.Name):
            k = _classify_def(ctx, mi, n.value, kinds)
            if k:
                kinds[n.targets[0].id] = k
    succ_key = None
    for n in ast.walk(fn):
        if isinstance(n, ast.Dict):
            for k, v in zip(n.keys, n.values):
                if isinstance(k, ast.Constant) and k.value == 'success':
                    succ_key = v
    ctx.need(succ_key is not None, 'R11.1', site, "run_once: 'success' entry not found")
    expr = succ_key
    if isinstance(succ_key, ast.Name):
        defs = [n for n in ast.walk(fn) if isinstance(n, ast.Assign) and isinstance(n.targets[0], ast.Name)
                and n.targets[0].id == succ_key.id]
        ctx.need(len(defs) == 1, 'R11.1', site, 'run_once: definition of success not found')
        expr = defs[0].value
    table = _table_with_effect_terms(ctx, mi, fn, expr, kinds)
    oks = len(table) == 4 and all(v == (a and not b) for (a, b), v in table.items())
    ctx.ob('R11.1', site_of(mi, expr), 'run_once: recorded success <=> codespace and zero effective error', oks,
           f'table (A=codespace, B=logical effect) -> success: {sorted(table.items())}', key='run_once|success')
    # error rate validated
    mi, fn = m.func('panqec.simulation._direct_simulation', 'run_once')
    guards = [n for n in ast.walk(fn) if isinstance(n, ast.If) and any(isinstance(s, ast.Raise) for s in n.body)
              and 'error_rate' in ast.unparse(n.test)]
    ctx.ob('R11.1', site, 'run_once rejects error rates outside [0, 1]', len(guards) >= 1,
           'no guard on error_rate found', key='run_once|rate-guard',
           facts=[ast.unparse(g.test) for g in guards])


def _r112(ctx: Ctx) -> None:
    m = ctx.model
    ci = m.cls('DirectSimulation')
    mi = ci.module
    keys = run_once_keys(ctx)
    init = ci.find_method('__init__')
    run = ci.methods.get('_run')
    ctx.need(run is not None, 'R11.2', site_of(mi, ci.node), 'DirectSimulation._run not found')
    site = site_of(mi, run)

    class H(Hooks):
        def __init__(self):
            self.n = 0
            self.rngs = []

        def call(self, it, func, args, kwargs, node, env):
            if isinstance(func, Closure) and getattr(func.fn, 'name', '') == 'run_once':
                self.n += 1
                self.rngs.append(kwargs.get('rng', args[4] if len(args) > 4 else 'missing'))
                return {k: Tagged(k, self.n) for k in keys}
            return NOT_HANDLED

    def mk(o):
        o.fields.update({'id': 'ID', 'params': {}, 'n': 1, 'k': 1, 'd': 1})
        return o
    initial = []
    for preload in (0, 2):
        hooks = H()
        it = Interp(m, hooks)

        def thunk():
            hooks.n = 0
            hooks.rngs.clear()
            sim = Obj(ci, 'sim')
            it.call_closure(Closure(init[1], init[0].module, init[0]),
                            [mk(Obj(None, 'code')), mk(Obj(None, 'error_model')), mk(Obj(None, 'decoder')), 0.1],
                            {'rng': Term('sim_rng')}, init[1], self_obj=sim)
            res = sim.fields['_results']
            lists = sorted(k for k, v in res.items() if isinstance(v, list))
            initial.append({k: (list(v) if isinstance(v, list) else v) for k, v in res.items()})
            for k in lists:
                res[k].extend(Tagged('old', k, i) for i in range(preload))
            res['n_runs'] = preload
            it.call_closure(Closure(run, mi, ci), [3], {}, run, self_obj=sim)
            return res, lists, list(hooks.rngs)
        outs = guard('R11.2', mi, run)(lambda: it.explore(thunk))
        ctx.need(len(outs) == 1 and outs[0].kind == 'return', 'R11.2', site, f'_run: paths {outs!r}')
        res, lists, rngs = outs[0].value
        bad = None
        if set(lists) != {'effective_error', 'success', 'codespace'}:
            bad = f'per-trial lists are {lists}, expected effective_error/success/codespace'
        for k in lists:
            if k not in keys:
                bad = f"per-trial list '{k}' is not a key of run_once's result"
            want = [Tagged('old', k, i) for i in range(preload)] + [Tagged(k, i) for i in (1, 2, 3)]
            if res[k] != want:
                bad = f"results['{k}'] = {res[k]!r}; expected one append per trial, in order: {want!r}"
        if res.get('n_runs') != preload + 3:
            bad = f"n_runs = {res.get('n_runs')!r} after 3 trials starting from {preload}"
        if any(r != Term('sim_rng') for r in rngs) or len(rngs) != 3:
            bad = f'run_once called with rng = {rngs!r}; expected the simulation\'s generator every time'
        ctx.ob('R11.2', site, f'DirectSimulation._run: 3 trials from {preload} loaded: lists +3, n_runs +3, rng threaded',
               bad is None, bad or '', key=f'DirectSimulation._run|accounting[{preload}]',
               facts={k: len(v) if isinstance(v, list) else v for k, v in res.items()})

    # a new simulation starts from nothing: empty lists, zero runs (the lists have length n_runs from the first trial on)
    ctx.need(initial, 'R11.2', site, 'initial results not observed')
    ini = initial[0]
    bad0 = None
    if ini.get('n_runs') != 0:
        bad0 = f"a new simulation starts with n_runs = {ini.get('n_runs')!r}"
    elif any(isinstance(v, list) and v for v in ini.values()):
        bad0 = f'a new simulation starts with non-empty lists: { {k: v for k, v in ini.items() if isinstance(v, list) and v} }'
    elif ini.get('wall_time') != 0:
        bad0 = f"a new simulation starts with wall_time = {ini.get('wall_time')!r}"
    ctx.ob('R11.2', site_of(mi, init[1]), 'a new DirectSimulation starts with n_runs = 0, wall_time = 0 and empty per-trial lists',
           bad0 is None, bad0 or '', key='DirectSimulation.__init__|initial-results', facts={k: repr(v) for k, v in ini.items()})
    # estimator
    gr = ci.methods.get('get_results')
    ctx.need(gr is not None, 'R11.2', site_of(mi, ci.node), 'get_results not found')

    class HN(Hooks):
        def call(self, it, func, args, kwargs, node, env):
            r = call_numpy(func, args, kwargs)
            if r is not NOT_HANDLED:
                return r
            n = np_name(func)
            if n == 'sqrt':
                return float(np.sqrt(args[0]))
            return NOT_HANDLED

        def attr(self, it, obj, name, node):
            if isinstance(obj, Ext) and obj.name == 'numpy' and name == 'nan':
                return float('nan')
            return NOT_HANDLED
    for pattern in ([True, False, False, True, False], [True] * 4, [False] * 3, []):
        it = Interp(m, HN())

        def thunk():
            sim = Obj(ci, 'sim')
            sim.fields['_results'] = {'success': list(pattern), 'n_runs': len(pattern)}
            return it.call_closure(Closure(gr, mi, ci), [], {}, gr, self_obj=sim)
        outs = guard('R11.2', mi, gr)(lambda: it.explore(thunk))
        if len(outs) == 1 and outs[0].kind == 'raise':
            # the recorded lists are concrete: a single raising path is what get_results does with them
            ctx.ob('R11.2', site_of(mi, gr), f'get_results on success pattern {pattern}: n_fail/n_runs/p_est/p_se', False,
                   f'raises {outs[0].exc}', key=f'DirectSimulation.get_results|{"".join("1" if s else "0" for s in pattern) or "empty"}')
            continue
        ctx.need(len(outs) == 1 and outs[0].kind == 'return' and isinstance(outs[0].value, dict), 'R11.2',
                 site_of(mi, gr), f'get_results: {outs!r}')
        d = outs[0].value
        n = len(pattern)
        nf = sum(1 for s in pattern if not s)
        bad = None
        if int(d.get('n_fail', -1)) != nf or int(d.get('n_runs', -1)) != n:
            bad = f"n_fail={d.get('n_fail')!r}, n_runs={d.get('n_runs')!r}; expected {nf}, {n}"
        if n:
            p = nf / n
            se = math.sqrt(p * (1 - p) / (n + 1))
            if abs(float(d.get('p_est', -1)) - p) > 1e-12 or abs(float(d.get('p_se', -1)) - se) > 1e-12:
                bad = f"p_est={d.get('p_est')!r}, p_se={d.get('p_se')!r}; expected {p}, {se}"
        else:
            if not (isinstance(d.get('p_est'), float) and math.isnan(d.get('p_est'))):
                bad = f"p_est for zero trials is {d.get('p_est')!r}, expected nan"
        ctx.ob('R11.2', site_of(mi, gr), f'get_results on success pattern {pattern}: n_fail/n_runs/p_est/p_se', bad is None,
               bad or '', key=f'DirectSimulation.get_results|{"".join("1" if s else "0" for s in pattern) or "empty"}',
               facts={k: repr(v) for k, v in d.items()})


# ------------------------------------------------------------------- R11.3

_GLOBAL_RNG_PREFIX = ('random.', 'np.random.', 'numpy.random.')


def global_rng_calls(fi):
    """(call node, dotted name) for calls of a process-global generator in function fi."""
    out = []
    for n in ast.walk(fi.fn):
        if not isinstance(n, ast.Call):
            continue
        try:
            d = ast.unparse(n.func)
        except Exception:
            continue
        r = fi.mi.imports.get(d.split('.')[0])
        if d.startswith('random.') and r == ('module', 'random'):
            out.append((n, d))
        elif d.startswith(('np.random.', 'numpy.random.')):
            last = d.split('.')[-1]
            if last in ('default_rng', 'Generator', 'RandomState', 'SeedSequence', 'PCG64'):
                if last == 'default_rng' and not n.args and not n.keywords:
                    out.append((n, d + '()'))
                continue
            out.append((n, d))
        elif isinstance(n.func, ast.Name) and fi.mi.imports.get(n.func.id, (None,))[0] == 'from' \
                and fi.mi.imports[n.func.id][1] in ('random', 'numpy.random'):
            nm = fi.mi.imports[n.func.id][2]
            if nm == 'default_rng' and (n.args or n.keywords):
                continue
            out.append((n, f'{fi.mi.imports[n.func.id][1]}.{nm}'))
    return out


def _guarded_by_rng_none(node, pm) -> bool:
    cur = node
    while cur in pm:
        par = pm[cur]
        if isinstance(par, ast.If):
            t = ast.unparse(par.test)
            if cur in par.body and ('rng is None' in t or 'rng == None' in t):
                return True
            if cur in par.orelse and ('rng is not None' in t):
                return True
        if isinstance(par, ast.IfExp):
            t = ast.unparse(par.test)
            if cur is par.body and 'rng is None' in t:
                return True
            if cur is par.orelse and 'rng is not None' in t:
                return True
        cur = par
    return False


def _guard_param(node, pm, params) -> Optional[str]:
    """Parameter p such that `node` runs only when `p is None` (the fallback arm of an optional generator)."""
    def none_test(t):
        if isinstance(t, ast.Compare) and len(t.ops) == 1 and isinstance(t.left, ast.Name) and t.left.id in params \
                and isinstance(t.comparators[0], ast.Constant) and t.comparators[0].value is None:
            if isinstance(t.ops[0], (ast.Is, ast.Eq)):
                return t.left.id, True
            if isinstance(t.ops[0], (ast.IsNot, ast.NotEq)):
                return t.left.id, False
        return None, None
    cur = node
    while cur in pm:
        par = pm[cur]
        if isinstance(par, (ast.If, ast.IfExp)):
            name, when_none = none_test(par.test)
            if name is not None:
                body = par.body if isinstance(par.body, list) else [par.body]
                orelse = par.orelse if isinstance(par.orelse, list) else [par.orelse]
                if (when_none and cur in body) or (not when_none and cur in orelse):
                    return name
        cur = par
    return None


def _threading(ctx: Ctx, E, reach) -> int:
    """Every call, reachable from _run, of a function with an optional generator parameter (one whose None value
    selects a process-global generator) supplies that parameter."""
    gen: Dict[int, Set[str]] = {}
    for fi in E.funcs.values():
        calls = global_rng_calls(fi)
        if not calls:
            continue
        pm = parent_map(fi.fn)
        ps = {g for g in (_guard_param(n, pm, set(fi.params)) for n, _ in calls) if g}
        if ps:
            gen[id(fi)] = ps
    n = 0
    for fi in sorted(reach, key=lambda f: f.qual):
        for call, targets, _ in fi.calls:
            for t in targets:
                for g in sorted(gen.get(id(t), ())):
                    n += 1
                    kw = {k.arg: k.value for k in call.keywords}
                    if None in kw or any(isinstance(a, ast.Starred) for a in call.args):
                        raise AnalysisError('R11.3', f'{fi.mi.relpath}:{call.lineno}',
                                            f'{norm_stmt(call)}: arguments passed by unpacking; cannot tell whether {g} is supplied')
                    pos = t.params.index(g) - (1 if t.ci is not None and t.params and t.params[0] in ('self', 'cls')
                                               and isinstance(call.func, ast.Attribute) else 0)
                    val = kw.get(g, call.args[pos] if len(call.args) > pos else None)
                    ok = val is not None and not (isinstance(val, ast.Constant) and val.value is None)
                    ctx.ob('R11.3', f'{fi.mi.relpath}:{call.lineno}', f'{fi.qual}: the call of {t.qual} passes its generator '
                                                                      f'argument {g}', ok,
                           f'{norm_stmt(call)} leaves {g} at None, so {t.qual} draws from the process-global generator even '
                           f'when the run was given a seeded one: the run is not reproducible from its seed',
                           key=f'{fi.qual}|threads[{t.qual}.{g}]')
    return n


def _r113(ctx: Ctx) -> None:
    m = ctx.model
    E = effects(m)
    ci = m.cls('DirectSimulation')
    root = E.by_node[ci.methods['_run']]
    reach = E.reachable([root])
    names = {f.qual for f in reach}
    for must in ('panqec.simulation._direct_simulation.run_once', 'PauliErrorModel.generate',
                 'BeliefPropagationOSDDecoder.decode', 'StabilizerCode.measure_syndrome'):
        ctx.need(must in names, 'R11.3', root.site, f'call graph from DirectSimulation._run does not reach {must} '
                                                    f'(resolution regressed)')
    n_sites = 0
    for fi in sorted(reach, key=lambda f: f.qual):
        calls = global_rng_calls(fi)
        if not calls:
            continue
        pm = parent_map(fi.fn)
        for node, name in calls:
            n_sites += 1
            ok = _guarded_by_rng_none(node, pm)
            ctx.ob('R11.3', f'{fi.mi.relpath}:{node.lineno}', f'{fi.qual}: {name} only when no generator was supplied', ok,
                   f'{norm_stmt(node)} draws from a process-global generator on a path where a seeded generator was '
                   f'supplied: the run is not reproducible from its seed', key=f'{fi.qual}|{name}')
    ctx.need(n_sites >= 2, 'R11.3', root.site, f'only {n_sites} guarded global-generator sites found (expected the '
                                               f'rng=None fallbacks of run_once and generate)')
    ctx.extra['reachable_from_run'] = len(reach)
    n_thr = _threading(ctx, E, reach)
    ctx.need(n_thr >= 2, 'R11.3', root.site, f'only {n_thr} calls of functions with an optional generator found (expected '
                                             f'run_once -> generate -> fast_choice)')
    from .c06 import global_state_rule
    global_state_rule(ctx, 'R11.3', [ci.methods['_run']], 'trials are run')
    # decoders' own generators are seeded from constructor arguments
    for cname in ('SweepDecoder3D', 'RotatedSweepDecoder3D'):
        c = m.cls(cname)
        init = c.methods['__init__']
        gens = [n for n in ast.walk(init) if isinstance(n, ast.Call) and ast.unparse(n.func).endswith('default_rng')]
        ok = len(gens) == 1 and len(gens[0].args) == 1 and isinstance(gens[0].args[0], ast.Name) \
            and gens[0].args[0].id in [a.arg for a in init.args.args]
        ctx.ob('R11.3', site_of(c.module, init), f'{cname}: tie-break generator seeded from a constructor argument', ok,
               f'{[ast.unparse(g) for g in gens]}', key=f'{cname}|seeded')
    # note (outside the anchors): SplittingSimulation uses np.random directly
    sp = m.cls('SplittingSimulation')
    cnt = sum(len(global_rng_calls(E.by_node[fn])) for fn in sp.methods.values())
    ctx.note(f'SplittingSimulation draws from np.random.* at {cnt} site(s) (outside this property\'s anchors)')


def run(ctx: Ctx) -> None:
    ctx.rule('R11.1', 'run_once: generate -> measure -> decode -> add mod 2 -> classify; recorded keys bound to their roles', floor=4)
    ctx.rule('R11.2', 'per-trial accounting of _run and the estimator of get_results', floor=7)
    ctx.rule('R11.3', 'no process-global generator reachable from _run when an rng is supplied', floor=4)
    ctx.trust('success test itself and the logical-effect layout are decided in C04; the sampler in C07; decoder '
              'purity in C06')
    with ctx.part():
        _r111(ctx)
    with ctx.part():
        _r112(ctx)
    with ctx.part():
        _r113(ctx)
