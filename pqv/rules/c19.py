"""C19 - generated input files cover exactly the requested parameter grid."""
from __future__ import annotations

import ast
from fractions import Fraction

import numpy as np

from ..interp import (NOT_HANDLED, TOP, BoundMethod, ClassRef, Closure, Env, Ext, Hooks, Interp, Obj, guard, site_of)
from ..model import AnalysisError, norm_stmt, parent_map, walk_no_nested
from ..nphooks import Tagged
from ..report import Ctx
from ..symnp import call_numpy
from .c13 import _HSim, _bound, _ctor, _freeze

EXPLANATION = (
    'R19.1: every file opened in a truncating mode inside a loop (cli module) must have a path that depends on '
    'the loop variable (def-use closure inside the loop body); a conditional arm without that dependence is '
    'accepted only under a test on len(<iterable>) (single iteration). R19.2: an inclusive float range built with '
    'np.arange(lo, hi + k*step, step) needs 0 < k < 1 (or integer counting / linspace). R19.3: '
    'get_direction_from_bias_ratio is evaluated on exact rationals and on inf for the three axes: r_bias = '
    'eta/(1+eta) on the key of the requested axis, the other two (1-r_bias)/2, sum exactly 1; read_bias_ratios maps '
    '"inf" to the same sentinel. R19.4 (end to end, by partial evaluation): generate_input is interpreted with file '
    'I/O replaced by recorders for a request with 2 sizes x 3 bias ratios x a min:max:step range; every bias ratio '
    'must land in its own file, and each recorded specification is fed to get_simulations (constructors replaced '
    'by recorders): one simulation per (size, rate), classes by the requested names, sizes from the NxM fields, '
    'noise direction of that file\'s bias ratio, rates = the inclusive progression, parameter keys accepted by the '
    'constructors.'
)


# ------------------------------------------------------------------- R19.1

def _deps(expr: ast.AST, body_assigns: dict, seen=None) -> set:
    """Names expr depends on, transitively through assignments inside the loop body."""
    seen = seen if seen is not None else set()
    out = set()
    for n in ast.walk(expr):
        if isinstance(n, ast.Name) and n.id not in seen:
            out.add(n.id)
            seen.add(n.id)
            for v in body_assigns.get(n.id, []):
                out |= _deps(v, body_assigns, seen)
    return out


def _cond_arms_ok(expr: ast.AST, body_assigns: dict, loop_vars: set, iter_txt: str, fn_assigns: dict = None) -> bool:
    """Every IfExp on the dependence path: an arm that does not depend on the loop variable is allowed only
    under a len(<iterable>) test."""
    for n in ast.walk(expr):
        if isinstance(n, ast.IfExp):
            arms = [n.body, n.orelse]
            dep = [bool(_deps(a, body_assigns, set()) & loop_vars) for a in arms]
            if not all(dep):
                # the test, with local names replaced by their (single) definitions anywhere in the function
                txts = [ast.unparse(n.test).replace(' ', '')]
                for x in ast.walk(n.test):
                    if isinstance(x, ast.Name) and fn_assigns and len(fn_assigns.get(x.id, ())) == 1:
                        txts.append(ast.unparse(fn_assigns[x.id][0]).replace(' ', ''))
                if not any(f'len({iter_txt})' in t for t in txts):
                    return False
        if isinstance(n, ast.Name):
            for v in body_assigns.get(n.id, []):
                if v is not expr and not _cond_arms_ok(v, {k: [x for x in vs if x is not v] for k, vs in body_assigns.items()},
                                                       loop_vars, iter_txt, fn_assigns):
                    return False
    return True


def _r191(ctx: Ctx) -> None:
    m = ctx.model
    mi = m.module('panqec.cli')
    n_sites = 0
    for fn in mi.functions.values():
        pm = parent_map(fn)
        for node in walk_no_nested(fn):
            if not (isinstance(node, ast.Call) and isinstance(node.func, ast.Name) and node.func.id == 'open' and node.args):
                continue
            mode = 'r'
            if len(node.args) > 1 and isinstance(node.args[1], ast.Constant):
                mode = node.args[1].value
            for k in node.keywords:
                if k.arg == 'mode' and isinstance(k.value, ast.Constant):
                    mode = k.value.value
            if 'w' not in mode and 'x' not in mode:
                continue
            # enclosing loops
            loops = []
            cur = node
            while cur in pm:
                cur = pm[cur]
                if isinstance(cur, (ast.For, ast.While)):
                    loops.append(cur)
            for loop in loops:
                if isinstance(loop, ast.While):
                    continue
                n_sites += 1
                loop_vars = {x.id for x in ast.walk(loop.target) if isinstance(x, ast.Name)}
                body_assigns: dict = {}
                for s in ast.walk(loop):
                    if isinstance(s, ast.Assign):
                        for t in s.targets:
                            for x in ast.walk(t):
                                if isinstance(x, ast.Name):
                                    body_assigns.setdefault(x.id, []).append(s.value)
                    elif isinstance(s, ast.AugAssign) and isinstance(s.target, ast.Name):
                        body_assigns.setdefault(s.target.id, []).append(s.value)
                        loop_vars.add(s.target.id)          # counter updated in the loop
                d = _deps(node.args[0], body_assigns)
                iter_txt = ast.unparse(loop.iter).replace(' ', '')
                fn_assigns: dict = {}
                for s_ in walk_no_nested(fn):
                    if isinstance(s_, ast.Assign) and len(s_.targets) == 1 and isinstance(s_.targets[0], ast.Name):
                        fn_assigns.setdefault(s_.targets[0].id, []).append(s_.value)
                ok = bool(d & loop_vars) and _cond_arms_ok(node.args[0], body_assigns, loop_vars, iter_txt, fn_assigns)
                ctx.ob('R19.1', site_of(mi, node), f'{fn.name}: file written in the loop over {ast.unparse(loop.iter)} has a '
                                                   f'path depending on the loop variable', ok,
                       f'{norm_stmt(node)} inside `for {ast.unparse(loop.target)} in {ast.unparse(loop.iter)}`: the path '
                       f'depends on {sorted(d)} only - every iteration overwrites the same file',
                       key=f'{fn.name}|open[{ast.unparse(node.args[0])}]', facts=sorted(d))
    ctx.need(n_sites >= 1, 'R19.1', mi.relpath, 'no file written inside a loop found (generate_input anchor vanished)')


# ------------------------------------------------------------------- R19.2

def _r192(ctx: Ctx) -> None:
    m = ctx.model
    mi, fn = m.func('panqec.cli', 'read_range_input')
    site = site_of(mi, fn)
    calls = [n for n in ast.walk(fn) if isinstance(n, ast.Call) and ast.unparse(n.func) in ('np.arange', 'numpy.arange')]
    lins = [n for n in ast.walk(fn) if isinstance(n, ast.Call) and ast.unparse(n.func) in ('np.linspace', 'numpy.linspace')]
    ctx.need(calls or lins or any(isinstance(n, ast.ListComp) for n in ast.walk(fn)), 'R19.2', site,
             'read_range_input: range construction not recognised')
    for c in calls:
        ctx.need(len(c.args) == 3, 'R19.2', site_of(mi, c), 'np.arange call without explicit (start, stop, step)')
        start, stop, step = c.args
        k = _stop_factor(stop, step)
        ok = k is not None and 0 < k < 1
        ctx.ob('R19.2', site_of(mi, c), 'read_range_input: inclusive float range stops a fraction of a step after max', ok,
               f'{norm_stmt(c)}: stop = max + {k}*step; with k >= 1 rounding can yield a value beyond max '
               f'(0.1:0.3:0.1 -> 0.4), with k <= 0 max itself can be lost', key='read_range_input|arange-stop',
               facts={'k': str(k)})
    if not calls:
        ctx.ob('R19.2', site, 'read_range_input: range built by integer counting / linspace (no arange overshoot)', True, '',
               key='read_range_input|counting')
    # partial evaluation on decimal grids
    class H(Hooks):
        def call(self, it, func, args, kwargs, node, env):
            return call_numpy(func, args, kwargs)
    grids = [('0.1:0.3:0.1', 3), ('0:0.6:0.005', 121), ('0.01:0.05:0.01', 5), ('0.2:0.5:0.05', 7), ('0:1:0.1', 11),
             ('0.05:0.15:0.025', 5), ('0.3:0.3:0.1', 1), ('0.001:0.009:0.002', 5), ('0.1:0.7:0.3', 3),
             ('0.18:0.27:0.01', 10), ('0.1,0.2,0.35', 3), ('0.25', 1)]
    bad = None
    for spec, count in grids:
        it = Interp(m, H())
        outs = guard('R19.2', mi, fn)(lambda: it.explore(lambda: it.call_closure(Closure(fn, mi), [spec], {}, fn)))
        if len(outs) != 1 or outs[0].kind != 'return' or not isinstance(outs[0].value, list):
            bad = f'{spec!r}: {outs!r}'
            break
        vals = outs[0].value
        if ':' in spec:
            lo, hi, st = (Fraction(x) for x in spec.split(':'))
            want = [float(lo + i * st) for i in range(count)]
        else:
            want = [float(x) for x in spec.split(',')]
        if len(vals) != len(want) or any(abs(a - b) > 1e-9 for a, b in zip(vals, want)):
            bad = f'{spec!r} -> {vals!r}; expected {want!r} (inclusive, nothing beyond max)'
            break
    ctx.ob('R19.2', site, f'read_range_input on {len(grids)} decimal-grid specifications', bad is None, bad or '',
           key='read_range_input|grids', facts=[g[0] for g in grids])


def _stop_factor(stop: ast.AST, step: ast.AST):
    """stop == hi + k*step  ->  k as Fraction (None if not of that shape)."""
    st = ast.unparse(step)
    if not (isinstance(stop, ast.BinOp) and isinstance(stop.op, ast.Add)):
        return Fraction(0) if not any(ast.unparse(n) == st for n in ast.walk(stop)) else None
    r = stop.right
    if ast.unparse(r) == st:
        return Fraction(1)
    if isinstance(r, ast.BinOp) and isinstance(r.op, ast.Div) and ast.unparse(r.left) == st \
            and isinstance(r.right, ast.Constant) and isinstance(r.right.value, (int, float)) and r.right.value != 0:
        return Fraction(1) / Fraction(r.right.value)
    if isinstance(r, ast.BinOp) and isinstance(r.op, ast.Mult):
        for a, b in ((r.left, r.right), (r.right, r.left)):
            if ast.unparse(a) == st and isinstance(b, ast.Constant) and isinstance(b.value, (int, float)):
                return Fraction(b.value)
    return None


# ------------------------------------------------------------------- R19.3

class _HNp(Hooks):
    def attr(self, it, obj, name, node):
        if isinstance(obj, Ext) and obj.name == 'numpy' and name == 'inf':
            return float('inf')
        return NOT_HANDLED

    def call(self, it, func, args, kwargs, node, env):
        return call_numpy(func, args, kwargs)


def _r193(ctx: Ctx) -> None:
    m = ctx.model
    mi, fn = m.func('panqec.utils', 'get_direction_from_bias_ratio')
    site = site_of(mi, fn)
    for axis in 'XYZ':
        for eta in (Fraction(1, 2), Fraction(3), Fraction(10), Fraction(1000), float('inf')):
            it = Interp(m, _HNp())
            outs = guard('R19.3', mi, fn)(lambda: it.explore(lambda: it.call_closure(Closure(fn, mi), [axis, eta], {}, fn)))
            ctx.need(len(outs) == 1 and outs[0].kind == 'return', 'R19.3', site, f'{outs!r}')
            d = outs[0].value
            rb = Fraction(1) if eta == float('inf') else eta / (1 + eta)
            ro = (1 - rb) / 2
            want = {f'r_{a.lower()}': (rb if a == axis else ro) for a in 'XYZ'}
            ok = isinstance(d, dict) and set(d) == set(want) and all(Fraction(d[k]).limit_denominator(10 ** 9) == want[k]
                                                                     if not isinstance(d[k], Fraction) else d[k] == want[k]
                                                                     for k in want)
            tot_ok = ok and sum(Fraction(v).limit_denominator(10 ** 9) if not isinstance(v, Fraction) else v
                                for v in d.values()) == 1
            ctx.ob('R19.3', site, f'direction for bias {axis}, eta={eta}: r_{axis.lower()}=eta/(1+eta), others equal, sum 1',
                   ok and tot_ok, f'got {d!r}, expected {want!r}', key=f'get_direction_from_bias_ratio|{axis}|{eta}',
                   facts={k: str(v) for k, v in d.items()} if isinstance(d, dict) else repr(d))
    mi2, fn2 = m.func('panqec.cli', 'read_bias_ratios')
    it = Interp(m, _HNp())
    outs = guard('R19.3', mi2, fn2)(lambda: it.explore(lambda: it.call_closure(Closure(fn2, mi2), ['10, inf,0.5,3.0'], {}, fn2)))
    v = outs[0].value if len(outs) == 1 and outs[0].kind == 'return' else None
    ok = v == [10, float('inf'), 0.5, 3]
    ctx.ob('R19.3', site_of(mi2, fn2), "read_bias_ratios('10, inf,0.5,3.0') = [10, inf, 0.5, 3]", ok, f'got {v!r}',
           key='read_bias_ratios|parse', facts=repr(v))


# ------------------------------------------------------------------- R19.4

class _File:
    def __init__(self, path):
        self.path = path

    def pqv_getattr(self, name):
        return TOP


class _HGen(Hooks):
    def __init__(self):
        self.files = {}
        self.order = []

    def attr(self, it, obj, name, node):
        if isinstance(obj, Ext) and obj.name == 'numpy' and name == 'inf':
            return float('inf')
        return NOT_HANDLED

    def call(self, it, func, args, kwargs, node, env):
        if isinstance(func, Ext):
            n = func.name
            if n == 'os.path.join':
                return '/'.join(str(a) for a in args)
            if n == 'os.makedirs':
                return None
            if n == 'builtins.open':
                return _File(args[0])
            if n == 'json.dump':
                f = args[1] if len(args) > 1 else kwargs.get('fp')
                path = f.path if isinstance(f, _File) else repr(f)
                import copy
                self.order.append(path)
                self.files[path] = copy.deepcopy(args[0])
                return None
        r = call_numpy(func, args, kwargs)
        return r


def _r194(ctx: Ctx) -> None:
    m = ctx.model
    mi, fn = m.func('panqec.cli', 'generate_input')
    site = site_of(mi, fn)
    bmod = 'panqec.simulation._batch_simulation'
    bmi, fn_get = m.func(bmod, 'get_simulations')
    requests = [
        dict(data_dir='D', sizes='3x4,5', decoder_class='BeliefPropagationOSDDecoder', bias='Z', eta='10,inf,0.5',
             prob='0.1:0.3:0.1', code_class='Toric2DCode', noise_class='PauliErrorModel', deformation_name='XZZX',
             method='direct', label=None),
        # sizes that are permutations of each other (and a two-number one made of the same numbers) stay different sizes
        dict(data_dir='D', sizes='2x3x4,4x3x2,3x4x2,3x4,3x3x3', decoder_class='MatchingDecoder', bias='X', eta='3', prob='0.05,0.07',
             code_class='Toric3DCode', noise_class='PauliErrorModel', deformation_name=None, method='direct',
             label='mylabel'),
        dict(data_dir='D', sizes='3,4', decoder_class='MatchingDecoder', bias='Y', eta='30,100', prob='0.02,0.04,0.06',
             code_class='Toric2DCode', noise_class='PauliErrorModel', deformation_name=None, method='splitting',
             label='split'),
        # ratios whose decimal strings are close relatives (1.5 / 15 / 0.15, 3 / 30 / 0.3 ...) and a grid starting at
        # the rate 0: every ratio keeps its own file, every rate (the falsy 0.0 too) its own simulation
        dict(data_dir='D', sizes='3', decoder_class='MatchingDecoder', bias='Z',
             eta='0.5,1.5,15,0.15,1,10,100,0.1,3,30,0.3,5,0.05,50,inf', prob='0:0.1:0.05',
             code_class='Toric2DCode', noise_class='PauliErrorModel', deformation_name=None, method='direct',
             label='grid'),
    ]
    for ri, req in enumerate(requests):
        hooks = _HGen()
        it = Interp(m, hooks)
        outs = guard('R19.4', mi, fn)(lambda: it.explore(lambda: it.call_closure(Closure(fn, mi), [], dict(req), fn)))
        if len(outs) == 1 and outs[0].kind == 'raise':
            # every value of the request is concrete: one raising path is what the function does with this request
            ctx.ob('R19.4', site, f'generate_input (request {ri + 1}) completes', False,
                   f'raises {outs[0].exc} on the request sizes={req["sizes"]!r} eta={req["eta"]!r} prob={req["prob"]!r}',
                   key=f'generate_input|completes[{ri}]')
            continue
        ctx.need(len(outs) == 1 and outs[0].kind == 'return', 'R19.4', site, f'generate_input: {outs!r}')
        etas = [s.strip() for s in req['eta'].split(',')]
        ok_files = len(hooks.order) == len(etas) and len(set(hooks.order)) == len(etas)
        ctx.ob('R19.1' if False else 'R19.4', site, f'generate_input (request {ri + 1}): one specification file per bias ratio',
               ok_files, f'{len(etas)} bias ratios requested, files written: {hooks.order}',
               key=f'generate_input|files[{ri}]', facts=hooks.order)
        # expected grid
        sizes = []
        for s in req['sizes'].split(','):
            L = [int(x) for x in s.split('x')]
            sizes.append({'L_x': L[0], 'L_y': L[1] if len(L) >= 2 else L[0], 'L_z': L[2] if len(L) == 3 else L[0]})
        if ':' in req['prob']:
            lo, hi, st = (Fraction(x) for x in req['prob'].split(':'))
            rates = []
            x = lo
            while x <= hi:
                rates.append(float(x))
                x += st
        else:
            rates = [float(x) for x in req['prob'].split(',')]
        seen_dirs = []
        for path in hooks.order:
            spec = hooks.files[path]
            it2 = Interp(m, _HSim())
            o2 = guard('R19.4', bmi, fn_get)(lambda: it2.explore(
                lambda: it2.call_closure(Closure(fn_get, bmi), [spec], {}, fn_get)))
            bad = None
            if len(o2) != 1 or o2[0].kind != 'return' or not isinstance(o2[0].value, list):
                bad = f'get_simulations on the generated specification: {o2!r}'
            else:
                sims = o2[0].value
                got = []
                for s_ in sims:
                    c = _ctor(s_)
                    if req['method'] == 'splitting':
                        if not c or c[0] != 'SplittingSimulation' or len(c[1]) < 4:
                            bad = f'not a SplittingSimulation(code, error_model, decoders, error_rates): {s_!r}'
                            break
                        code, em, decs, rts = c[1][:4]
                        if 'n_init_runs' not in c[2]:
                            bad = 'SplittingSimulation built without n_init_runs'
                        if not (isinstance(decs, list) and len(decs) == len(rates) and
                                [(_ctor(d)[2] or {}).get('error_rate') for d in decs] == list(rts)):
                            bad = f'splitting decoders {decs!r} are not one per error rate {rts!r}'
                            break
                        cc, ec, dc = _ctor(code), _ctor(em), _ctor(decs[0])
                        if cc[0] != req['code_class'] or ec[0] != req['noise_class'] or dc[0] != req['decoder_class']:
                            bad = f'classes {cc[0]}/{ec[0]}/{dc[0]} differ from the requested names'
                        for r_ in rts:
                            got.append((_freeze(_bound(m, cc)), r_))
                        direction = {k: v for k, v in _bound(m, ec).items() if k.startswith('r_')}
                        seen_dirs.append(tuple(sorted(direction.items())))
                        bad = bad or _params_accepted(ctx, cc, ec, dc)
                        continue
                    if not c or c[0] != 'DirectSimulation':
                        bad = f'not a DirectSimulation: {s_!r}'
                        break
                    code, em, dec, rate = c[1][:4]
                    cc, ec, dc = _ctor(code), _ctor(em), _ctor(dec)
                    if cc[0] != req['code_class'] or ec[0] != req['noise_class'] or dc[0] != req['decoder_class']:
                        bad = f'classes {cc[0]}/{ec[0]}/{dc[0]} differ from the requested names'
                    got.append((_freeze(_bound(m, cc)), rate))
                    ecb = _bound(m, ec)
                    direction = {k: v for k, v in ecb.items() if k.startswith('r_')}
                    if abs(sum(direction.values()) - 1) > 1e-12 or len(direction) != 3:
                        bad = f'noise direction {direction} does not sum to 1'
                    if req['deformation_name'] != ecb.get('deformation_name'):
                        bad = f'deformation name {ecb.get("deformation_name")!r} != requested'
                    seen_dirs.append(tuple(sorted(direction.items())))
                    bad = bad or _params_accepted(ctx, cc, ec, dc)
                want = [(_freeze(sz), r) for sz in sizes for r in rates]
                if not bad and (len(got) != len(want) or any(
                        g[0] != w[0] or abs(g[1] - w[1]) > 1e-9 for g, w in zip(sorted(got), sorted(want)))):
                    bad = f'{len(got)} simulations {sorted(got)[:3]}..., expected {len(want)}: sizes {sizes} x rates {rates}'
            ctx.ob('R19.4', site, f'generate_input (request {ri + 1}): {path} read back = sizes x rates, requested classes',
                   bad is None, bad or '', key=f'generate_input|readback[{ri}|{path}]')
        # each file carries the direction of its own bias ratio
        axis = req['bias'].lower()
        want_bias = []
        for e in etas:
            ev = float('inf') if e == 'inf' else float(e)
            want_bias.append(1.0 if ev == float('inf') else ev / (1 + ev))
        got_bias = sorted({dict(d)[f'r_{axis}'] for d in seen_dirs})
        okb = len(got_bias) == len(set(want_bias)) and all(abs(a - b) < 1e-12 for a, b in zip(got_bias, sorted(set(want_bias))))
        ctx.ob('R19.4', site, f'generate_input (request {ri + 1}): r_{axis} across files = eta/(1+eta) of each requested ratio',
               okb, f'r_{axis} values {got_bias}, expected {sorted(set(want_bias))}', key=f'generate_input|bias[{ri}]',
               facts=got_bias)


def _params_accepted(ctx: Ctx, cc, ec, dc):
    m = ctx.model
    for name, _args, kwargs in (cc, ec, dc):
        ci = m.cls(name)
        r = ci.find_method('__init__')
        a = r[1].args
        params = {p.arg for p in a.posonlyargs + a.args + a.kwonlyargs}
        extra = set(kwargs) - params
        if extra and not a.kwarg:
            return f'{name}.__init__ does not accept {sorted(extra)}'
    return None


def run(ctx: Ctx) -> None:
    ctx.rule('R19.1', 'a file written inside a loop has a path depending on the loop variable', floor=1)
    ctx.rule('R19.2', 'inclusive float ranges stop a sub-step after max', floor=2)
    ctx.rule('R19.3', 'direction from bias ratio: r_bias on the requested axis, sum 1; inf sentinel', floor=16)
    ctx.rule('R19.4', 'generated specifications read back as exactly sizes x rates per bias ratio', floor=12)
    ctx.trust('np.arange(lo, hi + step/2, step) on a decimal grid has round-off far below step/2')
    with ctx.part():
        _r191(ctx)
    with ctx.part():
        _r192(ctx)
    with ctx.part():
        _r193(ctx)
    with ctx.part():
        _r194(ctx)
