"""Shared abstract interpretation of run_once / get_effective_error /
StabilizerCode predicates (used by C04, C11, C15)."""
from __future__ import annotations

import ast
from typing import Any, Dict, List, Optional, Tuple

from ..interp import (NOT_HANDLED, TOP, BoundMethod, Closure, Env, Ext, Hooks, Interp, Obj, SliceV,
                      guard, site_of, truth)
from ..model import AnalysisError, Model
from ..nphooks import Tagged, np_name


class Atom:
    """A boolean whose value is decided per path (forks the path on first use)."""

    def __init__(self, name: str, it: Interp, store: dict):
        self.name, self.it, self.store = name, it, store

    def pqv_truth(self):
        if self.name not in self.store:
            self.store[self.name] = (self.it.choose(2) == 0)
        return self.store[self.name]

    def __repr__(self):
        return f'Atom({self.name})'


class Term:
    """Uninterpreted term f(args) with structural equality."""

    def __init__(self, f: str, *args):
        self.f, self.args = f, args

    def __eq__(self, o):
        return isinstance(o, Term) and (o.f, o.args) == (self.f, self.args)

    def __hash__(self):
        return hash((self.f, self.args))

    def __repr__(self):
        return f'{self.f}({", ".join(map(repr, self.args))})' if self.args else self.f

    def __add__(self, o):
        if isinstance(o, Term):
            return Term('add', *sorted((self, o), key=repr))
        return TOP

    __radd__ = __add__

    def __mod__(self, o):
        return Term('mod', self, o)

    def pqv_compare(self, op, other, swapped):
        return Term({'Eq': 'eq', 'NotEq': 'ne', 'Gt': 'gt', 'Lt': 'lt', 'GtE': 'ge', 'LtE': 'le'}[type(op).__name__],
                    self, other) if not swapped else Term(
            {'Eq': 'eq', 'NotEq': 'ne', 'Gt': 'lt', 'Lt': 'gt', 'GtE': 'le', 'LtE': 'ge'}[type(op).__name__],
            self, other)

    def pqv_truth(self):
        return None

    def pqv_not(self):
        return Term('not', self)

    def pqv_getattr(self, name):
        if name in ('any', 'all', 'sum'):
            return _Meth(lambda *a, **k: Term(name, self))
        if name == 'shape':
            return TOP
        return TOP


class _Meth:
    def __init__(self, f):
        self.f = f

    def pqv_call(self, *a, **k):
        return self.f(*a, **k)


def is_all_zero(t) -> Optional[Any]:
    """If term t means 'every entry of v is zero' return v, else None."""
    if not isinstance(t, Term):
        return None
    if t.f == 'bool' and len(t.args) == 1:
        return is_all_zero(t.args[0])
    if t.f == 'all' and isinstance(t.args[0], Term) and t.args[0].f == 'eq' and t.args[0].args[1] == 0:
        return t.args[0].args[0]
    if t.f == 'not' and isinstance(t.args[0], Term):
        return is_any_nonzero(t.args[0])
    if t.f == 'eq' and t.args[1] == 0 and isinstance(t.args[0], Term) and t.args[0].f in ('count_nonzero', 'sum'):
        return t.args[0].args[0]
    return None


def is_any_nonzero(t) -> Optional[Any]:
    if not isinstance(t, Term):
        return None
    if t.f == 'bool' and len(t.args) == 1:
        return is_any_nonzero(t.args[0])
    if t.f == 'any':
        inner = t.args[0]
        if isinstance(inner, Term) and inner.f == 'ne' and inner.args[1] == 0:
            return inner.args[0]
        if isinstance(inner, Term) and inner.f in ('eq', 'gt', 'lt', 'ge', 'le'):
            return None
        return inner
    if t.f == 'not' and isinstance(t.args[0], Term):
        return is_all_zero(t.args[0])
    if t.f in ('ne', 'gt') and t.args[1] == 0 and isinstance(t.args[0], Term) \
            and t.args[0].f in ('count_nonzero', 'sum'):
        return t.args[0].args[0]
    return None


class TermHooks(Hooks):
    """numpy reductions and bool() become terms; `not term` handled by callers."""

    def call(self, it, func, args, kwargs, node, env):
        n = np_name(func)
        if n in ('all', 'any', 'count_nonzero', 'sum') and args:
            return Term(n, args[0])
        if n in ('array', 'asarray') and args and isinstance(args[0], Term):
            return args[0]
        if isinstance(func, Ext) and func.name == 'builtins.bool' and args and isinstance(args[0], Term):
            return Term('bool', args[0])
        if isinstance(func, Ext) and func.name in ('builtins.max', 'builtins.min') and args \
                and any(isinstance(a, Term) for a in args):
            return Term(func.name.split('.')[-1], *args)
        if isinstance(func, Ext) and func.name == 'builtins.isinstance' and len(args) == 2 and isinstance(args[0], Term):
            return TOP                     # what kind of array the caller hands over is not known: both ways
        return NOT_HANDLED

    def subscript(self, it, obj, idx, node, env):
        if isinstance(obj, Term):
            return Term('part', obj, repr(idx))      # a slice / element of an uninterpreted vector
        return NOT_HANDLED

    def attr(self, it, obj, name, node):
        if isinstance(obj, Term) and name in ('ndim', 'shape', 'size', 'dtype'):
            return TOP
        if isinstance(obj, Obj) and name in ('d', 'n', 'k') and name not in obj.fields:
            return Term(name)              # parameters of the code: uninterpreted numbers
        return NOT_HANDLED

    def compare(self, it, op, a, b, node):
        # an order comparison that involves an uninterpreted quantity (a weight, a count): unknown, both ways
        if isinstance(op, (ast.Lt, ast.LtE, ast.Gt, ast.GtE)) and (isinstance(a, Term) or isinstance(b, Term)):
            return TOP
        return NOT_HANDLED


def interpret_method_terms(model: Model, cls_name: str, meth: str, rule: str,
                           self_methods: Dict[str, str], param_names: List[str]):
    """Interpret cls.meth with parameters as Terms and the listed self-methods as
    uninterpreted functions; returns (site, list of outcomes)."""
    ci, fn = model.method(cls_name, meth)
    mi = ci.module

    class H(TermHooks):
        def call(self, it, func, args, kwargs, node, env):
            if isinstance(func, BoundMethod) and func.closure.fn.name in self_methods:
                return Term(self_methods[func.closure.fn.name], *args)
            return super().call(it, func, args, kwargs, node, env)

    it = Interp(model, H())

    def thunk():
        return it.call_closure(Closure(fn, mi, ci), [Term(p) for p in param_names], {}, fn,
                               self_obj=Obj(ci, 'code'))
    outs = guard(rule, mi, fn)(lambda: it.explore(thunk))
    return site_of(mi, fn), outs
