"""C10 - sweep decoders track the true residual syndrome."""
from __future__ import annotations

import ast
import itertools
from typing import Dict, List, Optional, Set, Tuple

from ..interp import (NOT_HANDLED, TOP, BoundMethod, Closure, Env, Ext, Hooks, Interp, Obj, SliceV, guard,
                      site_of, truth)
from ..model import AnalysisError, norm_stmt, parent_map, walk_no_nested
from ..nphooks import Tagged, np_name
from ..report import Ctx

EXPLANATION = (
    'R10.1: sweep_move of both sweep decoders is interpreted over all branch combinations; every flip_edge(loc, '
    'signs) must be paired, in the same loop iteration and on the same location object, with exactly one mod-2 '
    'toggle of the correction (StabilizerCode.site(correction, "Z", loc), whose product table C03 verifies, or an '
    'explicit pop-if-present/else-insert); a plain correction[loc] = ... is an assignment, not a toggle. R10.2: '
    'every Pauli written is the literal "Z" and decode returns to_bsf of that same dictionary. R10.3: bulk '
    'geometry over residue classes of coordinates (mod 4): the code\'s qubit and stabilizer residue classes are '
    'obtained by abstractly iterating get_qubit_coordinates / get_stabilizer_coordinates, face supports by '
    'interpreting get_stabilizer on each face class, and flip_edge is interpreted on each edge class; the faces it '
    'toggles must be exactly the faces whose support contains the edge (transpose relation), for SweepDecoder3D x '
    '{Toric3DCode, Planar3DCode} and RotatedSweepDecoder3D x {RotatedPlanar3DCode, RotatedToric3DCode}. R10.4: every '
    'toggle in flip_edge is guarded by is_stabilizer of the toggled location and has the form s -> 1 - s; the '
    'axes on which an allowed code re-enters across a periodic seam must be wrapped by the decoder too. R10.5: '
    'get_initial_state zeroes the non-face rows of a copy.'
)

AX = ('x', 'y', 'z')


# ----------------------------------------------------------------- domain

class LSize:
    """Lattice size along an axis (unknown positive integer)."""

    def __init__(self, axis: Optional[str], mult: int = 1, off: int = 0):
        self.axis, self.mult, self.off = axis, mult, off

    def __mul__(self, o):
        if isinstance(o, int):
            return LSize(self.axis, self.mult * o, self.off * o)
        return TOP

    __rmul__ = __mul__

    def __add__(self, o):
        if isinstance(o, int):
            return LSize(self.axis, self.mult, self.off + o)
        return TOP

    __radd__ = __add__

    def __sub__(self, o):
        if isinstance(o, int):
            return LSize(self.axis, self.mult, self.off - o)
        return TOP

    def __mod__(self, o):
        return TOP                       # parity of the size is unknown

    def __repr__(self):
        return f'{self.mult}*L{self.axis}{self.off:+d}'

    def pqv_compare(self, op, other, swapped):
        return TOP


_SEAMS: List[Tuple[str, str]] = []      # (axis, kind) events of the current interpretation
_MIXED: List[str] = []                  # coordinate of one axis tested against / wrapped by the extent of another


class Coord:
    """An integer coordinate  base + off  where the base has residue `res` mod 4
    and lies in the bulk (far from every boundary)."""

    def __init__(self, axis: str, res: int, off: int = 0, wrapped: bool = False):
        self.axis, self.res, self.off, self.wrapped = axis, res % 4, off, wrapped

    def __repr__(self):
        return f'{self.axis}[{self.res}]{self.off:+d}' + ('~' if self.wrapped else '')

    def key(self):
        return (self.axis, self.res, self.off)

    def __hash__(self):
        return hash(('Coord',) + self.key())

    def __eq__(self, o):
        return isinstance(o, Coord) and o.key() == self.key()

    def __add__(self, o):
        if isinstance(o, int):
            return Coord(self.axis, self.res, self.off + o, self.wrapped)
        if isinstance(o, Coord):
            return _Res(self.res + self.off + o.res + o.off)
        if isinstance(o, _Res):
            return _Res(self.res + self.off + o.r)
        return TOP

    __radd__ = __add__

    def __sub__(self, o):
        if isinstance(o, int):
            return Coord(self.axis, self.res, self.off - o, self.wrapped)
        if isinstance(o, Coord) and o.axis == self.axis and o.res == self.res:
            return self.off - o.off
        return TOP

    def __mul__(self, o):
        return TOP

    __rmul__ = __mul__

    def __mod__(self, o):
        if isinstance(o, int) and o in (2, 4):
            return (self.res + self.off) % o
        if isinstance(o, LSize):
            if o.axis in AX and self.axis in AX and o.axis != self.axis:
                _MIXED.append(f'{self.axis} coordinate wrapped modulo the extent of axis {o.axis} ({o!r})')
            _SEAMS.append((o.axis or self.axis, 'mod'))
            return Coord(self.axis, self.res, self.off, True)
        return TOP

    def pqv_compare(self, op, other, swapped):
        if isinstance(other, Coord):
            if isinstance(op, ast.Eq):
                return self == other
            if isinstance(op, ast.NotEq):
                return self != other
            return TOP
        if isinstance(other, LSize):
            # comparison of a bulk coordinate with a lattice limit: false in the bulk, but it marks a seam test
            if other.axis in AX and self.axis in AX and other.axis != self.axis:
                _MIXED.append(f'{self.axis} coordinate compared with the extent of axis {other.axis} ({other!r})')
            _SEAMS.append((other.axis or self.axis, 'compare'))
            if isinstance(op, ast.NotEq):
                return True
            if isinstance(op, (ast.Lt, ast.LtE)):
                return not swapped
            if isinstance(op, (ast.Gt, ast.GtE)):
                return swapped
            return False
        if isinstance(other, int):
            # comparison with a fixed small coordinate (0, 1, -1 ...): a boundary/seam test; false in the bulk
            _SEAMS.append((self.axis, 'compare-const'))
            if isinstance(op, ast.Eq):
                return False
            if isinstance(op, ast.NotEq):
                return True
            if isinstance(op, (ast.Lt, ast.LtE)):
                return swapped
            if isinstance(op, (ast.Gt, ast.GtE)):
                return not swapped
        return TOP


class _Res:
    """Only the residue mod 4 of a sum of coordinates is known."""

    def __init__(self, r):
        self.r = r % 4

    def __add__(self, o):
        if isinstance(o, int):
            return _Res(self.r + o)
        if isinstance(o, Coord):
            return _Res(self.r + o.res + o.off)
        if isinstance(o, _Res):
            return _Res(self.r + o.r)
        return TOP

    __radd__ = __add__

    def __sub__(self, o):
        if isinstance(o, int):
            return _Res(self.r - o)
        return TOP

    def __mod__(self, o):
        if o in (2, 4):
            return self.r % o
        return TOP

    def pqv_compare(self, op, other, swapped):
        return TOP


class _RangeV:
    def __init__(self, start, step):
        self.start, self.step = start, step


_AXIS_COUNTER = itertools.count()


class GeoHooks(Hooks):
    """Bulk interpretation of code geometry and of flip_edge."""

    def __init__(self):
        self.toggles: List[Tuple] = []          # (location tuple, guarded, form ok)
        self.checked: List = []                 # locations for which is_stabilizer was asked
        self.bad: List[str] = []

    # sizes -----------------------------------------------------------------
    def attr(self, it, obj, name, node):
        if isinstance(obj, Obj) and obj.label == 'code':
            if name == 'size':
                return tuple(LSize(a) for a in AX)
            if name in ('L_x', 'L_y', 'L_z'):
                return LSize(name[-1])
            if name == 'stabilizer_index':
                si = _SIndex()
                si.hooks = self
                return si
            if name in ('qubit_index', 'qubit_coordinates'):
                return _Everything()
        return NOT_HANDLED

    def call(self, it, func, args, kwargs, node, env):
        if isinstance(func, BoundMethod) and isinstance(func.obj, Obj) and func.obj.label == 'code':
            nm = func.closure.fn.name
            if nm == 'is_stabilizer':
                self.checked.append(args[0])
                return True
            if nm == 'is_qubit':
                return True
        if isinstance(func, Ext) and func.name == 'builtins.range':
            if len(args) == 3 and isinstance(args[0], int) and isinstance(args[2], int):
                return _RangeV(args[0], args[2])
            if len(args) <= 2 and all(isinstance(a, int) for a in args):
                return NOT_HANDLED
            if len(args) == 2 and isinstance(args[0], int):
                return _RangeV(args[0], 1)
            return TOP
        if isinstance(func, Ext) and func.name == 'itertools.product' and not kwargs:
            # product(range(...), range(...), ...): one representative per combination of residue classes
            seqs = []
            for a in args:
                r = self.iterate(it, a, node) if isinstance(a, _RangeV) else a
                if r is NOT_HANDLED or r is TOP or not isinstance(r, (list, tuple)):
                    return TOP
                seqs.append(list(r))
            return [tuple(c) for c in itertools.product(*seqs)]
        n = np_name(func)
        if n in ('mod', 'add', 'subtract') and len(args) == 2:
            a, b = args
            opf = {'mod': lambda x, y: x % y, 'add': lambda x, y: x + y, 'subtract': lambda x, y: x - y}[n]
            if isinstance(a, tuple) and isinstance(b, (tuple, list)) and len(a) == len(b):
                return _Vec([_apply(opf, x, y) for x, y in zip(a, b)])
            if isinstance(a, tuple) and isinstance(b, int):
                return _Vec([_apply(opf, x, b) for x in a])
            return TOP
        if n == 'array' and args and isinstance(args[0], (tuple, list)):
            return _Vec(list(args[0]))
        if isinstance(func, Ext) and func.name == 'builtins.tuple' and args and isinstance(args[0], _Vec):
            return tuple(args[0].items)
        return NOT_HANDLED

    def iterate(self, it, value, node):
        if isinstance(value, _RangeV):
            # one representative per residue class mod 4 hit by the progression (bulk)
            ax = f'v{next(_AXIS_COUNTER)}'
            step = value.step
            res = sorted({(value.start + k * step) % 4 for k in range(4)})
            return [Coord(ax, r) for r in res]
        if isinstance(value, _Vec):
            return list(value.items)
        return NOT_HANDLED

    def subscript(self, it, obj, idx, node, env):
        if isinstance(obj, _SIndex):
            return Tagged('row', idx)
        if isinstance(obj, _Signs):
            return _SignElem(idx)
        return NOT_HANDLED

    def store_subscript(self, it, obj, idx, value, node, env):
        if isinstance(obj, _Signs):
            loc = idx.args[0] if isinstance(idx, Tagged) and idx.tag == 'row' else None
            form = isinstance(value, _Toggled) and value.idx == idx
            guarded = any(c is loc or c == loc for c in self.checked)
            self.toggles.append((loc, guarded, form, norm_stmt(node)))
            return None
        return NOT_HANDLED

    def compare(self, it, op, a, b, node):
        if isinstance(op, (ast.Is, ast.IsNot)) and isinstance(a, Tagged) and a.tag == 'row' and b is None:
            self.checked.append(a.args[0])          # `index is not None` after stabilizer_index.get(loc)
            return isinstance(op, ast.IsNot)
        if isinstance(op, (ast.In, ast.NotIn)) and isinstance(b, (_SIndex, _Everything)):
            if isinstance(b, _SIndex):
                self.checked.append(a)
            return isinstance(op, ast.In)
        return NOT_HANDLED


def _apply(f, x, y):
    try:
        return f(x, y)
    except TypeError:
        return TOP


class _Vec:
    def __init__(self, items):
        self.items = items

    def pqv_getitem(self, idx):
        if isinstance(idx, int):
            return self.items[idx]
        return TOP

    def pqv_unpack(self, n):
        return list(self.items)


class _SIndex:
    """code.stabilizer_index in the bulk: every face location asked for is there."""
    hooks = None

    def pqv_getattr(self, name):
        if name == 'get':
            me = self

            class _Get:
                def pqv_call(_s, *a, **k):
                    # d.get(loc[, default]): the row if the location is on the lattice (always, in the bulk); it is a
                    # membership test only together with a test of the result against None (see GeoHooks.compare)
                    return Tagged('row', a[0])
            return _Get()
        return TOP


class _Everything:
    def pqv_contains(self, x):
        return True


class _Signs:
    pass


class _SignElem:
    def __init__(self, idx):
        self.idx = idx

    def __rsub__(self, o):
        return _Toggled(self.idx) if o == 1 else TOP

    def __xor__(self, o):
        return _Toggled(self.idx) if o == 1 else TOP

    def __add__(self, o):
        return _PlusOne(self.idx) if o == 1 else TOP

    __radd__ = __add__


class _PlusOne:
    def __init__(self, idx):
        self.idx = idx

    def __mod__(self, o):
        return _Toggled(self.idx) if o == 2 else TOP


class _Toggled:
    def __init__(self, idx):
        self.idx = idx


# --------------------------------------------------------- code geometry

def _interp(ctx, rule, ci, fn, args, hooks, self_obj):
    it = Interp(ctx.model, hooks)
    outs = guard(rule, ci.module, fn)(lambda: it.explore(
        lambda: it.call_closure(Closure(fn, ci.module, ci), list(args), {}, fn, self_obj=self_obj)))
    return outs


def _classes_of(ctx: Ctx, cname: str, meth: str) -> List[Tuple[int, ...]]:
    """Residue classes (mod 4 per axis) produced by get_qubit_coordinates / get_stabilizer_coordinates."""
    ci, fn = ctx.model.method(cname, meth)
    hooks = GeoHooks()
    outs = _interp(ctx, 'R10.3', ci, fn, [], hooks, Obj(ci, 'code'))
    res: Set[Tuple[int, ...]] = set()
    for o in outs:
        if o.kind != 'return' or not isinstance(o.value, list):
            raise AnalysisError('R10.3', site_of(ci.module, fn), f'{cname}.{meth}: unexpected outcome {o!r}')
        for t in o.value:
            if not (isinstance(t, tuple) and all(isinstance(c, Coord) for c in t)):
                raise AnalysisError('R10.3', site_of(ci.module, fn), f'{cname}.{meth}: non-coordinate entry {t!r}')
            res.add(tuple((c.res + c.off) % 4 for c in t))
    return sorted(res)


def _loc(res: Tuple[int, ...]):
    return tuple(Coord(AX[i], r) for i, r in enumerate(res))


def _code_geometry(ctx: Ctx, cname: str):
    """(edge classes, face classes, support offsets per face class, seam axes)."""
    m = ctx.model
    edges = _classes_of(ctx, cname, 'get_qubit_coordinates')
    stabs = _classes_of(ctx, cname, 'get_stabilizer_coordinates')
    ci = m.cls(cname)
    tfn = ci.find_method('stabilizer_type')
    gfn = ci.find_method('get_stabilizer')
    faces = []
    for s in stabs:
        hooks = GeoHooks()
        outs = _interp(ctx, 'R10.3', tfn[0], tfn[1], [_loc(s)], hooks, Obj(ci, 'code'))
        kinds = {o.value for o in outs if o.kind == 'return'}
        if len(kinds) != 1:
            raise AnalysisError('R10.3', site_of(tfn[0].module, tfn[1]), f'{cname}.stabilizer_type{s}: {outs!r}')
        if kinds == {'face'}:
            faces.append(s)
    support: Dict[Tuple, Set[Tuple[int, ...]]] = {}
    seams: Set[str] = set()
    for f in faces:
        del _SEAMS[:]
        hooks = GeoHooks()
        outs = _interp(ctx, 'R10.3', gfn[0], gfn[1], [_loc(f)], hooks, Obj(ci, 'code'))
        rets = [o for o in outs if o.kind == 'return']
        if len(rets) != 1 or not isinstance(rets[0].value, dict):
            raise AnalysisError('R10.3', site_of(gfn[0].module, gfn[1]), f'{cname}.get_stabilizer{f}: {outs!r}')
        offs = set()
        for q, p in rets[0].value.items():
            if not (isinstance(q, tuple) and all(isinstance(c, Coord) for c in q)):
                raise AnalysisError('R10.3', site_of(gfn[0].module, gfn[1]), f'{cname}.get_stabilizer{f}: key {q!r}')
            if p != 'X':
                raise AnalysisError('R10.3', site_of(gfn[0].module, gfn[1]),
                                    f'{cname}: face stabilizer {f} carries {p!r} in the bulk, expected X')
            offs.add(tuple(c.off for c in q))
        support[f] = offs
        seams |= {a for a, kind in _SEAMS if kind in ('mod', 'compare', 'compare-const') and a in AX}
    return edges, faces, support, seams


def _decoder_flip(ctx: Ctx, dname: str, edge: Tuple[int, ...]):
    ci, fn = ctx.model.method(dname, 'flip_edge')
    del _SEAMS[:]
    del _MIXED[:]
    hooks = GeoHooks()
    it = Interp(ctx.model, hooks)
    dec = Obj(ci, 'decoder')
    dec.fields['code'] = Obj(ctx.model.cls('StabilizerCode'), 'code')

    def thunk():
        hooks.toggles.clear()
        hooks.checked.clear()
        it.call_closure(Closure(fn, ci.module, ci), [_loc(edge), _Signs()], {}, fn, self_obj=dec)
        return list(hooks.toggles)
    outs = guard('R10.3', ci.module, fn)(lambda: it.explore(thunk))
    rets = [o for o in outs if o.kind == 'return']
    seams = {a for a, kind in _SEAMS if kind in ('mod', 'compare') and a in AX}
    return rets, outs, seams, site_of(ci.module, fn), sorted(set(_MIXED))


PAIRS = [('SweepDecoder3D', 'Toric3DCode'), ('SweepDecoder3D', 'Planar3DCode'),
         ('RotatedSweepDecoder3D', 'RotatedPlanar3DCode'), ('RotatedSweepDecoder3D', 'RotatedToric3DCode')]


def _r103_104(ctx: Ctx) -> None:
    m = ctx.model
    for dname, cname in PAIRS:
        dci = m.cls(dname)
        allowed = ast.literal_eval(dci.find_attr('allowed_codes')[1])
        ctx.need(cname in allowed, 'R10.3', site_of(dci.module, dci.node), f'{cname} not in {dname}.allowed_codes')
        edges, faces, support, code_seams = _code_geometry(ctx, cname)
        ctx.need(len(edges) >= 3 and len(faces) >= 3, 'R10.3', cname, f'{cname}: {len(edges)} edge / {len(faces)} face classes')
        dec_seams_all: Set[str] = set()
        mixed_all: Set[str] = set()
        for e in edges:
            rets, outs, dseams, site, mixed = _decoder_flip(ctx, dname, e)
            dec_seams_all |= dseams
            mixed_all |= set(mixed)
            # expected: faces f = e - delta' with residue class fc, for every face class fc and delta' in support(fc)
            want = set()
            for fc, offs in support.items():
                for d in offs:
                    fres = tuple((e[i] - d[i]) % 4 for i in range(3))
                    if fres == fc:
                        want.add(tuple(-x for x in d))
            if len(rets) != 1:
                # in the bulk model every test on coordinates is decided: several paths mean a condition on a value
                # the model does not follow - undecided, not a violation
                raise AnalysisError('R10.3', site, f'{dname}.flip_edge on edge class {e} of {cname}: no single bulk path '
                                                   f'({len(outs)} outcomes: {outs[:2]!r})')
            toggles = rets[0].value
            got = set()
            bad = None
            for loc, guarded, form, txt in toggles:
                if not (isinstance(loc, tuple) and all(isinstance(c, Coord) for c in loc)):
                    bad = f'toggle of an unrecognised location {loc!r}'
                    continue
                got.add(tuple(c.off for c in loc))
            ok = bad is None and got == want and len(toggles) == len(got)
            ctx.ob('R10.3', site, f'{dname}.flip_edge on edge class {e} of {cname} toggles the faces containing it', ok,
                   bad or f'toggles faces at offsets {sorted(got)} ({len(toggles)} stores); the faces of {cname} whose '
                          f'support contains this edge are at offsets {sorted(want)}',
                   key=f'{dname}|{cname}|flip[{e}]', facts={'toggled': sorted(got), 'expected': sorted(want)})
            for loc, guarded, form, txt in toggles:
                ctx.ob('R10.4', site, f'{dname}.flip_edge (edge class {e}): toggle guarded by is_stabilizer, form s -> 1-s',
                       guarded and form,
                       ('' if guarded else 'toggle of a location that was not checked with is_stabilizer (boundary '
                                           'truncation); ') + ('' if form else f'store is not a mod-2 toggle: {txt}'),
                       key=f'{dname}|toggle-form[{e}|{tuple(c.off for c in loc) if isinstance(loc, tuple) else loc}]')
        ctx.ob('R10.4', site, f'{dname}.flip_edge ({cname}): every limit or wrap of a coordinate uses the lattice extent of '
                              f'the same axis', not mixed_all,
               '; '.join(sorted(mixed_all)) + ': on a lattice with different extents along the two axes faces inside the lattice '
               'are cut off (or faces outside it kept), so the tracked faces differ from the true syndrome',
               key=f'{dname}|{cname}|axes', facts=sorted(mixed_all))
        ok = code_seams <= dec_seams_all
        ctx.ob('R10.4', site_of(dci.module, dci.node), f'{dname} wraps the periodic axes of {cname}', ok,
               f'{cname}.get_stabilizer re-enters across the seam on axes {sorted(code_seams)}; {dname}.flip_edge '
               f'wraps axes {sorted(dec_seams_all)}: on seam edges the tracked faces differ from the true syndrome',
               key=f'{dname}|{cname}|wrap', facts={'code': sorted(code_seams), 'decoder': sorted(dec_seams_all)})


# --------------------------------------------------------- R10.1 / R10.2

class _OpDict:
    """The correction dictionary."""

    def __init__(self):
        self.events = []


class MoveHooks(Hooks):
    def __init__(self):
        self.events: List[Tuple] = []
        self.corr = None

    def attr(self, it, obj, name, node):
        if isinstance(obj, Obj) and obj.label == 'code':
            if name == 'size':
                return (TOP, TOP, TOP)
            if name in ('stabilizer_coordinates', 'stabilizer_index', 'qubit_index', 'z_indices', 'x_indices'):
                return TOP
        return NOT_HANDLED

    def call(self, it, func, args, kwargs, node, env):
        if isinstance(func, BoundMethod):
            nm = func.closure.fn.name
            if nm == 'flip_edge':
                self.events.append(('flip', args[0], args[1] if len(args) > 1 else None))
                return None
            if nm == 'site' and isinstance(func.obj, Obj) and func.obj.label == 'code':
                self.events.append(('toggle', args[2] if len(args) > 2 else kwargs.get('location'),
                                    args[1] if len(args) > 1 else kwargs.get('pauli'), args[0] if args else None))
                return None
            if nm == 'get_default_direction':
                # the tie-break draws from a literal collection: one path per value it can return (a draw from anything
                # else stays unknown)
                vals = _choice_values(func.closure.fn)
                if vals:
                    return vals[it.choose(len(vals), node)]
                return TOP
            if nm in ('is_stabilizer', 'stabilizer_type'):
                return TOP
            if nm in ('get_sweep_faces', 'get_sweep_edges'):
                return tuple(Tagged(nm, i, len(self.events)) for i in range(3))
        n = np_name(func)
        if n in ('mod', 'array'):
            return Tagged('loc', id(node))
        if n:
            return TOP
        if isinstance(func, Ext) and func.name == 'builtins.tuple' and len(args) == 1 and isinstance(args[0], Tagged) \
                and args[0].tag == 'loc':
            return args[0]                       # tuple(np.mod(...)): the same location
        return NOT_HANDLED

    def iterate(self, it, value, node):
        if value is TOP:
            tgt = getattr(node, 'target', None)
            return [tuple(TOP for _ in tgt.elts)] if isinstance(tgt, ast.Tuple) else [TOP]
        return NOT_HANDLED

    def store_subscript(self, it, obj, idx, value, node, env):
        if isinstance(obj, _OpDict):
            self.events.append(('assign', idx, value, obj))
            return None
        return NOT_HANDLED

    def compare(self, it, op, a, b, node):
        if isinstance(op, (ast.In, ast.NotIn)) and isinstance(b, _OpDict):
            self.events.append(('contains', a))
            return TOP
        return NOT_HANDLED


def _choice_values(fn) -> Optional[list]:
    """Values of `int(rng.choice(<literal list>, ...)[0])` / `rng.choice(<literal>)` / `rng.integers(k)` returned by a
    one-expression tie-break method; None when the method has another shape."""
    rets = [n for n in ast.walk(fn) if isinstance(n, ast.Return) and n.value is not None]
    if len(rets) != 1:
        return None
    e = rets[0].value
    defs = {n.targets[0].id: n.value for n in ast.walk(fn)
            if isinstance(n, ast.Assign) and len(n.targets) == 1 and isinstance(n.targets[0], ast.Name)}
    for _ in range(4):
        if isinstance(e, ast.Name) and e.id in defs:
            e = defs[e.id]
        elif isinstance(e, ast.Call) and isinstance(e.func, ast.Name) and e.func.id == 'int' and len(e.args) == 1:
            e = e.args[0]
        elif isinstance(e, ast.Subscript) and isinstance(e.slice, ast.Constant) and e.slice.value == 0:
            e = e.value
        else:
            break
    if isinstance(e, ast.Call) and isinstance(e.func, ast.Attribute) and e.func.attr == 'choice' and e.args:
        try:
            v = ast.literal_eval(e.args[0])
        except ValueError:
            return None
        if isinstance(v, int):
            return list(range(v))
        return sorted(set(v)) if isinstance(v, (list, tuple)) and all(isinstance(x, int) for x in v) else None
    if isinstance(e, ast.Call) and isinstance(e.func, ast.Attribute) and e.func.attr in ('integers', 'randint') \
            and len(e.args) == 1 and isinstance(e.args[0], ast.Constant) and isinstance(e.args[0].value, int):
        return list(range(e.args[0].value))
    return None


def _fancy_toggles(ctx: Ctx) -> None:
    """A toggle `a[I] = 1 - a[I]` with an index COLLECTION applies once per distinct index (NumPy fancy assignment):
    when the collection is gathered over several edges, a face shared by two of them must flip twice and flips once."""
    m = ctx.model
    for dname in ('SweepDecoder3D', 'RotatedSweepDecoder3D'):
        ci = m.cls(dname)
        n_toggles = 0
        for fname, fn in ci.methods.items():
            defs = {}
            grown_in_loop = set()
            pm = parent_map(fn)
            for n in ast.walk(fn):
                if isinstance(n, ast.Assign) and len(n.targets) == 1 and isinstance(n.targets[0], ast.Name):
                    defs.setdefault(n.targets[0].id, []).append(n.value)
                grow = None
                if isinstance(n, ast.Call) and isinstance(n.func, ast.Attribute) and n.func.attr in ('extend', 'append') \
                        and isinstance(n.func.value, ast.Name):
                    grow = n.func.value.id
                elif isinstance(n, ast.AugAssign) and isinstance(n.target, ast.Name) and isinstance(n.op, ast.Add):
                    grow = n.target.id
                if grow:
                    cur = n
                    while cur in pm:
                        cur = pm[cur]
                        if isinstance(cur, (ast.For, ast.While)):
                            grown_in_loop.add(grow)
                            break

            def collection_over_edges(e, depth=0):
                """index expression is a collection whose elements come from a container grown inside a loop"""
                if depth > 4:
                    return False
                if isinstance(e, ast.Name):
                    if e.id in grown_in_loop:
                        return True
                    return any(collection_over_edges(d, depth + 1) for d in defs.get(e.id, ()))
                if isinstance(e, (ast.ListComp, ast.GeneratorExp)):
                    return any(collection_over_edges(g.iter, depth + 1) for g in e.generators)
                if isinstance(e, ast.Call):
                    return any(collection_over_edges(a, depth + 1) for a in e.args)
                return False
            for n in ast.walk(fn):            # nested helper functions included
                tgt = None
                if isinstance(n, ast.Assign) and isinstance(n.targets[0], ast.Subscript):
                    v = ast.unparse(n.value).replace(' ', '')
                    t = ast.unparse(n.targets[0]).replace(' ', '')
                    if v in (f'1-{t}', f'({t}+1)%2', f'{t}^1', f'1^{t}'):
                        tgt = n.targets[0]
                elif isinstance(n, ast.AugAssign) and isinstance(n.target, ast.Subscript) and isinstance(n.op, ast.BitXor):
                    tgt = n.target
                if tgt is None:
                    continue
                n_toggles += 1
                bad = collection_over_edges(tgt.slice)
                ctx.ob('R10.1', site_of(ci.module, n), f'{dname}.{fname}: a state toggle flips once per flipped edge', not bad,
                       f'{norm_stmt(n)}: the index is a collection gathered over several edges; NumPy applies a fancy '
                       f'assignment once per distinct index, so a face shared by two edges flipped in the same step is '
                       f'toggled once instead of twice and the tracked state loses an excitation',
                       key=f'{dname}.{fname}|toggle-per-edge')
        ctx.need(n_toggles >= 1, 'R10.1', site_of(ci.module, ci.node), f'{dname}: no state toggle of the form a[i] = 1 - a[i] found')


def _r101_102(ctx: Ctx) -> None:
    m = ctx.model
    _fancy_toggles(ctx)
    for dname in ('SweepDecoder3D', 'RotatedSweepDecoder3D'):
        ci, fn = m.method(dname, 'sweep_move')
        site = site_of(ci.module, fn)
        hooks = MoveHooks()
        it = Interp(m, hooks)
        nparams = len(fn.args.args)

        def thunk():
            hooks.events.clear()
            dec = Obj(ci, 'decoder')
            dec.fields['code'] = Obj(m.cls('StabilizerCode'), 'code')
            corr = _OpDict()
            hooks.corr = corr
            extra = [(1, 0, 1)] if nparams > 3 else []
            it.call_closure(Closure(fn, ci.module, ci), [Tagged('signs'), corr] + extra, {}, fn, self_obj=dec)
            return list(hooks.events), corr
        outs = guard('R10.1', ci.module, fn)(lambda: it.explore(thunk))
        rets = [o for o in outs if o.kind == 'return']
        ctx.need(rets, 'R10.1', site, f'{dname}.sweep_move: no returning path')
        # the only unknowns of this interpretation are the excitations and the tie-break value: a path that ends in a
        # lookup error is a combination of them the method cannot handle
        raising = [o for o in outs if o.kind == 'raise' and str(o.exc).split('(')[0] in ('KeyError', 'IndexError')]
        ctx.ob('R10.1', site, f'{dname}.sweep_move handles every combination of excited faces and every tie-break value '
                              f'({len(outs)} paths)', not raising,
               f'{len(raising)} path(s) end in {raising[0].exc if raising else ""}: a value the tie-break can return (or a '
               f'combination of excited faces) has no entry in a lookup of sweep_move', key=f'{dname}.sweep_move|total',
               facts={'paths': len(outs)})
        n_flips = 0
        bad = None
        bad_z = None
        for o in rets:
            events, corr = o.value
            flips = [e for e in events if e[0] == 'flip']
            for fl in flips:
                n_flips += 1
                loc = fl[1]
                tog = [e for e in events if e[0] == 'toggle' and (e[1] is loc) and e[3] is corr]
                asg = [e for e in events if e[0] == 'assign' and (e[1] is loc)]
                if len(tog) != 1 or asg:
                    bad = (f'flip_edge({loc!r}) is paired with {len(tog)} toggle(s) and {len(asg)} plain '
                           f'assignment(s) of the correction: an edge flipped twice stays in the correction')
                for e in tog:
                    if e[2] != 'Z':
                        bad_z = f'correction toggled with Pauli {e[2]!r}'
                for e in asg:
                    if e[2] != 'Z':
                        bad_z = f'correction assigned Pauli {e[2]!r}'
            for e in events:
                if e[0] in ('toggle', 'assign') and not any(f[1] is e[1] for f in flips):
                    bad = f'correction changed at {e[1]!r} without flipping the tracked faces of that edge'
        n_changes = sum(1 for o in rets for e in o.value[0] if e[0] in ('toggle', 'assign'))
        ctx.need(n_flips > 0 or n_changes > 0, 'R10.1', site,
                 f'{dname}.sweep_move: neither flip_edge nor a correction update found on any path')
        ctx.ob('R10.1', site, f'{dname}.sweep_move: each flip_edge paired with one mod-2 toggle of the correction '
                              f'({len(rets)} paths)', bad is None, bad or '', key=f'{dname}.sweep_move|pairing',
               facts={'paths': len(rets), 'flips': n_flips})
        ctx.ob('R10.2', site, f'{dname}.sweep_move writes only Z into the correction', bad_z is None, bad_z or '',
               key=f'{dname}.sweep_move|Z-only')
        # decode returns to_bsf of the very dictionary every sweep_move call updated (interpreted; identity of objects)
        dfn = ci.methods['decode']
        moves = []
        inits = []

        class HDec(Hooks):
            def attr(self, it_, obj, name, node):
                if isinstance(obj, Obj) and obj.label == 'code' and name == 'size':
                    return (3, 3, 3)
                return NOT_HANDLED

            def call(self, it_, func, args, kwargs, node, env):
                if isinstance(func, BoundMethod):
                    nm = func.closure.fn.name
                    if nm == 'sweep_move':
                        moves.append(args[1] if len(args) > 1 else kwargs.get('correction'))
                        return Tagged('signs')
                    if nm == 'get_initial_state':
                        return Tagged('signs')
                    if nm == 'to_bsf' and isinstance(func.obj, Obj) and func.obj.label == 'code':
                        return Tagged('to_bsf', id(args[0]), type(args[0]).__name__)
                if isinstance(func, Ext) and func.name == 'builtins.any':
                    return TOP
                return NOT_HANDLED
        it2 = Interp(m, HDec())

        def thunk2():
            moves.clear()
            dec = Obj(ci, 'decoder')
            dec.fields['code'] = Obj(m.cls('StabilizerCode'), 'code')
            dec.fields['max_rounds'] = 2
            dec.fields['max_sweep_factor'] = 1
            v = it2.call_closure(Closure(dfn, ci.module, ci), [Tagged('syndrome')], {}, dfn, self_obj=dec)
            return v, [id(x) for x in moves], [type(x).__name__ for x in moves]
        outs2 = guard('R10.2', ci.module, dfn)(lambda: it2.explore(thunk2))
        rets2 = [o for o in outs2 if o.kind == 'return']
        ctx.need(rets2, 'R10.2', site_of(ci.module, dfn), f'{dname}.decode: no returning path {outs2[:2]!r}')
        bad2 = None
        n_moves = 0
        for o in rets2:
            v, ids, kinds = o.value
            n_moves += len(ids)
            if not (isinstance(v, Tagged) and v.tag == 'to_bsf'):
                bad2 = f'decode returns {v!r}, not to_bsf(correction)'
                break
            if any(i != v.args[0] for i in ids):
                bad2 = ('sweep_move updates a different dictionary than the one converted by to_bsf: flips made in '
                        'different sweeps are not accumulated mod 2 in one correction')
                break
            if v.args[1] != 'dict':
                bad2 = f'correction is a {v.args[1]}'
        ctx.need(n_moves > 0 or bad2, 'R10.2', site_of(ci.module, dfn), f'{dname}.decode: sweep_move never called')
        ctx.ob('R10.2', site_of(ci.module, dfn), f'{dname}.decode returns to_bsf of the one accumulated correction', bad2 is None,
               bad2 or '', key=f'{dname}.decode|to_bsf', facts={'paths': len(rets2), 'sweep_move_calls': n_moves})


class _Arr:
    """abstract array with recorded stores"""

    def __init__(self, name, origin=None):
        self.name, self.origin = name, origin
        self.stores = []

    def pqv_getattr(self, name):
        if name == 'copy':
            return _CallF(lambda *a, **k: _Arr(self.name + '.copy', self))
        return TOP

    def pqv_setitem(self, idx, v):
        self.stores.append((idx, v))


class _CallF:
    def __init__(self, f):
        self.f = f

    def pqv_call(self, *a, **k):
        return self.f(*a, **k)


def _r105(ctx: Ctx) -> None:
    m = ctx.model
    for dname in ('SweepDecoder3D', 'RotatedSweepDecoder3D'):
        ci, fn = m.method(dname, 'get_initial_state')

        class H(Hooks):
            def attr(self, it, obj, name, node):
                if isinstance(obj, Obj) and obj.label == 'code' and name in ('z_indices', 'x_indices'):
                    return Tagged(name)
                return NOT_HANDLED

            def call(self, it, func, args, kwargs, node, env):
                n = np_name(func)
                if n in ('array', 'copy') and args and isinstance(args[0], _Arr):
                    return _Arr(args[0].name + '.copy', args[0])
                return NOT_HANDLED
        it = Interp(m, H())
        syn = _Arr('syndrome')

        def thunk():
            syn.stores.clear()
            dec = Obj(ci, 'decoder')
            dec.fields['code'] = Obj(m.cls('StabilizerCode'), 'code')
            return it.call_closure(Closure(fn, ci.module, ci), [syn], {}, fn, self_obj=dec)
        outs = guard('R10.5', ci.module, fn)(lambda: it.explore(thunk))
        ctx.need(len(outs) == 1 and outs[0].kind == 'return', 'R10.5', site_of(ci.module, fn), f'{outs!r}')
        v = outs[0].value
        bad = None
        if not (isinstance(v, _Arr) and v.origin is syn):
            bad = f'returns {getattr(v, "name", v)!r}, expected a copy of the syndrome'
        elif syn.stores:
            bad = 'writes into the caller\'s syndrome'
        elif v.stores != [(Tagged('z_indices'), 0)]:
            bad = f'stores {v.stores!r}; expected exactly the vertex (Z-type) rows set to 0, face rows kept'
        ctx.ob('R10.5', site_of(ci.module, fn), f'{dname}.get_initial_state = copy of the syndrome with the Z-type rows zeroed',
               bad is None, bad or '', key=f'{dname}.get_initial_state|rows')


def run(ctx: Ctx) -> None:
    ctx.rule('R10.1', 'every flip_edge is paired with a mod-2 toggle of the correction at the same edge', floor=2)
    ctx.rule('R10.2', 'corrections are Z-only and decode returns to_bsf of the accumulated dictionary', floor=4)
    ctx.rule('R10.3', 'flip_edge toggles exactly the faces whose support contains the edge (bulk, per residue class)', floor=16)
    ctx.rule('R10.4', 'toggles guarded by is_stabilizer and of the form s -> 1-s; periodic axes wrapped', floor=40)
    ctx.rule('R10.5', 'initial state keeps the face rows only', floor=2)
    ctx.trust('bulk analysis: coordinates are far from every boundary; boundary truncation is delegated to '
              'is_stabilizer/is_qubit filters (checked to be present), seams to the wrap-agreement rule',
              'StabilizerCode.site multiplies Paulis (product table decided in C03 R03.2)')
    with ctx.part():
        _r101_102(ctx)
    with ctx.part():
        _r103_104(ctx)
    with ctx.part():
        _r105(ctx)
    with ctx.part():
        # the correction accumulated for one syndrome is that call's own: nothing written by decode outlives the call
        # (a dictionary kept on the decoder and cleared on some exits only leaks one decode into the next)
        from .c06 import decoder_state_rule
        decoder_state_rule(ctx, 'R10.2', ('SweepDecoder3D', 'RotatedSweepDecoder3D'))
