"""C09 - matching solves the right weighted problem (pairing clauses only)."""
from __future__ import annotations

from ..report import Ctx
from . import sector
from .c05 import facts_to_obs

EXPLANATION = (
    'Partial: only the clauses that make the matcher solve the RIGHT weighted problem are decided. Abstract '
    'interpretation with sector-typed values of BaseErrorModel.get_weights and of MatchingDecoder / '
    'SweepMatchDecoder / RotatedSweepMatchDecoder (constructor + decode): R09.1 the weight vector handed to the '
    'matcher built on Hz is -log(P{X,Y}/(1-P{X,Y})) (X-flip log-likelihood ratio: positive and decreasing in the '
    'flip probability), dually for Hx; R09.2 the matcher on Hz receives the Z-row syndrome and its result is '
    'written to the X half (dually), and the sweep-match wrappers add a Z-only sweep correction to an X-only '
    'matching correction. Minimality of the matching, union-find correctability and sweep-rule correctability '
    'quantify over solver output and are NOT decided.'
)

_MATCHERS = ('MatchingDecoder', 'SweepMatchDecoder', 'RotatedSweepMatchDecoder', 'BaseErrorModel')


def run(ctx: Ctx) -> None:
    ctx.rule('R09.1', 'matching weights are the negative log-odds of the flip marginal of the detected sector', floor=7)
    ctx.rule('R09.2', 'matcher <-> syndrome part <-> output half pairing in the matching decoders', floor=15)
    ctx.trust('PyMatching returns a minimum-weight perfect matching for the weights it is given')
    with ctx.part():
        facts = [f for f in sector.analyse(ctx.model, only=_MATCHERS) if f.decoder in _MATCHERS]
        facts_to_obs(ctx, facts, {'weights': 'R09.1', 'get_weights': 'R09.1', 'rate': 'R09.1', 'matrix': 'R09.2',
                                  'syndrome': 'R09.2', 'output': 'R09.2'})
    with ctx.part():
        from .c08 import weights_vs_distribution
        weights_vs_distribution(ctx, 'R09.1')
    with ctx.part():
        # ... and that distribution is the deformed channel (shared with C08 R08.6)
        from .c08 import _r086
        sub = Ctx('C09', ctx.model, ctx.tier, ctx.seed)
        sub.rule('R08.6', '', 0)
        _r086(sub)
        for o in sub.obs:
            ctx.ob('R09.1', o.site, o.what, o.ok, o.detail, key=o.key.split('|', 1)[1], facts=o.facts)
    with ctx.part():
        # the decoders of this property answer from the syndrome alone: no state written by one decode is read by the next
        from .c06 import decoder_state_rule
        decoder_state_rule(ctx, 'R09.2', ('MatchingDecoder', 'UnionFindDecoder', 'SweepMatchDecoder',
                                          'RotatedSweepMatchDecoder', 'SweepDecoder3D', 'RotatedSweepDecoder3D'))
