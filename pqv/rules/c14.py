"""C14 - parallel runs execute exactly the requested trials per input."""
from __future__ import annotations

import ast

from ..interp import NOT_HANDLED, TOP, Closure, Ext, Hooks, Interp, guard, site_of
from ..model import AnalysisError, norm_stmt, walk_no_nested
from ..report import Ctx

EXPLANATION = (
    'Partial. R14.1 (structural): in run_parallel every per-share count q = A // B that later receives a remainder '
    'must receive A % B with the same A and the same B (expressions compared after resolving single-assignment '
    'names, no reassignment of B in between), added to exactly one share (guard `index == B - 1`). Sum of shares = '
    'B*q + r equals A only for r = A mod B. R14.2 (structural): result and progress file names are f-strings of the '
    'task index i_task = n_cores * (job_idx - 1) + i_core with i_core ranging over range(n_cores) (injective). '
    'R14.3 (bounded partial evaluation, not a proof): the function is interpreted with all I/O replaced by '
    'recorders for every configuration up to a bound (inputs, nodes, cores, trials) with N*C >= #inputs and '
    'trials >= tasks of the fullest input, for every job index: per input the trials of all tasks sum to the request, '
    'every task has >= 1 trial and its own result and progress file, nothing raises. The unbounded integer '
    'arithmetic is NOT decided.'
)


def _resolve(expr: ast.AST, defs: dict) -> str:
    """Text of expr with single-assignment simple names expanded once."""
    class T(ast.NodeTransformer):
        def visit_Name(self, n):
            if n.id in defs and defs[n.id] is not None:
                return ast.copy_location(defs[n.id], n)
            return n
    import copy
    return ast.unparse(T().visit(copy.deepcopy(expr)))


def _r141(ctx: Ctx) -> None:
    """run_parallel and the helpers of the same module it calls (the split may live in a helper)."""
    m = ctx.model
    mi, fn = m.func('panqec.cli', 'run_parallel')
    fns = [fn]
    for c_ in ast.walk(fn):
        if isinstance(c_, ast.Call) and isinstance(c_.func, ast.Name):
            try:
                _, f2 = m.func('panqec.cli', c_.func.id)
            except Exception:
                continue
            if f2 not in fns:
                fns.append(f2)
    res = [_r141_fn(ctx, mi, f_) for f_ in fns]
    site = site_of(mi, fn)
    ctx.need(any(q for q, _ in res), 'R14.1', site, 'no quotient (A // B, divmod) found in run_parallel or its helpers')
    found = sum(f for _, f in res)
    ctx.need(found >= 2, 'R14.1', site, f'only {found} quotient/remainder pairs recognised in run_parallel and its helpers')


def _r141_fn(ctx: Ctx, mi, fn):
    site = site_of(mi, fn)
    stmts = [n for n in ast.walk(fn) if isinstance(n, (ast.Assign, ast.AugAssign))]
    # quotient definitions  v = A // B
    quot = {}
    for n in stmts:
        if isinstance(n, ast.Assign) and len(n.targets) == 1 and isinstance(n.targets[0], ast.Name) \
                and isinstance(n.value, ast.BinOp) and isinstance(n.value.op, ast.FloorDiv):
            quot.setdefault(n.targets[0].id, []).append(n)
    # v = w where w is (only) a quotient: v is that quotient too (a loop-invariant hoisted under another name)
    for n in stmts:
        if isinstance(n, ast.Assign) and len(n.targets) == 1 and isinstance(n.targets[0], ast.Name) \
                and isinstance(n.value, ast.Name) and len(quot.get(n.value.id, ())) == 1 and n.targets[0].id not in quot:
            src_q = quot[n.value.id][0]
            fake = ast.copy_location(ast.Assign(targets=[ast.Name(id=n.targets[0].id, ctx=ast.Store())], value=src_q.value), n)
            ast.fix_missing_locations(fake)
            fake.lineno = n.lineno
            quot.setdefault(n.targets[0].id, []).append(fake)
    # q, r = divmod(A, B): q is a quotient and r the matching remainder
    dm = {}
    for n in stmts:
        if isinstance(n, ast.Assign) and len(n.targets) == 1 and isinstance(n.targets[0], ast.Tuple) \
                and len(n.targets[0].elts) == 2 and all(isinstance(e, ast.Name) for e in n.targets[0].elts) \
                and isinstance(n.value, ast.Call) and isinstance(n.value.func, ast.Name) and n.value.func.id == 'divmod' \
                and len(n.value.args) == 2 and not n.value.keywords:
            qn, rn = (e.id for e in n.targets[0].elts)
            A_, B_ = n.value.args
            fake = ast.copy_location(ast.Assign(targets=[ast.Name(id=qn, ctx=ast.Store())],
                                                value=ast.BinOp(left=A_, op=ast.FloorDiv(), right=B_)), n)
            ast.fix_missing_locations(fake)
            quot.setdefault(qn, []).append(fake)
            dm.setdefault(rn, []).append(ast.copy_location(ast.BinOp(left=A_, op=ast.Mod(), right=B_), n))
    stores = {}
    for n in ast.walk(fn):
        if isinstance(n, ast.Name) and isinstance(n.ctx, ast.Store):
            stores[n.id] = stores.get(n.id, 0) + 1
    if not quot:
        return False, 0
    found = 0
    for n in stmts:
        rem = None
        tgt = None
        if isinstance(n, ast.AugAssign) and isinstance(n.op, ast.Add) and isinstance(n.target, ast.Name):
            tgt = n.target.id
            rem = n.value
        elif isinstance(n, ast.Assign) and len(n.targets) == 1 and isinstance(n.targets[0], ast.Name) \
                and isinstance(n.value, ast.BinOp) and isinstance(n.value.op, ast.Add) \
                and isinstance(n.value.left, ast.Name) and n.value.left.id == n.targets[0].id:
            tgt = n.targets[0].id
            rem = n.value.right
        if tgt is None or tgt not in quot:
            continue
        if isinstance(rem, ast.Name) and len(dm.get(rem.id, ())) == 1 and stores.get(rem.id) == 1:
            rem = dm[rem.id][0]
        if not (isinstance(rem, ast.BinOp) and isinstance(rem.op, ast.Mod)):
            continue
        found += 1
        q = sorted((d for d in quot[tgt] if d.lineno < n.lineno), key=lambda d: d.lineno)[-1]
        A, B = ast.unparse(q.value.left), ast.unparse(q.value.right)
        A2, B2 = ast.unparse(rem.left), ast.unparse(rem.right)
        # B must not be reassigned between quotient and remainder unless the remainder refers to the old value
        between = [s for s in stmts if q.lineno < s.lineno < n.lineno and any(
            isinstance(t, ast.Name) and t.id in (A, B) for t in (s.targets if isinstance(s, ast.Assign) else [s.target]))]
        ok = (A2 == A and B2 == B and not between) or _self_consistent_update(q, n, rem, between)
        ctx.ob('R14.1', site_of(mi, n), f'run_parallel: remainder added to `{tgt}` pairs with its quotient', ok,
               f'{norm_stmt(q)} ... {norm_stmt(n)}: the remainder must be ({A}) % ({B}); shares sum to '
               f'B*q + r which equals the total only for r = total mod B', key=f'run_parallel|remainder[{tgt}]',
               facts={'quotient': norm_stmt(q), 'remainder': norm_stmt(n)})
        # applied to exactly one share: guarded by `== B - 1` style test
        pm = {}
        for p in ast.walk(fn):
            for c in ast.iter_child_nodes(p):
                pm[c] = p
        g = pm.get(n)
        gtest = g.test if isinstance(g, ast.If) else None
        if isinstance(gtest, ast.Name):
            # a named condition (`is_last = i == last`): look at its single definition
            gdefs = [s_.value for s_ in stmts if isinstance(s_, ast.Assign) and len(s_.targets) == 1
                     and isinstance(s_.targets[0], ast.Name) and s_.targets[0].id == gtest.id]
            gtest = gdefs[0] if len(gdefs) == 1 else gtest
        # `== last` or `>= last` (indices beyond the last one are clamped to it); which shares the test selects for
        # concrete sizes is decided by the bounded evaluation R14.3
        ok_g = isinstance(g, ast.If) and isinstance(gtest, ast.Compare) and len(gtest.ops) == 1 \
            and isinstance(gtest.ops[0], (ast.Eq, ast.GtE, ast.LtE))
        ctx.ob('R14.1', site_of(mi, g if g is not None else n), f'run_parallel: remainder of `{tgt}` goes to exactly one share',
               ok_g, f'{norm_stmt(n)} is not guarded by a test selecting a single share',
               key=f'run_parallel|one-share[{tgt}]', facts=ast.unparse(g.test) if isinstance(g, ast.If) else None)
    return True, found


def _self_consistent_update(q, n, rem, between) -> bool:
    """`t = N // I` ... `t = t + N % I`: the updated name is the quotient itself (task split)."""
    A, B = ast.unparse(q.value.left), ast.unparse(q.value.right)
    return ast.unparse(rem.left) == A and ast.unparse(rem.right) == B and not between


def _r142(ctx: Ctx) -> None:
    m = ctx.model
    mi, fn = m.func('panqec.cli', 'run_parallel')
    site = site_of(mi, fn)
    defs = {}
    for n in ast.walk(fn):
        if isinstance(n, ast.Assign) and len(n.targets) == 1 and isinstance(n.targets[0], ast.Name):
            defs.setdefault(n.targets[0].id, []).append(n)
    ctx.need('i_task' in defs and len(defs['i_task']) == 1, 'R14.2', site, 'i_task definition not found')
    it_def = defs['i_task'][0]
    loops = [n for n in ast.walk(fn) if isinstance(n, ast.For) and isinstance(n.target, ast.Name)
             and any(it_def is x for x in ast.walk(n))]
    node_def = defs.get('i_node', [None])[0]
    # i_task as a polynomial in (n_cores, job_idx, loop variable)
    from ..domains import Poly
    from ..interp import Env as _Env, Interp as _Interp
    it_ = _Interp(m)
    e = _Env(mi)
    lv = loops[0].target.id if loops else 'i_core'
    e.vars.update({'n_cores': Poly.var('C'), 'job_idx': Poly.var('J'), lv: Poly.var('c'), 'n_nodes': Poly.var('N')})
    if node_def is not None:
        e.vars['i_node'] = it_.ev(node_def.value, e)
    val = it_.ev(it_def.value, e)
    want = Poly.var('C') * (Poly.var('J') - 1) + Poly.var('c')
    ok = bool(loops) and isinstance(val, Poly) and val == want \
        and ast.unparse(loops[0].iter).replace(' ', '') in ('range(n_cores)', 'range(0,n_cores)')
    ctx.ob('R14.2', site_of(mi, it_def), 'run_parallel: task index = n_cores*(job_idx-1) + i_core, i_core in range(n_cores)',
           ok, f'i_task = {val!r} with C=n_cores, J=job_idx, c=loop variable (expected C*J - C + c); loop over '
               f'{norm_stmt(loops[0].iter) if loops else None}', key='run_parallel|task-index', facts=repr(val))
    # file names depend on i_task
    for var in ('result_json_file', 'log_file'):
        ctx.need(var in defs, 'R14.2', site, f'{var} not found')
        d = defs[var][0]
        # transitively through local definitions (a label computed from the task index and used in both names)
        names, work = set(), [d.value]
        while work:
            e = work.pop()
            for x in ast.walk(e):
                if isinstance(x, ast.Name) and x.id not in names:
                    names.add(x.id)
                    work.extend(dd.value for dd in defs.get(x.id, ()) if dd is not d)
        ctx.ob('R14.2', site_of(mi, d), f'run_parallel: {var} depends on the task index', 'i_task' in names,
               f'{norm_stmt(d)} does not mention i_task: tasks would share a file', key=f'run_parallel|{var}')
    # the file handed to run_file derives from result_json_file
    procs = [n for n in ast.walk(fn) if isinstance(n, ast.Call) and ast.unparse(n.func).endswith('Process')]
    ctx.need(len(procs) == 1, 'R14.2', site, 'Process(...) call not found')
    kw = {k.arg: k.value for k in procs[0].keywords}
    args = kw.get('args')
    ok = isinstance(args, ast.Tuple) and len(args.elts) == 3 and [ast.unparse(e) for e in args.elts] == \
        ['input_file', 'result_file', 'n_runs']
    kws = kw.get('kwargs')
    okk = isinstance(kws, ast.Dict) and any(isinstance(k, ast.Constant) and k.value == 'log_file' and
                                            ast.unparse(v) == 'log_file' for k, v in zip(kws.keys, kws.values))
    ctx.ob('R14.2', site_of(mi, procs[0]), 'run_parallel: each task runs run_file(input_file, result_file, n_runs, log_file=...)',
           ok and okk and ast.unparse(kw.get('target')) == 'run_file', f'{norm_stmt(procs[0])}', key='run_parallel|process-args')


class _H(Hooks):
    def __init__(self, n_inputs, fs=None):
        self.n_inputs = n_inputs
        self.tasks = []
        # files of the shared data directory (the nodes of one run see the same one)
        self.fs = fs if fs is not None else set()
        self.fs |= {f'D/inputs/in{i}.json' for i in range(n_inputs)}

    def call(self, it, func, args, kwargs, node, env):
        if isinstance(func, Ext):
            n = func.name
            if n == 'os.path.join':
                return '/'.join(str(a) for a in args)
            if n in ('os.makedirs', 'builtins.print'):
                return None
            if n in ('os.remove', 'os.unlink'):
                if not isinstance(args[0], str):
                    raise AnalysisError('R14.3', site_of(env.module, node), f'os.remove of an untracked path {args[0]!r}')
                self.fs.discard(args[0])
                return None
            if n == 'multiprocessing.cpu_count':
                return 1024
            if n == 'glob.glob':
                import fnmatch
                if not isinstance(args[0], str):
                    raise AnalysisError('R14.3', site_of(env.module, node), f'glob of an untracked pattern {args[0]!r}')
                return sorted(fnmatch.filter(self.fs, args[0]))
            if n == 'os.path.basename':
                return str(args[0]).split('/')[-1]
            if n == 'os.path.abspath':
                return args[0]
            if n == 'os.path.exists':
                return args[0] in self.fs
            if n == 'multiprocessing.Process':
                self.tasks.append((kwargs.get('args'), kwargs.get('kwargs')))
                a = kwargs.get('args')
                if isinstance(a, tuple) and len(a) >= 2 and isinstance(a[1], str):
                    self.fs.add(a[1])            # the task writes its result file
                return Ext('proc')
            if n.startswith('proc'):
                return None
        return NOT_HANDLED


def _r143(ctx: Ctx) -> None:
    m = ctx.model
    mi, fn = m.func('panqec.cli', 'run_parallel')
    site = site_of(mi, fn)
    big = ctx.tier == 'thorough'
    max_in, max_n, max_c, max_t = (5, 4, 5, 17) if big else (3, 2, 4, 9)
    total = bad = 0
    first = None
    for n_inputs in range(1, max_in + 1):
        for N in range(1, max_n + 1):
            for C in range(1, max_c + 1):
                if N * C < n_inputs:
                    continue
                tpi = (N * C) // n_inputs
                for trials in range(1, max_t + 1):
                    if trials < tpi + (N * C) % n_inputs:
                        continue
                    total += 1
                    tasks = []
                    err = None
                    for job in range(1, N + 1):
                        h = _H(n_inputs)
                        it = Interp(m, h)
                        outs = guard('R14.3', mi, fn)(lambda: it.explore(lambda: it.call_closure(
                            Closure(fn, mi), [], dict(data_dir='D', trials=trials, n_nodes=N, job_idx=job, n_cores=C,
                                                      delete_existing=False), fn)))
                        if len(outs) != 1 or outs[0].kind != 'return':
                            err = f'job {job}: {outs!r}'
                            break
                        tasks += h.tasks
                    why = err
                    if why is None:
                        per = {}
                        files, logs = set(), set()
                        for (a, kw) in tasks:
                            if 'TOP' in repr(a) or 'TOP' in repr(kw):
                                raise AnalysisError('R14.3', site, f'run_parallel: task arguments not tracked ({a!r}) for '
                                                                   f'{n_inputs} input(s), {N}x{C} tasks, {trials} trials')
                            if not (isinstance(a, tuple) and len(a) == 3 and isinstance(a[2], int)):
                                why = f'task arguments {a!r}'
                                break
                            per[a[0]] = per.get(a[0], 0) + a[2]
                            if a[2] < 1:
                                why = f'a task of {a[0]} gets {a[2]} trials'
                            files.add(a[1])
                            logs.add((kw or {}).get('log_file'))
                        if why is None and (len(files) != len(tasks) or len(logs) != len(tasks)):
                            why = 'two tasks share a result or progress file'
                        if why is None and len(tasks) != N * C:
                            why = f'{len(tasks)} tasks launched by {N} nodes x {C} cores'
                        if why is None and (len(per) != n_inputs or any(v != trials for v in per.values())):
                            why = f'trials per input {sorted(per.values())} (requested {trials} for each of {n_inputs})'
                    if why:
                        bad += 1
                        first = first or f'{n_inputs} input(s), {N} node(s) x {C} core(s), {trials} trials: {why}'
    ctx.ob('R14.3', site, f'run_parallel interpreted on {total} configurations (bounded): trials conserved per input, '
                          f'>=1 trial and own files per task, nothing raises', bad == 0,
           f'{bad} of {total} configurations fail; first: {first}', key='run_parallel|bounded',
           facts={'configurations': total, 'failing': bad,
                  'bounds': {'inputs': max_in, 'nodes': max_n, 'cores': max_c, 'trials': max_t}})
    ctx.extra['bounded_configurations'] = total
    # --delete-existing on a directory that already holds results, the nodes starting one after the other (in either
    # order): when all have started, the result file of every task launched in THIS run is still there
    total2 = bad2 = 0
    first2 = None
    for n_inputs in range(1, 3):
        for N in range(1, 4):
            for C in range(1, 4):
                if N * C < n_inputs:
                    continue
                for order in (list(range(1, N + 1)), list(range(N, 0, -1))):
                    total2 += 1
                    width = len(str(N * C))
                    fs = {f'D/results/results_{str(i + 1).zfill(width)}.json{sfx}' for i in range(N * C + 2) for sfx in ('', '.gz')}
                    launched = []
                    why = None
                    for job in order:
                        h = _H(n_inputs, fs)
                        it = Interp(m, h)
                        outs = guard('R14.3', mi, fn)(lambda: it.explore(lambda: it.call_closure(
                            Closure(fn, mi), [], dict(data_dir='D', trials=N * C + 1, n_nodes=N, job_idx=job, n_cores=C,
                                                      delete_existing=True), fn)))
                        if len(outs) != 1 or outs[0].kind != 'return':
                            why = f'job {job}: {outs!r}'
                            break
                        launched += [(job, a[1]) for a, _ in h.tasks if isinstance(a, tuple) and len(a) >= 2]
                    if why is None:
                        gone = [(job, f) for job, f in launched if f not in fs]
                        if gone:
                            why = (f'the result file {gone[0][1]} of a task started by node {gone[0][0]} is deleted by a node '
                                   f'that starts later')
                    if why:
                        bad2 += 1
                        first2 = first2 or f'{n_inputs} input(s), {N} node(s) x {C} core(s), nodes starting in the order {order}: {why}'
    ctx.ob('R14.3', site, f'run_parallel with delete_existing on {total2} configurations (bounded), nodes starting one after '
                          f'the other: no node deletes the result file of a task of the same run', bad2 == 0,
           f'{bad2} of {total2} configurations fail; first: {first2}', key='run_parallel|delete-existing',
           facts={'configurations': total2, 'failing': bad2})


def _r142_order(ctx: Ctx) -> None:
    """Every node runs run_parallel in its own interpreter: the i-th input must be the same file on all of them.
    The directory listing is trusted to be the same; a set (or anything else iterated in hash order) of path strings
    is not - PYTHONHASHSEED differs per process."""
    from .c02 import hash_ordered_uses
    m = ctx.model
    mi, fn = m.func('panqec.cli', 'run_parallel')
    uses = [(n, src, kind) for n, src, kind in hash_ordered_uses(fn)
            if isinstance(src, (ast.Set, ast.SetComp)) or (isinstance(src, ast.Call) and isinstance(src.func, ast.Name)
                                                          and src.func.id in ('set', 'frozenset'))]
    bad = uses[0] if uses else None
    ctx.ob('R14.2', site_of(mi, bad[0]) if bad else site_of(mi, fn), 'run_parallel: the order of the input files does not '
                                                                    'depend on the hash seed of the process', bad is None,
           f'{norm_stmt(bad[0], 100)} iterates {norm_stmt(bad[1], 80)}: a set of path strings is ordered by hashes that differ '
           f'from node to node, so task i works on different files on different nodes' if bad else '',
           key='run_parallel|input-order')


def run(ctx: Ctx) -> None:
    ctx.rule('R14.1', 'a remainder added to a per-share quotient is the remainder of the same division, for one share', floor=4)
    ctx.rule('R14.2', 'task index injective in (job, core); result/progress file names depend on it', floor=4)
    ctx.rule('R14.3', 'bounded partial evaluation of the whole split over small configurations', floor=2)
    ctx.rule('R14.4', 'a task that starts from nothing ends with exactly its share of trials saved in its result file '
                      '(a share of one trial included)', floor=1)
    ctx.trust('glob order is the same on every node of one run (shared file system listing)')
    with ctx.part():
        _r143(ctx)
    with ctx.part():
        _r141(ctx)
    with ctx.part():
        _r142(ctx)
    with ctx.part():
        _r142_order(ctx)
    with ctx.part():
        # what each launched task does with its share: run_file -> BatchSimulation._run(n_runs) from nothing
        from .c12 import _r124
        _r124(ctx, 'R14.4', fresh=True)
