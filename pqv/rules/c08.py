"""C08 - Clifford deformation is one consistent single-qubit relabelling."""
from __future__ import annotations

import ast

import numpy as np

from ..domains import Poly, Sym
from ..interp import (NOT_HANDLED, TOP, BoundMethod, Closure, Env, Ext, Hooks, Interp, Obj, guard, site_of,
                      truth)
from ..model import AnalysisError, ClassInfo, decorator_names, norm_stmt, walk_no_nested
from ..report import Ctx
from ..symnp import MiniCSR, call_numpy, scipy_ctor
from .c03 import SymHooks, _aslist
from .simfacts import Atom

EXPLANATION = (
    'R08.1/R08.2/R08.7: every get_deformation (13 classes) is interpreted with an unknown location for each '
    'advertised name, for a bogus name and for invalid axes; every table returned on any path must be a '
    'bijection of {X,Y,Z} from the advertised family (XZZX-like names: identity or X<->Z; XY: Y<->Z everywhere), '
    'the Hadamard table must be returned exactly when qubit_axis(location) == deformation_axis, advertised names '
    '= accepted names, invalid axes are rejected. R08.3-R08.5: StabilizerCode.deform is interpreted on an '
    'abstract three-qubit code through call histories (deform; deform twice with different names and kwargs; '
    'read every lazily cached property, then deform): stabilizers and both logical families must be the image '
    'of the UNDEFORMED operators under the table of the LAST deformation with its kwargs, and every cached '
    'property (discovered structurally) must have the value a freshly deformed object has. R08.6: '
    'PauliErrorModel.probability_distribution is interpreted symbolically with a per-qubit deformation: '
    'p_new[P] = p_old[D(P)] with D the code\'s own table for (name, kwargs), reads from a snapshot, I '
    'untouched. R08.8: bpauli.apply_deformation swaps the x and z entry exactly at the flagged indices.'
)

IDENT = {'X': 'X', 'Y': 'Y', 'Z': 'Z'}
HADAMARD = {'X': 'Z', 'Y': 'Y', 'Z': 'X'}
XY = {'X': 'X', 'Y': 'Z', 'Z': 'Y'}
FAMILY = {'XY': [XY]}            # every other advertised name: identity or Hadamard


def _code_classes(ctx: Ctx):
    base = ctx.model.cls('StabilizerCode')
    return base, sorted(ctx.model.subclasses(base), key=lambda c: c.name)


# ----------------------------------------------------------- R08.1/2/7

class _AxisEq:
    """Result of comparing qubit_axis(location) with the deformation axis."""

    def __init__(self, it, store):
        self.it, self.store = it, store

    def pqv_truth(self):
        if 'axis_eq' not in self.store:
            self.store['axis_eq'] = self.it.choose(2) == 0
        return self.store['axis_eq']


class _QAxis:
    def __init__(self, it, store):
        self.it, self.store = it, store

    def pqv_compare(self, op, other, swapped):
        if isinstance(op, (ast.Eq, ast.NotEq)) and isinstance(other, str):
            self.store['axis_cmp'] = other
            r = _AxisEq(self.it, self.store)
            if isinstance(op, ast.NotEq):
                return not truth(r)
            return r
        return TOP


class _HDef(Hooks):
    def __init__(self, store):
        self.store = store

    def call(self, it, func, args, kwargs, node, env):
        if isinstance(func, BoundMethod) and func.closure.fn.name == 'qubit_axis':
            return _QAxis(it, self.store)
        if isinstance(func, BoundMethod) and func.closure.fn.name in ('is_qubit', 'is_stabilizer'):
            return True
        return NOT_HANDLED


def _accepted_names(fn) -> set:
    """String constants the function compares its name parameter with."""
    params = [a.arg for a in fn.args.args]
    if len(params) < 3:
        return set()
    pname = params[2]
    out = set()
    for n in ast.walk(fn):
        if isinstance(n, ast.Compare):
            sides = [n.left] + list(n.comparators)
            if any(isinstance(s, ast.Name) and s.id == pname for s in sides):
                for s in sides:
                    if isinstance(s, ast.Constant) and isinstance(s.value, str):
                        out.add(s.value)
                    if isinstance(s, (ast.List, ast.Tuple, ast.Set)):
                        for e in s.elts:
                            if isinstance(e, ast.Constant) and isinstance(e.value, str):
                                out.add(e.value)
    return out


def _interp_get_deformation(ctx: Ctx, ci: ClassInfo, fn, name, axis=NOT_HANDLED):
    m = ctx.model
    store = {}
    it = Interp(m, _HDef(store))
    dim_node = ci.find_attr('dimension')
    dim = ast.literal_eval(dim_node[1]) if dim_node else 3
    loc_len = dim
    # locations of qubits: 2 or 3 unknown coordinates
    def thunk():
        store.clear()
        loc = tuple(TOP for _ in range(loc_len))
        kw = {} if axis is NOT_HANDLED else {'deformation_axis': axis}
        v = it.call_closure(Closure(fn, ci.module, ci), [loc, name], kw, fn, self_obj=Obj(ci, 'code'))
        return v, dict(store)
    return guard('R08.1', ci.module, fn)(lambda: it.explore(thunk))


def _r081(ctx: Ctx) -> None:
    base, classes = _code_classes(ctx)
    ctx.need(len(classes) >= 16, 'R08.7', 'panqec/codes', f'only {len(classes)} code classes found')
    n_with = 0
    for ci in classes:
        names_node = ci.find_attr('deformation_names')
        names = ast.literal_eval(names_node[1]) if names_node else []
        own = ci.find_method('get_deformation')
        has_own = own is not None and own[0] is not base
        site = site_of(ci.module, own[1] if has_own else ci.node)
        if not has_own:
            ctx.ob('R08.7', site, f'{ci.name}: no deformation table, none advertised', names == [],
                   f'deformation_names = {names} but the class has no get_deformation of its own '
                   f'(the base implementation returns an exception object)', key=f'{ci.name}|advertised-none',
                   facts=names)
            continue
        n_with += 1
        dci, fn = own
        params = [a.arg for a in fn.args.args]
        has_axis = 'deformation_axis' in params
        accepted = _accepted_names(fn)
        ctx.ob('R08.7', site, f'{ci.name}: advertised deformation names = accepted names', set(names) == accepted,
               f'deformation_names = {sorted(names)}, get_deformation accepts {sorted(accepted)}',
               key=f'{ci.name}|advertised=accepted', facts={'advertised': names, 'accepted': sorted(accepted)})
        # a bogus name is rejected on every path
        outs = _interp_get_deformation(ctx, dci, fn, '__no_such_deformation__')
        ctx.ob('R08.7', site, f'{ci.name}: unknown deformation name rejected', all(o.kind == 'raise' for o in outs),
               f'an unknown name returns {[o.value[0] for o in outs if o.kind == "return"]!r}',
               key=f'{ci.name}|bogus-rejected')
        for name in names:
            outs = _interp_get_deformation(ctx, dci, fn, name)
            rets = [o for o in outs if o.kind == 'return']
            tables = []
            bad = None
            for o in rets:
                t, st = o.value
                tables.append((t, st))
                if not (isinstance(t, dict) and set(t) == {'X', 'Y', 'Z'} and sorted(t.values()) == ['X', 'Y', 'Z']):
                    bad = f'table {t!r} is not a bijection of X,Y,Z'
                    break
                fam = FAMILY.get(name, [IDENT, HADAMARD])
                if t not in fam:
                    bad = f'table {t!r} is outside the family of "{name}" ({fam})'
                    break
            if not rets:
                bad = 'advertised name is rejected on every path'
            if bad is None and name not in FAMILY and not any(t == HADAMARD for t, _ in tables):
                bad = 'no path returns the Hadamard table (deformation is the identity)'
            if bad is None and name not in FAMILY and not any(t == IDENT for t, _ in tables):
                bad = 'every path returns the Hadamard table (no qubit left undeformed)'
            ctx.ob('R08.1', site, f'{ci.name}.get_deformation("{name}"): tables are permutations of the family',
                   bad is None, bad or '', key=f'{ci.name}|{name}|tables',
                   facts=[repr(t) for t, _ in tables])
            if has_axis and name not in FAMILY:
                # Hadamard exactly when qubit_axis(location) == deformation_axis (default and explicit axis)
                dim_node = ci.find_attr('dimension')
                dim = ast.literal_eval(dim_node[1]) if dim_node else 3
                axes = ['x', 'y', 'z'][:dim]
                for ax in [NOT_HANDLED] + axes:
                    outs2 = _interp_get_deformation(ctx, dci, fn, name, ax)
                    okp, why = True, ''
                    seen = 0
                    for o in outs2:
                        if o.kind != 'return':
                            okp, why = False, f'valid axis {ax!r} raises {o.exc}'
                            break
                        t, st = o.value
                        if 'axis_eq' not in st:
                            okp, why = False, 'table chosen without comparing qubit_axis(location) with the axis'
                            break
                        seen += 1
                        if ax is not NOT_HANDLED and st.get('axis_cmp') != ax:
                            okp, why = False, f'qubit axis compared with {st.get("axis_cmp")!r}, not the ' \
                                              f'requested axis {ax!r}'
                            break
                        if (t == HADAMARD) != st['axis_eq']:
                            okp, why = False, f'axis equal={st["axis_eq"]} returns {t!r}'
                            break
                    ctx.ob('R08.2', site, f'{ci.name}."{name}": Hadamard iff qubit axis == '
                                          f'{"default axis" if ax is NOT_HANDLED else ax}', okp and seen == 2, why,
                           key=f'{ci.name}|{name}|axis[{ax if ax is not NOT_HANDLED else "default"}]')
                for badax in ['w'] + (['z'] if dim == 2 else []):
                    outs3 = _interp_get_deformation(ctx, dci, fn, name, badax)
                    ctx.ob('R08.2', site, f'{ci.name}."{name}": invalid axis {badax!r} rejected',
                           all(o.kind == 'raise' for o in outs3),
                           f'axis {badax!r} accepted for a {dim}-dimensional code',
                           key=f'{ci.name}|{name}|badaxis[{badax}]')
    ctx.need(n_with >= 13, 'R08.1', 'panqec/codes', f'only {n_with} classes define get_deformation')


# ------------------------------------------------------------- R08.3-5

QS = ['q0', 'q1', 'q2']
STABS = {'s0': {'q0': 'X', 'q1': 'X'}, 's1': {'q1': 'Z', 'q2': 'Z'}}
LOGX = [{'q0': 'X', 'q1': 'Y'}, {'q2': 'X'}]
LOGZ = [{'q2': 'Z', 'q1': 'Y'}, {'q0': 'Z', 'q1': 'Z', 'q2': 'Z'}]
TABLES = {'A': HADAMARD, 'B': XY}


class _HDeform(SymHooks):
    def __init__(self):
        self.calls = []

    def call(self, it, func, args, kwargs, node, env):
        if isinstance(func, BoundMethod):
            nm = func.closure.fn.name
            cls = func.closure.cls
            is_base = cls is not None and cls.name == 'StabilizerCode' and func.closure.env is None
            if is_base and nm == 'get_qubit_coordinates':
                return list(QS)
            if is_base and nm == 'get_stabilizer_coordinates':
                return list(STABS)
            if is_base and nm == 'get_stabilizer':
                return dict(STABS[args[0]])
            if is_base and nm == 'get_logicals_x':
                return [dict(d) for d in LOGX]
            if is_base and nm == 'get_logicals_z':
                return [dict(d) for d in LOGZ]
            if is_base and nm == 'stabilizer_type':
                return 'face' if args[0] == 's0' else 'vertex'
            if is_base and nm == 'get_deformation':
                self.calls.append((args[0], args[1], dict(kwargs)))
                # the abstract family 'A' is the Hadamard along every axis but 'y', where it is the Y<->Z exchange:
                # two requests that differ only in a keyword VALUE have different images
                if args[1] == 'A' and kwargs.get('deformation_axis') == 'y':
                    return dict(XY)
                return dict(TABLES[args[1]])
        if isinstance(func, Ext) and func.name in ('types.MethodType',):
            f, o = args
            if isinstance(f, BoundMethod):
                return _MT(f, o)
            if isinstance(f, Closure):
                return BoundMethod(o, f)
            return TOP
        if isinstance(func, Ext) and func.name in ('copy.copy',):
            x = args[0]
            if isinstance(x, _MT):
                # copy() of a method re-resolves getattr(obj, name) at this moment
                return it.getattr(x.obj, x.bm.closure.fn.name, node)
            return x
        return super().call(it, func, args, kwargs, node, env)

    def attr(self, it, obj, name, node):
        if isinstance(obj, Obj) and name == 'dimension' and 'dimension' not in obj.fields:
            return 2
        return NOT_HANDLED


class _MT:
    def __init__(self, bm, obj):
        self.bm, self.obj = bm, obj


def _image(op: dict, table: dict) -> dict:
    return {q: table[p] for q, p in op.items()}


def _cached_properties(ci: ClassInfo):
    """Properties of StabilizerCode whose body assigns self._a under a test of self._a."""
    out = {}
    for name, fn in ci.methods.items():
        if 'property' not in decorator_names(fn):
            continue
        for n in walk_no_nested(fn):
            if isinstance(n, ast.If):
                tested = {a.attr for a in ast.walk(n.test) if isinstance(a, ast.Attribute)
                          and isinstance(a.value, ast.Name) and a.value.id == 'self' and a.attr.startswith('_')}
                assigned = set()
                for s in n.body:
                    for t in ast.walk(s):
                        if isinstance(t, ast.Attribute) and isinstance(t.ctx, ast.Store) \
                                and isinstance(t.value, ast.Name) and t.value.id == 'self':
                            assigned.add(t.attr)
                both = tested & assigned
                if both:
                    out[name] = sorted(both)[0]
        if name not in out:
            # the cache may be kept through a helper that is handed the NAME of the private attribute:
            # return self._cached(..., '_qubit_index', ...) with _qubit_index initialised in __init__
            init = ci.methods.get('__init__')
            init_attrs = {t.attr for t in ast.walk(init) if isinstance(t, ast.Attribute) and isinstance(t.ctx, ast.Store)
                          and isinstance(t.value, ast.Name) and t.value.id == 'self'} if init is not None else set()
            for n in ast.walk(fn):
                if isinstance(n, ast.Call):
                    for a in list(n.args) + [k.value for k in n.keywords]:
                        if isinstance(a, ast.Constant) and isinstance(a.value, str) and a.value.startswith('_') \
                                and a.value in init_attrs:
                            out.setdefault(name, a.value)
    return out


def _norm(v):
    if isinstance(v, MiniCSR):
        return ('csr', v.toarray().tolist())
    if isinstance(v, np.ndarray):
        return ('arr', v.tolist())
    if isinstance(v, (list, tuple)):
        return [_norm(x) for x in v]
    if isinstance(v, dict):
        return {k: _norm(x) for k, x in v.items()}
    if isinstance(v, np.generic):
        return v.item()
    return v


def _r083(ctx: Ctx) -> None:
    m = ctx.model
    ci = m.cls('StabilizerCode')
    mi = ci.module
    _, dfn = m.own_method('StabilizerCode', 'deform')
    site = site_of(mi, dfn)
    cached = _cached_properties(ci)
    ctx.need(len(cached) >= 12, 'R08.5', site, f'only {len(cached)} lazily cached properties recognised: {cached}')
    ctx.extra['cached_properties'] = cached

    def new_code(it):
        o = Obj(ci, 'code')
        r = ci.find_method('__init__')
        it.call_closure(Closure(r[1], mi, ci), [2, 2], {}, r[1], self_obj=o)
        return o

    def deform(it, o, name, **kw):
        it.call_closure(Closure(dfn, mi, ci), [name], kw, dfn, self_obj=o)

    def get(it, o, attr, *args):
        v = it.getattr(o, attr, dfn)
        if args or isinstance(v, BoundMethod):
            return it.call(v, list(args), {}, dfn, Env(mi, ci))
        return v

    def scenario(label, script):
        hooks = _HDeform()
        it = Interp(m, hooks)
        outs = guard('R08.3', mi, dfn)(lambda: it.explore(lambda: script(it, hooks)))
        ctx.need(len(outs) == 1, 'R08.3', site, f'scenario {label}: expected one path, got {outs!r}')
        o = outs[0]
        if o.kind != 'return':
            return ('raises', o.exc), hooks
        return o.value, hooks

    # (1) single deformation with kwargs: image of every operator, kwargs forwarded for every location
    def s1(it, hooks):
        o = new_code(it)
        deform(it, o, 'A', deformation_axis='x')
        return {'stab': {s: get(it, o, 'get_stabilizer', s) for s in STABS},
                'lx': get(it, o, 'get_logicals_x'), 'lz': get(it, o, 'get_logicals_z'),
                'flags': (o.fields.get('is_deformed'), o.fields.get('deformation_name'),
                          o.fields.get('deformation_kwargs'))}
    v, hooks = scenario('single', s1)
    want = {'stab': {s: _image(op, HADAMARD) for s, op in STABS.items()},
            'lx': [_image(op, HADAMARD) for op in LOGX], 'lz': [_image(op, HADAMARD) for op in LOGZ],
            'flags': (True, 'A', {'deformation_axis': 'x'})}
    ctx.ob('R08.3', site, 'deform(name, **kwargs): stabilizers and both logical families are the image under the table',
           v == want, f'got {v!r}, expected {want!r}', key='StabilizerCode.deform|image', facts=repr(v))
    fw = all(c[1] == 'A' and c[2] == {'deformation_axis': 'x'} for c in hooks.calls) and len(hooks.calls) >= 8
    locs = sorted({c[0] for c in hooks.calls})
    ctx.ob('R08.3', site, 'deform: same name and kwargs forwarded to get_deformation for every location', fw,
           f'get_deformation calls: {hooks.calls[:6]!r}...', key='StabilizerCode.deform|forwarding',
           facts={'locations': locs, 'n_calls': len(hooks.calls)})

    # (2) second deformation starts from the undeformed code
    def s2(it, hooks):
        o = new_code(it)
        deform(it, o, 'A', deformation_axis='x')
        get(it, o, 'get_stabilizer', 's0')
        deform(it, o, 'B')
        return {'stab': {s: get(it, o, 'get_stabilizer', s) for s in STABS},
                'lx': get(it, o, 'get_logicals_x'), 'lz': get(it, o, 'get_logicals_z'),
                'flags': (o.fields.get('is_deformed'), o.fields.get('deformation_name'),
                          o.fields.get('deformation_kwargs'))}
    v, hooks = scenario('twice', s2)
    want = {'stab': {s: _image(op, XY) for s, op in STABS.items()},
            'lx': [_image(op, XY) for op in LOGX], 'lz': [_image(op, XY) for op in LOGZ],
            'flags': (True, 'B', {})}
    ctx.ob('R08.4', site, 'deform twice: the second deformation is applied to the undeformed operators', v == want,
           f'got {v!r}, expected the image of the UNDEFORMED operators under the second table: {want!r}',
           key='StabilizerCode.deform|from-undeformed', facts=repr(v))

    # (2b) the same name again with another keyword value / without the keyword: the LAST request decides
    for label, second, table in (('other keyword value', {'deformation_axis': 'y'}, XY), ('keyword dropped', {}, HADAMARD),
                                 ('same request', {'deformation_axis': 'x'}, HADAMARD)):
        def s3(it, hooks, second=second):
            o = new_code(it)
            deform(it, o, 'A', deformation_axis='x')
            get(it, o, 'get_stabilizer', 's0')
            get(it, o, 'stabilizer_matrix')
            deform(it, o, 'A', **second)
            return {'stab': {s: get(it, o, 'get_stabilizer', s) for s in STABS},
                    'lx': get(it, o, 'get_logicals_x'), 'lz': get(it, o, 'get_logicals_z'),
                    'flags': (o.fields.get('is_deformed'), o.fields.get('deformation_name'),
                              o.fields.get('deformation_kwargs'))}
        v, hooks = scenario(f'again, {label}', s3)
        want = {'stab': {s: _image(op, table) for s, op in STABS.items()},
                'lx': [_image(op, table) for op in LOGX], 'lz': [_image(op, table) for op in LOGZ],
                'flags': (True, 'A', dict(second))}
        ctx.ob('R08.4', site, f'deform again with the same name ({label}): the result is that of the last request on the '
                              f'undeformed code', v == want,
               f'got {v!r}, expected the image of the UNDEFORMED operators under the table of the last request: {want!r}',
               key=f'StabilizerCode.deform|again[{label}]', facts=repr(v))

    # (3) every cached property after (read; deform) equals the value on a freshly deformed object
    for prop, attr in sorted(cached.items()):
        def warm(it, hooks, prop=prop):
            o = new_code(it)
            for p in sorted(cached):
                try:
                    get(it, o, p)
                except Exception:
                    raise
            deform(it, o, 'A')
            return _norm(get(it, o, prop))

        def cold(it, hooks, prop=prop):
            o = new_code(it)
            deform(it, o, 'A')
            return _norm(get(it, o, prop))
        v1, _ = scenario(f'warm {prop}', warm)
        v2, _ = scenario(f'cold {prop}', cold)
        ctx.need('TOP' not in repr(v2), 'R08.5', site, f'cached property {prop} could not be evaluated abstractly')
        if prop == 'stabilizer_types' and isinstance(v1, list) and isinstance(v2, list):
            v1, v2 = sorted(v1), sorted(v2)
        ctx.ob('R08.5', site, f'deform resets cached property {prop} ({attr})', v1 == v2,
               f'after reading all cached properties and then deforming, {prop} = {v1!r}; a freshly deformed '
               f'object has {v2!r}', key=f'StabilizerCode.deform|cache[{prop}]', facts=repr(v2))

    # (4) no subclass adds its own lazily cached attribute outside __init__
    base, classes = _code_classes(ctx)
    init_attrs = set()
    r = ci.find_method('__init__')
    for n in ast.walk(r[1]):
        if isinstance(n, ast.Attribute) and isinstance(n.ctx, ast.Store) and isinstance(n.value, ast.Name) \
                and n.value.id == 'self':
            init_attrs.add(n.attr)
    for c in classes:
        stored = {}
        for name, fn in c.methods.items():
            if name == '__init__':
                continue
            for n in ast.walk(fn):
                if isinstance(n, ast.Attribute) and isinstance(n.ctx, ast.Store) and isinstance(n.value, ast.Name) \
                        and n.value.id == 'self':
                    stored.setdefault(n.attr, (name, n))
        own_init = set()
        if '__init__' in c.methods:
            calls_super = any(isinstance(n, ast.Call) and isinstance(n.func, ast.Attribute)
                              and n.func.attr == '__init__' for n in ast.walk(c.methods['__init__']))
            for n in ast.walk(c.methods['__init__']):
                if isinstance(n, ast.Attribute) and isinstance(n.ctx, ast.Store) and isinstance(n.value, ast.Name) \
                        and n.value.id == 'self':
                    own_init.add(n.attr)
        bad = {a: v for a, v in stored.items() if a not in init_attrs and a not in own_init}
        ctx.ob('R08.5', site_of(c.module, c.node), f'{c.name}: no cached attribute escapes the reset in __init__',
               not bad, f'attributes stored outside __init__ and not reset by deform: '
                        f'{ {a: v[0] for a, v in bad.items()} }', key=f'{c.name}|no-private-cache')


# ------------------------------------------------------------------- R08.6

class _HNoise(SymHooks):
    def __init__(self, tables):
        self.tables = tables
        self.calls = []

    def call(self, it, func, args, kwargs, node, env):
        if isinstance(func, BoundMethod) and func.closure.fn.name == 'get_deformation':
            self.calls.append((args[0], args[1], dict(kwargs)))
            return dict(self.tables[args[0]])
        if isinstance(func, Ext) and func.name == 'numpy.isclose':
            return TOP
        return super().call(it, func, args, kwargs, node, env)


def _r086(ctx: Ctx) -> None:
    m = ctx.model
    ci = m.cls('PauliErrorModel')
    mi = ci.module
    r = ci.find_method('probability_distribution')
    ctx.need(r is not None, 'R08.6', site_of(mi, ci.node), 'probability_distribution not found')
    fn = r[1]
    site = site_of(mi, fn)
    p = Poly.var('p')
    tables = {'q0': HADAMARD, 'q1': XY, 'q2': IDENT}
    code = Obj(m.cls('StabilizerCode'), 'code')
    code.fields['n'] = 3
    code.fields['qubit_coordinates'] = ['q0', 'q1', 'q2']
    a, b = Poly.var('r_a'), Poly.var('r_b')
    # the generic direction and the three families with two equal rates (a comparison of two rates in the code is then
    # decided the way it is decided for every member of the family)
    families = (('generic direction', (Poly.var('r_x'), Poly.var('r_y'), Poly.var('r_z'))),
                ('r_x = r_z', (a, b, a)), ('r_x = r_y', (a, a, b)), ('r_y = r_z', (a, b, b)))
    for fam, (rx, ry, rz) in families:
        _r086_family(ctx, m, ci, mi, fn, site, code, tables, p, fam, rx, ry, rz)


def _r086_family(ctx, m, ci, mi, fn, site, code, tables, p, fam, rx, ry, rz) -> None:
    sfx = '' if fam == 'generic direction' else f'[{fam}]'

    def run(name, kwargs):
        hooks = _HNoise(tables)
        it = Interp(m, hooks)

        def thunk():
            em = it.instantiate(ci, [rx, ry, rz, name, kwargs], {}, fn)
            return it.call_closure(Closure(fn, mi, ci), [code, p], {}, fn, self_obj=em)
        outs = guard('R08.6', mi, fn)(lambda: it.explore(thunk))
        rets = [o for o in outs if o.kind == 'return']
        ctx.need(len(rets) == 1, 'R08.6', site, f'{fam}: expected one returning path, got {outs!r}')
        return rets[0].value, hooks

    base = {'I': Poly.const(1) - p, 'X': rx * p, 'Y': ry * p, 'Z': rz * p}
    v, hooks = run('A', {'deformation_axis': 'x'})
    if 'TOP' in repr(v):
        raise AnalysisError('R08.6', site, f'{fam}: deformed distribution not tracked by the analysis ({v!r})')
    ok = isinstance(v, tuple) and len(v) == 4 and all(isinstance(a, np.ndarray) and a.shape == (3,) for a in v)
    detail = ''
    got = None
    if ok:
        got = {P: [a for a in arr] for P, arr in zip('IXYZ', v)}
        for qi, q in enumerate(['q0', 'q1', 'q2']):
            for P in 'XYZ':
                want = base[tables[q][P]]
                if not (got[P][qi] == want):
                    ok = False
                    detail = (f'{fam}: qubit {q} with table {tables[q]}: p_{P} = {got[P][qi]!r}, expected '
                              f'p_old[{tables[q][P]}] = {want!r}')
            if not (got['I'][qi] == base['I']):
                ok, detail = False, f'{fam}: p_I of {q} is {got["I"][qi]!r}, expected 1 - p'
    else:
        detail = f'{fam}: returned {v!r}'
    ctx.ob('R08.6', site, f'deformed noise ({fam}): p_new[P] = p_old[D(P)] per qubit with the code\'s own table', ok, detail,
           key='PauliErrorModel.probability_distribution|deformed' + sfx,
           facts={k: [repr(x) for x in xs] for k, xs in (got or {}).items()})
    fw = (len(hooks.calls) == 3 and [c[0] for c in hooks.calls] == ['q0', 'q1', 'q2']
          and all(c[1] == 'A' and c[2] == {'deformation_axis': 'x'} for c in hooks.calls))
    if fam == 'generic direction':
        ctx.ob('R08.6', site, 'deformed noise: table asked for each qubit coordinate with the model\'s name and kwargs', fw,
               f'get_deformation calls: {hooks.calls!r}', key='PauliErrorModel.probability_distribution|table-args',
               facts=[repr(c) for c in hooks.calls])
    v, hooks = run(None, None)
    if 'TOP' in repr(v):
        raise AnalysisError('R08.6', site, f'{fam}: undeformed distribution not tracked by the analysis ({v!r})')
    ok = isinstance(v, tuple) and len(v) == 4 and all(isinstance(a, np.ndarray) for a in v) and not hooks.calls
    if ok:
        for P, arr in zip('IXYZ', v):
            if not all(x == base[P] for x in arr):
                ok = False
    ctx.ob('R08.6', site, f'undeformed noise ({fam}): (p_I,p_X,p_Y,p_Z) = (1-p, r_x p, r_y p, r_z p), no table consulted', ok,
           f'returned {v!r}', key='PauliErrorModel.probability_distribution|undeformed' + sfx,
           facts=[repr(list(a)) for a in v] if isinstance(v, tuple) else repr(v))


DIRECTION_FAMILIES = (('generic direction', (0.5, 0.3, 0.2)), ('r_x = r_z', (0.3, 0.4, 0.3)),
                      ('r_x = r_y', (0.3, 0.3, 0.4)), ('r_y = r_z', (0.2, 0.4, 0.4)))


def weights_vs_distribution(ctx: Ctx, rule: str) -> None:
    """get_weights AS RESOLVED on the concrete noise class (an override included) against the per-qubit distribution
    of the same object: w_x[i] = -log((p_X+p_Y+eps)/(1-p_X-p_Y+eps)) with the DEFORMED probabilities of qubit i, same
    for Z.  Bounded partial evaluation on a three-qubit abstract code (one Hadamard-deformed qubit, one XY-deformed,
    one untouched), a generic direction and three ways of stating the deformation."""
    import math
    m = ctx.model
    ci = m.cls('PauliErrorModel')
    mi = ci.module
    rd = ci.find_method('probability_distribution')
    rw = ci.find_method('get_weights')
    ctx.need(rd is not None and rw is not None, rule, site_of(mi, ci.node), 'probability_distribution / get_weights not found')
    tables = {'q0': HADAMARD, 'q1': XY, 'q2': IDENT}
    code = Obj(m.cls('StabilizerCode'), 'code')
    code.fields['n'] = 3
    code.fields['qubit_coordinates'] = ['q0', 'q1', 'q2']
    p, eps = 0.3, 1e-20
    site = site_of(rw[0].module, rw[1])
    class _HConcrete(_HNoise):
        def call(self, it, func, args, kwargs, node, env):
            if isinstance(func, Ext) and func.name == 'numpy.isclose':
                return bool(np.isclose(*args, **kwargs))          # concrete numbers here: the constructor guard is decided
            return super().call(it, func, args, kwargs, node, env)
    # ... and directions on the faces and vertices of the simplex: a flip marginal that is exactly 0 (pure Z noise has no
    # X flips) has the large finite weight -log(eps / (1 + eps)), not nan or inf
    for fam, (rx, ry, rz) in DIRECTION_FAMILIES + (('r_y = 0', (0.6, 0.0, 0.4)), ('pure Z', (0.0, 0.0, 1.0)),
                                                  ('pure X', (1.0, 0.0, 0.0))):
        for label, name, kwargs in (('undeformed', None, None), ('deformation named, no keyword arguments', 'A', None),
                                    ('deformation named with an axis', 'A', {'deformation_axis': 'x'})):
            hooks = _HConcrete(tables)
            it = Interp(m, hooks)

            def thunk():
                em = it.instantiate(ci, [rx, ry, rz, name, kwargs], {}, rd[1])
                dist = it.call_closure(Closure(rd[1], rd[0].module, rd[0]), [code, p], {}, rd[1], self_obj=em)
                w = it.call_closure(Closure(rw[1], rw[0].module, rw[0]), [code, p], {}, rw[1], self_obj=em)
                return dist, w
            outs = guard(rule, rw[0].module, rw[1])(lambda: it.explore(thunk))
            rets = [o for o in outs if o.kind == 'return']
            ctx.need(len(rets) == 1 and len(outs) == 1, rule, site, f'get_weights ({fam}, {label}): paths {outs!r}')
            dist, w = rets[0].value
            bad = None
            try:
                pi_, px_, py_, pz_ = [np.asarray(a, dtype=float) for a in dist]
                wx, wz = [np.asarray(a, dtype=float) for a in w]
                for i in range(3):
                    for sec, got, flip in (('X', wx[i], px_[i] + py_[i]), ('Z', wz[i], pz_[i] + py_[i])):
                        want = -math.log((flip + eps) / (1 - flip + eps))
                        if flip == 0 and (got == math.inf or (got == got and got > -math.log(1e-9))):
                            # the exact log-likelihood weight of an impossible flip is +inf; how it is regularised is
                            # the implementation's choice: anything heavier than a flip of probability 1e-9, never nan
                            continue
                        if not abs(got - want) <= 1e-9 * max(1.0, abs(want)):
                            bad = (f'qubit q{i} (table {tables["q%d" % i]}): weight for {sec} flips is {got:.6f}, the deformed '
                                   f'channel of that qubit has P({sec} flip) = {flip:.3f}, i.e. weight {want:.6f}')
                            break
                    if bad:
                        break
            except (TypeError, ValueError):
                raise AnalysisError(rule, site, f'get_weights ({label}): values not tracked ({dist!r}, {w!r})')
            ctx.ob(rule, site, f'{rw[0].name}.get_weights = -log-odds of the per-qubit flip marginals of the same model ({fam}, {label})',
                   bad is None, bad or '', key=f'get_weights|values[{label}]' + ('' if fam == 'generic direction' else f'[{fam}]'))


def prob_vs_distribution(ctx: Ctx, rule: str) -> None:
    """error_probability AS RESOLVED on the concrete noise class (an override included) against the per-qubit
    distribution of the same object: P(e) = prod_i p_{e_i}[i] and log P(e) = sum_i log p_{e_i}[i], for all 64 Paulis of a
    three-qubit abstract code (one Hadamard-deformed qubit, one XY-deformed, one untouched), directions with and without
    two equal rates, deformed and undeformed."""
    import itertools
    import math
    m = ctx.model
    ci = m.cls('PauliErrorModel')
    mi = ci.module
    rd = ci.find_method('probability_distribution')
    rp = ci.find_method('error_probability')
    ctx.need(rd is not None and rp is not None, rule, site_of(mi, ci.node), 'probability_distribution / error_probability not found')
    tables = {'q0': HADAMARD, 'q1': XY, 'q2': IDENT}
    code = Obj(m.cls('StabilizerCode'), 'code')
    code.fields['n'] = 3
    code.fields['qubit_coordinates'] = ['q0', 'q1', 'q2']
    p = 0.3
    site = site_of(rp[0].module, rp[1])
    bits = {'I': (0, 0), 'X': (1, 0), 'Y': (1, 1), 'Z': (0, 1)}

    class _HConcrete(_HNoise):
        def call(self, it, func, args, kwargs, node, env):
            if isinstance(func, Ext) and func.name == 'numpy.isclose':
                return bool(np.isclose(*args, **kwargs))
            return super().call(it, func, args, kwargs, node, env)
    n_eval = 0
    for fam, (rx, ry, rz) in DIRECTION_FAMILIES:
        for label, name, kwargs in (('undeformed', None, None), ('deformed', 'A', {'deformation_axis': 'x'})):
            bad = None
            for word in itertools.product('IXYZ', repeat=3):
                err = np.array([bits[c][0] for c in word] + [bits[c][1] for c in word], dtype=np.uint8)
                for log_output in (False, True):
                    hooks = _HConcrete(tables)
                    it = Interp(m, hooks)

                    def thunk():
                        em = it.instantiate(ci, [rx, ry, rz, name, kwargs], {}, rd[1])
                        dist = it.call_closure(Closure(rd[1], rd[0].module, rd[0]), [code, p], {}, rd[1], self_obj=em)
                        v = it.call_closure(Closure(rp[1], rp[0].module, rp[0]), [err, code, p, log_output], {}, rp[1],
                                            self_obj=em)
                        return dist, v
                    outs = guard(rule, rp[0].module, rp[1])(lambda: it.explore(thunk))
                    rets = [o for o in outs if o.kind == 'return']
                    ctx.need(len(rets) == 1 and len(outs) == 1, rule, site,
                             f'error_probability ({fam}, {label}, {"".join(word)}): paths {outs!r}')
                    dist, v = rets[0].value
                    n_eval += 1
                    try:
                        d = dict(zip('IXYZ', [np.asarray(a, dtype=float) for a in dist]))
                        got = float(v)
                    except (TypeError, ValueError):
                        raise AnalysisError(rule, site, f'error_probability ({fam}, {label}): values not tracked ({dist!r}, {v!r})')
                    want = math.prod(float(d[c][i]) for i, c in enumerate(word))
                    if log_output:
                        want = math.log(want)
                    if bad is None and abs(got - want) > 1e-9 * max(1.0, abs(want)):
                        bad = (f'{"log " if log_output else ""}P({"".join(word)}) = {got:.9g}; the per-qubit channel of the same model '
                               f'(tables {[tables[q] for q in ("q0", "q1", "q2")] if name else "none"}) gives {want:.9g}')
            ctx.ob(rule, site, f'{rp[0].name}.error_probability = product (sum of logs) of the per-qubit channel of the same '
                               f'model ({fam}, {label})', bad is None, bad or '',
                   key=f'error_probability|resolved[{fam}|{label}]', facts={'evaluations': 128})


# ------------------------------------------------------------------- R08.8

def _r088(ctx: Ctx) -> None:
    m = ctx.model
    mi, fn = m.func('panqec.bpauli', 'apply_deformation')
    site = site_of(mi, fn)
    n = 3
    flags = [True, False, True]
    for label, shape in (('1-D', (2 * n,)), ('2-D', (2, 2 * n))):
        a = np.empty(shape, dtype=object)
        for idx in np.ndindex(*shape):
            a[idx] = Sym('e' + '_'.join(map(str, idx)))
        it = Interp(m, SymHooks())
        outs = guard('R08.8', mi, fn)(lambda: it.explore(lambda: it.call_closure(Closure(fn, mi), [flags, a], {}, fn)))
        ok = len(outs) == 1 and outs[0].kind == 'return' and isinstance(outs[0].value, np.ndarray)
        detail = f'{outs!r}'
        if ok:
            v = outs[0].value
            want = np.array(a)
            for i, f in enumerate(flags):
                if f:
                    want[..., i], want[..., i + n] = a[..., i + n].copy(), a[..., i].copy()
            ok = v.shape == a.shape and all(v[idx] == want[idx] for idx in np.ndindex(*shape))
            detail = f'got {v.tolist()!r}, expected {want.tolist()!r}'
        ctx.ob('R08.8', site, f'apply_deformation swaps x and z exactly at the flagged indices ({label})', ok, detail,
               key=f'apply_deformation|{label}')


def run(ctx: Ctx) -> None:
    ctx.rule('R08.1', 'every table any get_deformation can return is a permutation of X,Y,Z of the advertised family', floor=14)
    ctx.rule('R08.2', 'Hadamard exactly on qubits along the chosen axis; invalid axes rejected', floor=30)
    ctx.rule('R08.3', 'deform rewrites stabilizers and both logical families identically with one name/kwargs', floor=2)
    ctx.rule('R08.4', 'a deformation is always applied to the undeformed operators; the last request decides', floor=4)
    ctx.rule('R08.5', 'deform resets every lazily cached attribute; no subclass hides a cache from it', floor=28)
    ctx.rule('R08.6', 'noise-side deformation: p_new[P] = p_old[D(P)] with the code\'s table, snapshot reads; cache keyed by full state', floor=5)
    ctx.rule('R08.7', 'advertised deformation names = accepted names', floor=29)
    ctx.rule('R08.8', 'bpauli.apply_deformation is the Hadamard on the index set', floor=2)
    ctx.trust('copy(MethodType(bound_method, obj)) re-resolves getattr(obj, name) at copy time (CPython method '
              '__reduce__), modelled explicitly', 'functools.lru_cache returns the computed value')
    with ctx.part():
        _r081(ctx)
    with ctx.part():
        _r083(ctx)
    with ctx.part():
        _r086(ctx)
    from .c06 import cache_key_rule, frozen_rule
    with ctx.part():
        cache_key_rule(ctx, 'R08.6')
    with ctx.part():
        frozen_rule(ctx, 'R08.3', 'panqec.codes')
    with ctx.part():
        _r088(ctx)
