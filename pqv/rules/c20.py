"""C20 - visualizer backend serves every offered choice with faithful data."""
from __future__ import annotations

import ast

from ..domains import Sym
from ..interp import (NOT_HANDLED, TOP, BoundMethod, ClassRef, Closure, Env, Ext, Hooks, Interp, Obj, SliceV,
                      guard, site_of, truth)
from ..model import AnalysisError, ClassInfo, norm_stmt
from ..nphooks import Tagged
from ..report import Ctx

EXPLANATION = (
    'Partial (main.js is not analysed). R20.1: for each of the 16 classes of the GUI code table the set of strings '
    'stabilizer_type can return is computed by abstract interpretation over unknown coordinates (all branch '
    'combinations, locations of length 2, 3 and 4) and must be a subset of the keys of '
    'gui-config.json[Class]["stabilizers"][picture] for both pictures; the qubit entry must exist. R20.2: every '
    'stabilizer / qubit entry has object, color, opacity, params; colour tables have the keys the base '
    'representation code reads (activated/deactivated, I/X/Y/Z) and every colour name is in the colormap; keys read '
    'unconditionally by overriding representation methods exist. R20.3: GUI codes are exported, registered classes '
    'present in the config; code_names partitions them by `dimension`; send_decoder_names is interpreted for every '
    'GUI code: the offer equals the decoders whose allowed_codes is None or contains the class name; '
    'send_deformation_names returns the class\'s deformation_names. R20.4: send_code_data / send_correction / '
    'send_random_errors are interpreted with Flask, the library classes and json replaced by recorders: H, logical_x, '
    'logical_z come from stabilizer_matrix / logicals_x / logicals_z of the same (deformed) instance, qubits and '
    'stabilizers are listed in library index order with the requested picture, the noise model and decoder are '
    'built from the request, decoder keyword arguments are accepted by the constructor, halves of decode() are '
    'returned as x / z.'
)

PICTURES = ('kitaev', 'rotated')


def _gui_tables(ctx: Ctx):
    m = ctx.model
    gmi = m.module('panqec.gui._gui')
    it = Interp(m)
    out = {}
    for name in ('codes', 'decoders', 'noise_directions'):
        ctx.need(name in gmi.assigns, 'R20.3', gmi.relpath, f'GUI table {name} not found')
        v = it.ev(gmi.assigns[name], Env(gmi))
        ctx.need(isinstance(v, dict), 'R20.3', gmi.relpath, f'GUI table {name} is not a dict literal')
        out[name] = v
    return gmi, out


# ------------------------------------------------------------------- R20.1 / R20.2

class _HType(Hooks):
    def call(self, it, func, args, kwargs, node, env):
        if isinstance(func, BoundMethod) and func.closure.fn.name in ('is_stabilizer', 'is_qubit'):
            return True
        return NOT_HANDLED


def stabilizer_type_strings(ctx: Ctx, ci: ClassInfo) -> set:
    r = ci.find_method('stabilizer_type')
    ctx.need(r is not None, 'R20.1', site_of(ci.module, ci.node), f'{ci.name}.stabilizer_type not found')
    out = set()
    for ln in (2, 3, 4):
        it = Interp(ctx.model, _HType())
        loc = tuple(TOP for _ in range(ln))
        outs = guard('R20.1', r[0].module, r[1])(lambda: it.explore(
            lambda: it.call_closure(Closure(r[1], r[0].module, r[0]), [loc], {}, r[1], self_obj=Obj(ci, 'code'))))
        for o in outs:
            if o.kind == 'return':
                if not isinstance(o.value, str):
                    raise AnalysisError('R20.1', site_of(r[0].module, r[1]),
                                        f'{ci.name}.stabilizer_type returns a non-constant {o.value!r}')
                out.add(o.value)
    return out


def _colormap(ctx: Ctx) -> set:
    ci = ctx.model.cls('StabilizerCode')
    init = ci.methods['__init__']
    for n in ast.walk(init):
        if isinstance(n, ast.Assign) and isinstance(n.targets[0], ast.Attribute) and n.targets[0].attr == 'colormap' \
                and isinstance(n.value, ast.Dict):
            return {k.value for k in n.value.keys if isinstance(k, ast.Constant)}
    raise AnalysisError('R20.2', site_of(ci.module, init), 'colormap literal not found')


def _r201_202(ctx: Ctx, codes: dict) -> None:
    m = ctx.model
    cfg = m.gui_config()
    cmap = _colormap(ctx)
    cfg_site = 'panqec/codes/gui-config.json:1'
    for gui_name, cref in sorted(codes.items()):
        ctx.need(isinstance(cref, ClassRef), 'R20.1', 'panqec/gui/_gui.py', f'GUI code {gui_name!r} is not a class')
        ci = cref.ci
        types = stabilizer_type_strings(ctx, ci)
        ctx.need(types, 'R20.1', site_of(ci.module, ci.node), f'{ci.name}.stabilizer_type returns nothing')
        entry = cfg.get(ci.name)
        ctx.ob('R20.1', cfg_site, f'gui-config.json has an entry for {ci.name}', isinstance(entry, dict),
               f'no entry "{ci.name}": every code-data request for "{gui_name}" raises KeyError', key=f'{ci.name}|entry')
        if not isinstance(entry, dict):
            continue
        for pic in PICTURES:
            table = (entry.get('stabilizers') or {}).get(pic)
            missing = sorted(types - set(table or {}))
            ctx.ob('R20.1', cfg_site, f'{ci.name}: every stabilizer type has a "{pic}" drawing entry', not missing,
                   f'stabilizer_type can return {sorted(types)}; gui-config.json[{ci.name}].stabilizers.{pic} has '
                   f'{sorted(table or {})}; missing {missing}: the code-data request raises KeyError',
                   key=f'{ci.name}|{pic}|types', facts={'types': sorted(types), 'config': sorted(table or {})})
            q = (entry.get('qubits') or {}).get(pic)
            okq = isinstance(q, dict) and all(k in q for k in ('object', 'color', 'opacity', 'params')) \
                and isinstance(q.get('params'), dict) and isinstance(q.get('color'), dict) \
                and all(p in q['color'] for p in 'IXYZ') and all(c in cmap for c in q['color'].values())
            ctx.ob('R20.2', cfg_site, f'{ci.name}: complete qubit drawing entry for "{pic}"', okq,
                   f'qubits.{pic} = {q!r}: needs object, opacity, params (dict) and color with I,X,Y,Z naming colours of '
                   f'the colormap {sorted(cmap)}', key=f'{ci.name}|{pic}|qubit-entry')
            for t in sorted(set(table or {}) & types):
                e = table[t]
                oke = isinstance(e, dict) and all(k in e for k in ('object', 'color', 'opacity', 'params')) \
                    and isinstance(e.get('params'), dict) and isinstance(e.get('color'), dict) \
                    and all(a in e['color'] for a in ('activated', 'deactivated')) \
                    and all(c in cmap for c in e['color'].values())
                ctx.ob('R20.2', cfg_site, f'{ci.name}: complete drawing entry for type "{t}" in "{pic}"', oke,
                       f'stabilizers.{pic}.{t} = {str(e)[:160]}: needs object, opacity, params (dict), color with '
                       f'activated/deactivated naming colours of the colormap', key=f'{ci.name}|{pic}|{t}|entry')
        # keys read unconditionally (top level of the method) by overriding representation methods
        for meth, section in (('stabilizer_representation', 'stabilizers'), ('qubit_representation', 'qubits')):
            if meth not in ci.methods:
                continue
            fn = ci.methods[meth]
            for stmt in fn.body:
                if isinstance(stmt, (ast.If, ast.For, ast.While, ast.Try)):
                    continue
                for n in ast.walk(stmt):
                    if isinstance(n, ast.Subscript) and isinstance(n.ctx, ast.Load) and isinstance(n.slice, ast.Constant) \
                            and isinstance(n.value, ast.Subscript) and isinstance(n.value.slice, ast.Constant) \
                            and n.value.slice.value == 'params' and isinstance(n.value.value, ast.Name):
                        key = n.slice.value
                        for pic in PICTURES:
                            tab = (entry.get(section) or {}).get(pic) or {}
                            entries = tab.values() if section == 'stabilizers' else [tab]
                            okk = all(isinstance(e, dict) and key in (e.get('params') or {}) for e in entries)
                            if section == 'stabilizers' and not tab:
                                continue
                            ctx.ob('R20.2', site_of(ci.module, n), f'{ci.name}.{meth} reads params["{key}"] of every '
                                                                   f'"{pic}" entry', okk,
                                   f'params["{key}"] is read unconditionally but missing in some {pic} entry',
                                   key=f'{ci.name}|{meth}|{pic}|params[{key}]')


# ------------------------------------------------------------------- R20.3

class _Req:
    def __init__(self, data):
        self.data = data

    def pqv_getattr(self, name):
        if name == 'json':
            return self.data
        return TOP


class _HGui(Hooks):
    def __init__(self, req):
        self.req = req

    def global_name(self, it, name, env):
        if name == 'request':
            return _Req(self.req)
        return NOT_HANDLED

    def call(self, it, func, args, kwargs, node, env):
        if isinstance(func, Ext) and func.name.endswith('json.dumps'):
            return args[0]
        return NOT_HANDLED


def _r203(ctx: Ctx, gmi, tables) -> None:
    m = ctx.model
    codes, decoders = tables['codes'], tables['decoders']
    cfg = m.gui_config()
    cfgmod = m.module('panqec.config')
    reg = {k.value for k in cfgmod.assigns['CODES'].keys} if isinstance(cfgmod.assigns.get('CODES'), ast.Dict) else set()
    exported = set(m.module('panqec.codes').imports)
    gci = m.cls('GUI')
    for gui_name, cref in sorted(codes.items()):
        ok = isinstance(cref, ClassRef) and cref.ci.name in exported and cref.ci.name in reg and cref.ci.name in cfg
        ctx.ob('R20.3', gmi.relpath + ':24', f'GUI code "{gui_name}" is an exported, registered class with a config entry',
               ok, f'{cref!r}', key=f'GUI.codes|{gui_name}')
    # the table offers every exported code class exactly once
    offered = [c.ci.name for c in codes.values() if isinstance(c, ClassRef)]
    dup = sorted({n for n in offered if offered.count(n) > 1})
    base = m.cls('StabilizerCode')
    missing = sorted(c.name for c in m.subclasses(base) if c.name not in offered)
    ctx.ob('R20.3', gmi.relpath + ':24', 'GUI code table lists every library code class exactly once', not dup and not missing,
           f'classes offered twice: {dup}; library classes not offered: {missing} - a menu entry serves another code\'s data',
           key='GUI.codes|bijective', facts={'offered': sorted(offered)})
    # code_names partitions by dimension
    fn = gci.methods['code_names']
    it = Interp(m, Hooks())

    def thunk():
        o = Obj(gci, 'gui')
        o.fields['codes'] = dict(codes)
        return it.call_closure(Closure(fn, gmi, gci), [], {}, fn, self_obj=o)
    outs = guard('R20.3', gmi, fn)(lambda: it.explore(thunk))
    v = outs[0].value if len(outs) == 1 and outs[0].kind == 'return' else None
    want = {'2d': [], '3d': []}
    for gui_name, cref in codes.items():
        d = cref.ci.find_attr('dimension')
        dim = ast.literal_eval(d[1]) if d else None
        if dim in (2, 3):
            want[f'{dim}d'].append(gui_name)
    ctx.ob('R20.3', site_of(gmi, fn), 'GUI.code_names partitions the code table by dimension', v == want,
           f'got {v!r}, expected {want!r}', key='GUI.code_names|partition', facts=v)
    # decoder offer per code
    fn = gci.methods['send_decoder_names']
    for gui_name, cref in sorted(codes.items()):
        it = Interp(m, _HGui({'code_name': gui_name}))
        outs = guard('R20.3', gmi, fn)(lambda: it.explore(
            lambda: it.call_closure(Closure(fn, gmi, gci), [], {}, fn, self_obj=Obj(gci, 'gui'))))
        v = outs[0].value if len(outs) == 1 and outs[0].kind == 'return' else f'{outs!r}'
        want_d = []
        for dname, dref in decoders.items():
            a = dref.ci.find_attr('allowed_codes')
            allowed = ast.literal_eval(a[1]) if a else None
            if allowed is None or cref.ci.name in allowed:
                want_d.append(dname)
        ctx.ob('R20.3', site_of(gmi, fn), f'decoders offered for "{gui_name}" = decoders declaring support for {cref.ci.name}',
               v == want_d, f'offered {v!r}, declaring support: {want_d!r}', key=f'send_decoder_names|{gui_name}', facts=v)
    fn = gci.methods['send_deformation_names']
    for gui_name, cref in sorted(codes.items()):
        it = Interp(m, _HGui({'code_name': gui_name}))
        outs = guard('R20.3', gmi, fn)(lambda: it.explore(
            lambda: it.call_closure(Closure(fn, gmi, gci), [], {}, fn, self_obj=Obj(gci, 'gui'))))
        v = outs[0].value if len(outs) == 1 and outs[0].kind == 'return' else f'{outs!r}'
        a = cref.ci.find_attr('deformation_names')
        want_n = ast.literal_eval(a[1]) if a else []
        ctx.ob('R20.3', site_of(gmi, fn), f'deformations offered for "{gui_name}" = {cref.ci.name}.deformation_names',
               v == want_n, f'offered {v!r}, class advertises {want_n!r}', key=f'send_deformation_names|{gui_name}')
    for dname, dref in sorted(decoders.items()):
        regd = {k.value for k in cfgmod.assigns['DECODERS'].keys} if isinstance(cfgmod.assigns.get('DECODERS'), ast.Dict) else set()
        ctx.ob('R20.3', gmi.relpath + ':46', f'GUI decoder "{dname}" is a registered decoder class',
               isinstance(dref, ClassRef) and dref.ci.name in regd, f'{dref!r}', key=f'GUI.decoders|{dname}')


# ------------------------------------------------------------------- R20.4

class _Lst:
    """value with .tolist() / .toarray()"""

    def __init__(self, tag):
        self.tag = tag

    def pqv_getattr(self, name):
        if name == 'tolist':
            return _Call(lambda *a, **k: Tagged('list', self.tag))
        if name == 'toarray':
            return _Call(lambda *a, **k: _Lst(self.tag))
        return TOP

    def pqv_getitem(self, idx):
        return _Lst(('slice', self.tag, repr(idx)))

    def __repr__(self):
        return f'_Lst({self.tag})'


class _Call:
    def __init__(self, f):
        self.f = f

    def pqv_call(self, *a, **k):
        return self.f(*a, **k)


class _HData(Hooks):
    def __init__(self, req, codes, decoders):
        self.req = req
        self.codes, self.decoders = codes, decoders
        self.events = []

    def global_name(self, it, name, env):
        if name == 'request':
            return _Req(self.req)
        return NOT_HANDLED

    def attr(self, it, obj, name, node):
        if isinstance(obj, Obj) and obj.label.startswith('codeobj'):
            if name == 'qubit_coordinates':
                return ['q0', 'q1']
            if name == 'stabilizer_coordinates':
                return ['s0', 's1', 's2']
            if name in ('logicals_x', 'logicals_z', 'stabilizer_matrix'):
                self.events.append(('read', name, obj.fields.get('deformed')))
                return _Lst((name, obj.fields.get('deformed')))
            if name == 'n':
                return Sym('n')
            if name in ('qubit_representation', 'stabilizer_representation', 'deform'):
                return _Call(lambda *a, _n=name, _o=obj: self._code_call(_o, _n, a))
        if isinstance(obj, Obj) and obj.label == 'decoderobj' and name == 'decode':
            return _Call(lambda *a, **k: self._decode(obj, a))
        if isinstance(obj, Obj) and obj.label == 'noiseobj' and name == 'generate':
            return _Call(lambda *a, **k: self._generate(obj, a, k))
        return NOT_HANDLED

    def _code_call(self, obj, name, a):
        if name == 'deform':
            obj.fields['deformed'] = a[0] if a else None
            self.events.append(('deform', a[0] if a else None))
            return None
        return _representation(name, *a)

    def _decode(self, obj, a):
        self.events.append(('decode', a[0] if a else None))
        return _Lst('correction')

    def _generate(self, obj, a, k):
        self.events.append(('generate', a, k))
        return _Lst('errors')

    def call(self, it, func, args, kwargs, node, env):
        if isinstance(func, Ext) and func.name.endswith('json.dumps'):
            return args[0]
        if isinstance(func, Ext) and func.name == 'numpy.array':
            return Tagged('array', args[0])
        if isinstance(func, ClassRef):
            base_names = [c.name for c in func.ci.mro]
            if 'StabilizerCode' in base_names:
                o = Obj(func.ci, f'codeobj:{func.ci.name}')
                o.fields['_ctor'] = (func.ci.name, list(args), dict(kwargs))
                o.fields['deformed'] = None
                self.events.append(('code', func.ci.name, list(args)))
                return o
            if 'BaseErrorModel' in base_names:
                o = Obj(func.ci, 'noiseobj')
                o.fields['_ctor'] = (func.ci.name, list(args), dict(kwargs))
                self.events.append(('noise', func.ci.name, list(args), dict(kwargs)))
                return o
            if 'BaseDecoder' in base_names:
                o = Obj(func.ci, 'decoderobj')
                self.events.append(('decoder', func.ci.name, list(args), dict(kwargs)))
                return o
        return NOT_HANDLED

    def subscript(self, it, obj, idx, node, env):
        if isinstance(obj, _Lst):
            return obj.pqv_getitem(idx)
        return NOT_HANDLED


def _representation(name, loc=None, rotated=False, *rest):
    """What code.qubit_representation / stabilizer_representation hand back: a dictionary whose every entry belongs to
    THIS location and picture (the library computes object, colour, length, location per location)."""
    return {'object': Tagged(name + '.object', loc, rotated), 'location': Tagged(name + '.location', loc, rotated),
            'params': {'axis': Tagged(name + '.axis', loc), 'length': Tagged(name + '.length', loc, rotated)},
            'color': Tagged(name + '.color', loc, rotated)}


def _r204(ctx: Ctx, gmi, tables) -> None:
    m = ctx.model
    codes, decoders, noise = tables['codes'], tables['decoders'], tables['noise_directions']
    gci = m.cls('GUI')

    gui_init = gci.find_method("__init__")

    def new_gui(it):
        # the real constructor is interpreted (Flask(...) and route registration are opaque), so that state the
        # server keeps between requests is visible to the analysis
        o = Obj(gci, 'gui')
        if gui_init:
            it.call_closure(Closure(gui_init[1], gmi, gci), [], {}, gui_init[1], self_obj=o)
        o.fields.setdefault('codes', dict(codes))
        o.fields.setdefault('decoders', dict(decoders))
        return o

    def run_handler(name, req, before=()):
        fn = gci.methods[name]
        hooks = _HData(req, codes, decoders)
        it = Interp(m, hooks)

        def thunk():
            hooks.events.clear()
            o = new_gui(it)
            for bname, breq in before:            # earlier requests served by the same GUI object
                hooks.req = breq
                it.call_closure(Closure(gci.methods[bname], gmi, gci), [], {}, gci.methods[bname], self_obj=o)
            hooks.events.clear()
            hooks.req = req
            v = it.call_closure(Closure(fn, gmi, gci), [], {}, fn, self_obj=o)
            return v, list(hooks.events)
        outs = guard('R20.4', gmi, fn)(lambda: it.explore(thunk))
        return fn, outs

    # send_code_data for a 2-D and a 3-D code, with and without deformation, both pictures
    # ... and at the two ends of what the client can ask for: the "Lattice size" menu of main.js (read as data) with
    # and without "Coprime dimensions" (Lx = L + 1)
    import os
    import re
    js = os.path.join(str(ctx.model.root), 'panqec', 'gui', 'js', 'main.js')
    ctx.need(os.path.exists(js), 'R20.4', 'panqec/gui/js/main.js', 'main.js not found')
    mm = re.search(r'\.add\(\s*params\s*,\s*"L"\s*,\s*\{([^}]*)\}', open(js).read())
    ctx.need(mm is not None, 'R20.4', 'panqec/gui/js/main.js', 'the "L" menu of the lattice size was not found')
    menu = sorted({int(x) for x in re.findall(r':\s*(\d+)', mm.group(1))})
    ctx.need(len(menu) >= 2, 'R20.4', 'panqec/gui/js/main.js', f'lattice size menu {menu}')
    ctx.extra['lattice_size_menu'] = menu
    sizes = [(3, 4, 5), (menu[-1] + 1, menu[-1], menu[-1]), (menu[0], menu[0], menu[0])]
    for gui_name, dims, deformation, rot, (Lx_, Ly_, Lz_) in (
            [(g, d, de, r, sizes[0]) for g, d in (('Toric 2D', 2), ('Rotated Planar 3D', 3)) for de in ('None', 'XZZX')
             for r in (False, True)]
            + [(g, d, 'None', False, sz) for g, d in (('Toric 2D', 2), ('Rotated Planar 3D', 3)) for sz in sizes[1:]]):
        if True:
            if True:
                req = {'Lx': Lx_, 'Ly': Ly_, 'Lz': Lz_, 'code_name': gui_name, 'code_deformation_name': deformation,
                       'rotated_picture': rot}
                fn, outs = run_handler('send_code_data', req)
                site = site_of(gmi, fn)
                ctx.need(len(outs) >= 1, 'R20.4', site, f'send_code_data: {outs!r}')
                bad = None
                for o in outs:                # every path the handler can take (e.g. per value of qubit_axis)
                    if bad is not None:
                        break
                    if o.kind != 'return':
                        bad = f'raises {o.exc}'
                    else:
                        v, ev = o.value
                        dname = None if deformation == 'None' else deformation
                        cls = codes[gui_name].ci.name
                        want_args = [Lx_, Ly_] if dims == 2 else [Lx_, Ly_, Lz_]
                        ce = [e for e in ev if e[0] == 'code']
                        if len(ce) != 1 or ce[0][1] != cls or ce[0][2] != want_args:
                            bad = f'code instantiated as {ce!r}, expected {cls}{tuple(want_args)}'
                        de = [e for e in ev if e[0] == 'deform']
                        if (dname is None and de) or (dname is not None and [e[1] for e in de] != [dname]):
                            bad = f'deform calls {de!r} for requested deformation {deformation!r}'
                        reads = [e for e in ev if e[0] == 'read']
                        if any(e[2] != dname for e in reads):
                            bad = 'matrix/logicals read before the deformation was applied'
                        if not isinstance(v, dict):
                            bad = f'response {v!r}'
                        else:
                            exp = {'H': Tagged('list', ('stabilizer_matrix', dname)),
                                   'logical_x': Tagged('list', ('logicals_x', dname)),
                                   'logical_z': Tagged('list', ('logicals_z', dname)),
                                   'qubits': [_representation('qubit_representation', q, rot) for q in ('q0', 'q1')],
                                   'stabilizers': [_representation('stabilizer_representation', s_, rot) for s_ in ('s0', 's1', 's2')]}
                            def lib_only(d):
                                # the entries only the library can compute for a location (shape, colour, length)
                                if not isinstance(d, dict):
                                    return d
                                return (d.get('object'), d.get('color'), (d.get('params') or {}).get('length')
                                        if isinstance(d.get('params'), dict) else d.get('params'))
                            for k, w in exp.items():
                                g_ = v.get(k)
                                if k in ('qubits', 'stabilizers') and isinstance(g_, list) and len(g_) == len(w):
                                    for i_, (a_, b_) in enumerate(zip(g_, w)):
                                        if lib_only(a_) != lib_only(b_):
                                            bad = (f"response['{k}'][{i_}] carries {lib_only(a_)!r}: shape / colour / length of "
                                                   f"another location or picture, expected {lib_only(b_)!r}")
                                            break
                                elif g_ != w:
                                    bad = f"response['{k}'] = {g_!r}, expected {w!r}"
                ctx.ob('R20.4', site, f'send_code_data("{gui_name}", deformation={deformation}, rotated={rot}): H/logicals of '
                                      f'the same instance, index order, requested picture', bad is None, bad or '',
                       key=f'send_code_data|{gui_name}|{deformation}|{rot}' + ('' if (Lx_, Ly_, Lz_) == sizes[0] else f'|{Lx_}x{Ly_}x{Lz_}'))

    # request histories: the answer to a request must not depend on what the same server answered before
    base_req = {'Lx': 3, 'Ly': 4, 'Lz': 5, 'code_name': 'Toric 2D', 'rotated_picture': False}
    hist = [('deformed then undeformed', dict(base_req, code_deformation_name='XZZX'), dict(base_req, code_deformation_name='None'), None),
            ('undeformed then deformed', dict(base_req, code_deformation_name='None'), dict(base_req, code_deformation_name='XZZX'), 'XZZX'),
            ('XZZX then XY', dict(base_req, code_deformation_name='XZZX'), dict(base_req, code_deformation_name='XY'), 'XY')]
    for label, first, second, dname in hist:
        fn, outs = run_handler('send_code_data', second, before=[('send_code_data', first)])
        site = site_of(gmi, fn)
        bad = None
        if len(outs) != 1 or outs[0].kind != 'return':
            bad = f'{outs!r}'
        else:
            v, ev = outs[0].value
            want_h = Tagged('list', ('stabilizer_matrix', dname))
            if not isinstance(v, dict) or v.get('H') != want_h or v.get('logical_x') != Tagged('list', ('logicals_x', dname)):
                bad = (f"second response has H = {v.get('H') if isinstance(v, dict) else v!r}; expected the matrix of a code "
                       f"with deformation {dname!r} only (a code instance kept between requests carries the earlier deformation)")
            de = [e[1] for e in ev if e[0] == 'deform']
            if bad is None and de != ([dname] if dname else []):
                bad = f'deform calls during the second request: {de!r}'
        ctx.ob('R20.4', site, f'send_code_data after an earlier request ({label}): data of the requested instance only', bad is None,
               bad or '', key=f'send_code_data|history[{label}]')

    # send_correction for every decoder
    for dname, dref in sorted(decoders.items()):
        for noise_def in ('None', 'XZZX'):
            req = {'Lx': 3, 'Ly': 3, 'Lz': 3, 'code_name': 'Toric 3D', 'code_deformation_name': 'None',
                   'syndrome': [0, 1, 0], 'p': 0.07, 'noise_deformation_name': noise_def, 'max_bp_iter': 11,
                   'alpha': 0.3, 'beta': 0.2, 'decoder': dname, 'error_model': 'Pure Z'}
            fn, outs = run_handler('send_correction', req)
            site = site_of(gmi, fn)
            ctx.need(len(outs) == 1, 'R20.4', site, f'send_correction: {outs!r}')
            o = outs[0]
            bad = None
            if o.kind != 'return':
                bad = f'raises {o.exc}'
            else:
                v, ev = o.value
                ne = [e for e in ev if e[0] == 'noise']
                want_dir = list(noise['Pure Z'])
                wdef = None if noise_def == 'None' else noise_def
                if len(ne) != 1 or ne[0][2][:3] != want_dir or \
                        (ne[0][2][3:] + [ne[0][3].get('deformation_name')])[0] != wdef:
                    bad = f'noise model built as {ne!r}, expected direction {want_dir} and deformation {wdef!r}'
                dec = [e for e in ev if e[0] == 'decoder']
                if len(dec) != 1 or dec[0][1] != dref.ci.name:
                    bad = f'decoder built as {dec!r}, expected {dref.ci.name}'
                else:
                    _, _, a, kw = dec[0]
                    init = dref.ci.find_method('__init__')
                    params = [p.arg for p in init[1].args.args][1:] + [p.arg for p in init[1].args.kwonlyargs]
                    extra = set(kw) - set(params)
                    if extra:
                        bad = f'{dref.ci.name}.__init__ does not accept keyword(s) {sorted(extra)}'
                    if len(a) < 3 or a[2] != 0.07 or not (isinstance(a[0], Obj) and a[0].label.startswith('codeobj')) \
                            or not (isinstance(a[1], Obj) and a[1].label == 'noiseobj'):
                        bad = f'decoder positional arguments {a!r}, expected (code, error_model, p)'
                    for k_, src in (('max_bp_iter', 11), ('alpha', 0.3), ('beta', 0.2)):
                        if k_ in kw and kw[k_] != src:
                            bad = f'decoder keyword {k_}={kw[k_]!r}, request says {src!r}'
                de = [e for e in ev if e[0] == 'decode']
                if len(de) != 1 or de[0][1] != Tagged('array', [0, 1, 0]):
                    bad = bad or f'decode called with {de!r}'
                if not isinstance(v, dict) or set(v) != {'x', 'z'}:
                    bad = bad or f'response {v!r}'
                else:
                    n = Sym('n')
                    wx = Tagged('list', ('slice', 'correction', repr(SliceV(None, n))))
                    wz = Tagged('list', ('slice', 'correction', repr(SliceV(n, None))))
                    if v['x'] != wx or v['z'] != wz:
                        bad = bad or f"response x={v['x']!r}, z={v['z']!r}; expected the first / second half of decode()"
            ctx.ob('R20.4', site, f'send_correction(decoder="{dname}", noise deformation={noise_def})', bad is None, bad or '',
                   key=f'send_correction|{dname}|{noise_def}')
    # every offered noise direction x noise deformation: the model is built from exactly the requested pair, for the
    # decode request and for the new-errors request (a shortcut that is right for X<->Z swaps is wrong for 'XY')
    defs_offered = sorted({'None', 'XZZX', 'XY', 'XXZZ', 'X3Z3'})
    for em_name, direction in sorted(noise.items()):
        for noise_def in defs_offered:
            for handler in ('send_correction', 'send_random_errors'):
                req = {'Lx': 3, 'Ly': 3, 'Lz': 3, 'code_name': 'Toric 2D', 'code_deformation_name': 'None',
                       'syndrome': [0, 1, 0], 'p': 0.07, 'noise_deformation_name': noise_def, 'max_bp_iter': 11,
                       'alpha': 0.3, 'beta': 0.2, 'decoder': sorted(decoders)[0], 'error_model': em_name}
                fn, outs = run_handler(handler, req)
                rets = [o for o in outs if o.kind == 'return']
                bad = None
                if not rets:
                    bad = f'{outs!r}'
                for o in rets:
                    ne = [e for e in o.value[1] if e[0] == 'noise']
                    wdef = None if noise_def == 'None' else noise_def
                    got_def = (ne[0][2][3:] + [ne[0][3].get('deformation_name')])[0] if len(ne) == 1 else '?'
                    # dropping a deformation is harmless exactly when the direction is invariant under the swap it
                    # performs: 'XY' exchanges Y and Z, every other advertised name exchanges X and Z on a subset of
                    # the qubits (the tables are decided by C08 R08.1)
                    rx_, ry_, rz_ = direction
                    invariant = (ry_ == rz_) if noise_def == 'XY' else (rx_ == rz_)
                    if len(ne) == 1 and ne[0][2][:3] == list(direction) and got_def is None and invariant:
                        continue
                    if len(ne) != 1 or ne[0][2][:3] != list(direction) or got_def != wdef:
                        bad = (f'noise model built as {ne!r}; the request names direction {list(direction)} and noise '
                               f'deformation {wdef!r}')
                ctx.ob('R20.4', site_of(gmi, fn), f'{handler}: noise model = PauliErrorModel(direction of "{em_name}", '
                                                  f'deformation {noise_def})', bad is None, bad or '',
                       key=f'{handler}|noise[{em_name}|{noise_def}]')
    # decode histories: the decoder built for a request is the one a fresh server would build, whatever decoder the
    # previous request used (options of one decoder must not leak into the next constructor call)
    def dreq(name):
        return {'Lx': 3, 'Ly': 3, 'Lz': 3, 'code_name': 'Toric 3D', 'code_deformation_name': 'None',
                'syndrome': [0, 1, 0], 'p': 0.07, 'noise_deformation_name': 'None', 'max_bp_iter': 11,
                'alpha': 0.3, 'beta': 0.2, 'decoder': name, 'error_model': 'Pure Z'}

    def built(outs):
        if len(outs) != 1 or outs[0].kind != 'return':
            return ('fails', repr(outs))
        v, ev = outs[0].value
        return [(e[1], len(e[2]), sorted((k, repr(x)) for k, x in e[3].items())) for e in ev if e[0] == 'decoder']
    for second in sorted(decoders):
        fn, outs0 = run_handler('send_correction', dreq(second))
        want = built(outs0)
        bad = None
        for first in sorted(decoders):
            if first == second:
                continue
            _, outs1 = run_handler('send_correction', dreq(second), before=[('send_correction', dreq(first))])
            got = built(outs1)
            if got != want:
                bad = (f'after a "{first}" request the decoder is built as {got!r}; a fresh server builds {want!r}')
                break
        ctx.ob('R20.4', site_of(gmi, fn), f'send_correction(decoder="{second}") after a request for any other decoder: same '
                                          f'constructor call as on a fresh server', bad is None, bad or '',
               key=f'send_correction|history[{second}]')
    # send_random_errors
    req = {'Lx': 3, 'Ly': 3, 'Lz': 3, 'code_name': 'Toric 3D', 'code_deformation_name': 'None', 'p': 0.07,
           'noise_deformation_name': 'None', 'error_model': 'Depolarizing'}
    fn, outs = run_handler('send_random_errors', req)
    bad = None
    rets = [o for o in outs if o.kind == 'return']
    if not rets:
        bad = f'{outs!r}'
    else:
        v, ev = rets[0].value
        ge = [e for e in ev if e[0] == 'generate']
        if v != Tagged('list', 'errors') or len(ge) != 1 or len(ge[0][1]) < 2 or ge[0][1][1] != 0.07:
            bad = f'response {v!r}, generate calls {ge!r}'
    ctx.ob('R20.4', site_of(gmi, fn), 'send_random_errors returns generate(code, p) of the requested noise model', bad is None,
           bad or '', key='send_random_errors|response')


def run(ctx: Ctx) -> None:
    ctx.rule('R20.1', 'every stabilizer type string has a drawing entry for both pictures', floor=48)
    ctx.rule('R20.2', 'drawing entries are complete; colour names are in the colormap', floor=100)
    ctx.rule('R20.3', 'menus: code table, dimension partition, decoders offered = decoders declaring support', floor=50)
    ctx.rule('R20.4', 'responses carry the library data of the requested (deformed) instance in index order, independent of earlier requests', floor=23)
    ctx.trust('gui-config.json is read as data; Flask routing and main.js are not analysed')
    gmi, tables = _gui_tables(ctx)
    with ctx.part():
        _r201_202(ctx, tables['codes'])
    with ctx.part():
        _r203(ctx, gmi, tables)
    with ctx.part():
        _r204(ctx, gmi, tables)
