"""C06 - decoding is a pure function of the syndrome."""
from __future__ import annotations

import ast

from ..effects import Effects
from ..interp import site_of
from ..model import AnalysisError, norm_stmt, parent_map, walk_no_nested
from ..report import Ctx
from . import sector
from .c05 import facts_to_obs

EXPLANATION = (
    'Whole-package effect/alias analysis (roots: parameter, persistent state reachable from self, frozen value '
    'returned by an lru_cache function, fresh allocation; views keep their base, copies/arithmetic/fancy indexing '
    'are fresh; summaries "stores through parameter i", "returns alias of", "writes own state" computed to a '
    'fix-point; callees resolved by class hierarchy and inferred attribute types). R06.1: no decode() of any '
    'decoder class, nor any callee it hands the syndrome to, stores through the syndrome argument. R06.2: no '
    'function in the package stores through a value obtained from the cached probability_distribution (or through '
    'an alias / a callee). R06.3: every write to state that outlives the call performed by decode-reachable code '
    'is a guarded lazy initialisation (write to self._a control-dependent on a test of self._a, or a one-time '
    'initialiser called under `if not self.flag` that sets the flag) - anything else is a violation. R06.4: '
    'BP-OSD typestate per call: update_channel_probs precedes every decode of the same ldpc object, and the result '
    'is the value returned by that decode() (never a result-buffer attribute, which ldpc refreshes only when OSD runs). R06.5: get_initial_state returns a copy (no alias of its argument).'
)

_CACHE = {}


def effects(model) -> Effects:
    k = id(model)
    if k not in _CACHE:
        _CACHE.clear()
        _CACHE[k] = Effects(model)
    return _CACHE[k]


def _attrs_read(ci, fn, depth=0, seen=None) -> set:
    """self attributes read by fn, following properties/methods of the class (transitively)."""
    seen = seen if seen is not None else set()
    out = set()
    for n in ast.walk(fn):
        if isinstance(n, ast.Attribute) and isinstance(n.value, ast.Name) and n.value.id == 'self':
            out.add(n.attr)
            r = ci.find_method(n.attr)
            if r and n.attr not in seen and depth < 6:
                seen.add(n.attr)
                out |= _attrs_read(ci, r[1], depth + 1, seen)
    return out


def cache_key_rule(ctx: Ctx, rule: str) -> None:
    """Objects that key an lru_cache (the receiver and the arguments of a cached method) must hash by identity or
    by ALL the state that determines the cached value."""
    m = ctx.model
    E = effects(m)
    cached = [f for f in E.funcs.values() if f.is_cached and f.ci is not None]
    for f in cached:
        key_classes = {f.ci.name}
        a = f.fn.args
        for p_ in a.args[1:] + a.kwonlyargs:
            key_classes |= E._ann_class(f.mi, p_.annotation)
        for cname in sorted(key_classes):
            ci = m.cls(cname)
            family = set(ci.mro) | set(m.subclasses(ci))
            offenders = []
            for c in sorted(family, key=lambda c: c.name):
                for meth in ('__eq__', '__hash__'):
                    if meth in c.methods:
                        # state that determines behaviour: everything __init__ of the concrete classes stores
                        stored = set()
                        for cc in [x for x in family if c in x.mro]:
                            init = cc.find_method('__init__')
                            if init:
                                for n in ast.walk(init[1]):
                                    if isinstance(n, ast.Attribute) and isinstance(n.ctx, ast.Store) \
                                            and isinstance(n.value, ast.Name) and n.value.id == 'self':
                                        stored.add(n.attr)
                            read = _attrs_read(cc, c.methods[meth])
                            missing = sorted(x for x in stored if x not in read and not x.startswith('__'))
                            if missing and 'params' not in read:
                                offenders.append((c, meth, cc.name, missing))
            ok = not offenders
            detail = ''
            if offenders:
                c, meth, concrete, missing = offenders[0]
                detail = (f'{c.name}.{meth} makes instances of {concrete} equal/hash-equal while ignoring {missing}: '
                          f'{f.qual} is memoised per key, so two objects differing only there share one cached result')
            ctx.ob(rule, site_of(offenders[0][0].module, offenders[0][0].methods[offenders[0][1]]) if offenders else f.site,
                   f'cache key of {f.qual}: {cname} instances hash by identity or by all their state', ok, detail,
                   key=f'{f.qual}|cache-key[{cname}]')


def frozen_rule(ctx: Ctx, rule: str, module_prefix: str = 'panqec') -> None:
    """No store through a value obtained from an lru_cache/cache function (in modules with the prefix)."""
    E = effects(ctx.model)
    cached = [f for f in E.funcs.values() if f.is_cached]
    consumers = []
    for fi in E.funcs.values():
        if not fi.mi.name.startswith(module_prefix):
            continue
        uses = [c for c, targets, _ in fi.calls if any(t.is_cached for t in targets)]
        frozen_ret = [c for c, targets, _ in fi.calls if any('FROZEN' in t.ret_roots and not t.is_cached for t in targets)]
        if uses or frozen_ret:
            consumers.append((fi, uses + frozen_ret))
    for fi, uses in sorted(consumers, key=lambda x: x[0].qual):
        bad = [s for s in fi.stores if 'FROZEN' in s.roots]
        ctx.ob(rule, fi.site if not bad else f'{bad[0].func.mi.relpath}:{getattr(bad[0].node, "lineno", 0)}',
               f'{fi.qual}: values handed out by a memoised function are only read', not bad,
               f'{bad[0].how}: {norm_stmt(bad[0].node)} writes into an object shared by every caller of the memoised '
               f'function ({", ".join(sorted({t.qual for c, ts, _ in fi.calls for t in ts if t.is_cached})) or "via a wrapper"})'
               if bad else '', key=f'{fi.qual}|frozen')
    done = {c[0] for c in consumers}
    for fi in E.funcs.values():
        if fi in done or not fi.mi.name.startswith(module_prefix):
            continue
        for s in fi.stores:
            if 'FROZEN' in s.roots:
                ctx.ob(rule, f'{fi.mi.relpath}:{getattr(s.node, "lineno", 0)}',
                       f'{fi.qual}: store through a value handed out by a memoised function', False,
                       f'{s.how}: {norm_stmt(s.node)}', key=f'{fi.qual}|frozen')
    return cached


def code_state_rule(ctx: Ctx, rule: str) -> None:
    """Derived data of a code object are written only by their own guarded initialisation (and by __init__/deform):
    no other method or property of the StabilizerCode family stores through self."""
    m = ctx.model
    E = effects(m)
    base = m.cls('StabilizerCode')
    n = 0
    for c in [base] + sorted(m.subclasses(base), key=lambda c: c.name):
        for name, fn in sorted(c.methods.items()):
            if name in ('__init__', 'deform'):
                continue
            fi = E.by_node[fn]
            bad = [w for w in fi.self_writes if not w.guarded]
            n += 1
            ctx.ob(rule, fi.site if not bad else f'{bad[0].func.mi.relpath}:{getattr(bad[0].node, "lineno", 0)}',
                   f'{c.name}.{name} leaves the derived data of the code untouched', not bad,
                   (f'{bad[0].how}: {norm_stmt(bad[0].node)} (in {bad[0].func.qual}) modifies self.{bad[0].attr}, which is not '
                    f'the guarded initialisation of that attribute: matrices / logicals cached on the code change '
                    f'after they have been handed out') if bad else '', key=f'{c.name}.{name}|code-state')
    ctx.need(n >= 100, rule, 'panqec/codes', f'only {n} code methods analysed')


def deform_dependent_members(model) -> set:
    """Members of StabilizerCode whose value changes when deform() is applied to the object in place: the names
    deform() assigns, and (fix-point) every method/property of the base class that reads one of them."""
    base = model.cls('StabilizerCode')
    deform = base.methods.get('deform')
    if deform is None:
        raise AnalysisError('memo-code', site_of(base.module, base.node), 'StabilizerCode.deform not found')
    D = set()
    for n in walk_no_nested(deform):
        if isinstance(n, ast.Assign):
            for t in n.targets:
                if isinstance(t, ast.Attribute) and isinstance(t.value, ast.Name) and t.value.id == 'self':
                    D.add(t.attr)
    changed = True
    while changed:
        changed = False
        for name, fn in base.methods.items():
            if name in D or name in ('deform', '__init__'):
                continue
            for n in ast.walk(fn):
                if isinstance(n, ast.Attribute) and isinstance(n.value, ast.Name) and n.value.id == 'self' and n.attr in D:
                    D.add(name)
                    changed = True
                    break
    return D


def memo_code_rule(ctx: Ctx, rule: str) -> None:
    """A memoised function keyed on a code object (lru_cache hashes it by identity) must not read anything that
    deform() changes on that same object: after `code.deform(...)` the entry is stale."""
    m = ctx.model
    E = effects(m)
    D = deform_dependent_members(m)
    ctx.need({'get_stabilizer', 'stabilizer_matrix', 'Hx', 'Hz', 'is_css'} <= D, rule, 'panqec/codes/base/_stabilizer_code.py',
             f'deform-dependent members not recognised (found {sorted(D)})')
    base = m.cls('StabilizerCode')
    family = {c.name for c in [base] + m.subclasses(base)}

    def reads(fi, pname, depth, seen):
        out = []
        if (fi.qual, pname) in seen or depth > 4:
            return out
        seen.add((fi.qual, pname))
        alias = {pname}
        for n in walk_no_nested(fi.fn):
            if isinstance(n, ast.Assign) and isinstance(n.value, ast.Name) and n.value.id in alias:
                alias |= {t.id for t in n.targets if isinstance(t, ast.Name)}
        for n in ast.walk(fi.fn):
            if isinstance(n, ast.Attribute) and isinstance(n.value, ast.Name) and n.value.id in alias and n.attr in D:
                out.append((fi, n))
        for call, targets, _ in fi.calls:
            for t in targets:
                for k, a in enumerate(call.args):
                    if isinstance(a, ast.Name) and a.id in alias:
                        off = 1 if (t.ci is not None and isinstance(call.func, ast.Attribute)) else 0
                        if k + off < len(t.params):
                            out += reads(t, t.params[k + off], depth + 1, seen)
                for kw in call.keywords:
                    if kw.arg and isinstance(kw.value, ast.Name) and kw.value.id in alias and kw.arg in t.params:
                        out += reads(t, kw.arg, depth + 1, seen)
        return out
    cached = [f for f in E.funcs.values() if f.is_cached]
    for f in sorted(cached, key=lambda f: f.qual):
        a = f.fn.args
        for p_ in a.posonlyargs + a.args + a.kwonlyargs:
            if p_.arg in ('self', 'cls'):
                continue
            types = E._ann_class(f.mi, p_.annotation)
            if not (types & family or (not types and p_.arg == 'code')):
                continue
            r = reads(f, p_.arg, 0, set())
            ok = not r
            ctx.ob(rule, f.site if ok else f'{r[0][0].mi.relpath}:{r[0][1].lineno}',
                   f'{f.qual}: memoised on the code object `{p_.arg}` but independent of what deform() changes', ok,
                   (f'reads {p_.arg}.{r[0][1].attr} (in {r[0][0].qual}); lru_cache keys the code object by identity, so after '
                    f'`code.deform(...)` on the same object the cached value still describes the code before the '
                    f'deformation') if r else '', key=f'{f.qual}|memo-code[{p_.arg}]')


_IO_CALLS = {'open', 'gzip.open', 'json.load', 'json.loads', 'pickle.load', 'np.load', 'numpy.load', 'np.loadtxt',
             'pd.read_csv', 'pd.read_json', 'os.listdir', 'os.scandir', 'glob', 'glob.glob', 'os.path.exists',
             'os.path.isfile', 'os.path.getmtime', 'os.stat', 'zipfile.ZipFile', 'ZipFile', 'bz2.open', 'lzma.open',
             'os.getenv', 'os.environ.get'}


def memo_io_rule(ctx: Ctx, rule: str, floor_positive: bool = True) -> None:
    """A memoised function must not read the file system / environment: the entry outlives what it read, so a file
    rewritten since (every checkpoint rewrites the results file) is not read again."""
    m = ctx.model
    E = effects(m)
    cached = [f for f in E.funcs.values() if f.is_cached]
    for f in sorted(cached, key=lambda f: f.qual):
        hit = None
        for g in sorted(E.reachable([f]), key=lambda g: g.qual):
            for n in ast.walk(g.fn):
                if isinstance(n, ast.Call):
                    try:
                        d = ast.unparse(n.func)
                    except Exception:
                        continue
                    if d in _IO_CALLS or d.split('.')[-1] in ('read_text', 'read_bytes'):
                        hit = (g, n, d)
                        break
            if hit:
                break
        ctx.ob(rule, f.site if not hit else f'{hit[0].mi.relpath}:{hit[1].lineno}',
               f'{f.qual}: memoised function does not read files or the environment', hit is None,
               (f'{hit[2]}(...) in {hit[0].qual} is reached from the memoised {f.qual}: the first result is returned for '
                f'every later call with the same arguments, whatever has been written to the file since') if hit else '',
               key=f'{f.qual}|memo-io')


def _global_store_sites(fn, glob):
    """(name, store node, guarded by a test of the same container) for stores into module-level containers."""
    out = []
    local = {a.arg for a in ast.walk(fn) if isinstance(a, ast.arg)} | \
        {n.id for n in walk_no_nested(fn) if isinstance(n, ast.Name) and isinstance(n.ctx, ast.Store)}
    pm = parent_map(fn)
    for n in walk_no_nested(fn):
        tgt, store = None, None
        if isinstance(n, ast.Assign) and isinstance(n.targets[0], ast.Subscript) and isinstance(n.targets[0].value, ast.Name):
            tgt, store = n.targets[0].value.id, n
        elif isinstance(n, ast.AugAssign) and isinstance(n.target, ast.Subscript) and isinstance(n.target.value, ast.Name):
            tgt, store = n.target.value.id, n
        elif isinstance(n, ast.Call) and isinstance(n.func, ast.Attribute) and isinstance(n.func.value, ast.Name) \
                and n.func.attr in ('append', 'extend', 'update', 'setdefault', 'add', 'insert', 'pop', 'clear', 'remove'):
            tgt, store = n.func.value.id, n
        if tgt is None or tgt not in glob or tgt in local:
            continue
        guarded = False
        cur = store
        while cur in pm:
            par = pm[cur]
            if isinstance(par, ast.If) and cur in par.body and any(
                    isinstance(x, ast.Name) and x.id == tgt for x in ast.walk(par.test)):
                guarded = True
            cur = par
        out.append((tgt, store, guarded))
    return out


def global_state_rule(ctx: Ctx, rule: str, entry_nodes, what: str) -> None:
    """Nothing reachable from the entry functions writes a module-level container, except a memo whose key determines
    the stored value (object identity or all of the inputs; a label, a shape or a rounded number is a projection)."""
    from ..effects import _memo_key_gap, _guarded_lazy
    m = ctx.model
    E = effects(m)
    roots = [E.by_node[n] for n in entry_nodes]
    reach = E.reachable(roots)
    n_sites = 0
    for fi in sorted(reach, key=lambda f: f.qual):
        # module-level names bound to a mutable container in the function's own module
        glob = {k for k, v in fi.mi.assigns.items()
                if isinstance(v, (ast.Dict, ast.List, ast.Set)) or
                (isinstance(v, ast.Call) and ast.unparse(v.func) in ('dict', 'list', 'set', 'defaultdict', 'OrderedDict',
                                                                     'collections.defaultdict', 'collections.OrderedDict'))}
        if not glob:
            continue
        for tgt, store, guarded in _global_store_sites(fi.fn, glob):
            n_sites += 1
            gap = None
            if guarded and isinstance(store, ast.Assign):
                gap = _memo_key_gap(store, fi.fn, include_self=fi.ci is not None)
            ok = guarded and isinstance(store, ast.Assign) and gap is None
            ctx.ob(rule, f'{fi.mi.relpath}:{store.lineno}', f'{fi.qual}: module-level `{tgt}` written while {what} only as a memo '
                                                            f'whose key determines the value', ok,
                   (f'{norm_stmt(store)}: ' + (gap or 'a module-level container is modified on this path: the result of a later '
                                                      'call depends on the calls made before, by this or any other object')),
                   key=f'{fi.qual}|global[{tgt}]')
    # a mutable default argument is module-level state too: it is created once, when the function is defined
    for fi in sorted(reach, key=lambda f: f.qual):
        for pname, store, omitted_at in mutable_default_sites(E, fi):
            n_sites += 1
            ctx.ob(rule, f'{fi.mi.relpath}:{store.lineno}', f'{fi.qual}: the mutable default of `{pname}` is not modified '
                                                            f'while {what}', False,
                   f'{norm_stmt(store)} modifies the default value of `{pname}` ({omitted_at}): the default is one object '
                   f'shared by all calls, so what a call returns depends on the calls made before',
                   key=f'{fi.qual}|default[{pname}]')
    ctx.extra.setdefault('global_state_sites', {})[rule] = n_sites
    # the expected count on a clean tree is zero: keep a positive example that must be recognised on every run
    demo = ast.parse("def f(self, k):\n    if k.label not in CACHE:\n        CACHE[k.label] = self.make(k)\n    return CACHE[k.label]\n"
                     "def g(x):\n    LOG.append(x)\n").body
    s1 = _global_store_sites(demo[0], {'CACHE', 'LOG'})
    s2 = _global_store_sites(demo[1], {'CACHE', 'LOG'})
    from ..effects import _memo_key_gap as _gap
    if not (len(s1) == 1 and s1[0][2] is True and _gap(s1[0][1], demo[0], include_self=True) and len(s2) == 1 and s2[0][2] is False):
        raise AnalysisError(rule, 'pqv/rules/c06.py', 'positive control of the module-level state rule failed')
    _mutable_default_control(rule)


def _is_mutable_literal(v) -> bool:
    return isinstance(v, (ast.Dict, ast.List, ast.Set, ast.ListComp, ast.DictComp, ast.SetComp)) or (
        isinstance(v, ast.Call) and ast.unparse(v.func) in ('dict', 'list', 'set', 'defaultdict', 'OrderedDict',
                                                            'collections.defaultdict', 'collections.OrderedDict'))


def mutable_default_sites(E, fi):
    """(parameter, store, where it is left out) for parameters of fi with a mutable default that fi (or a callee it
    passes the parameter to) modifies in place, when some call leaves the parameter out (or nothing in the library
    calls fi: a public function)."""
    from ..effects import _arg_for_param
    a = fi.fn.args
    pos = a.posonlyargs + a.args
    defaults = dict(zip([x.arg for x in pos][len(pos) - len(a.defaults):], a.defaults))
    defaults.update({x.arg: d for x, d in zip(a.kwonlyargs, a.kw_defaults) if d is not None})
    out = []
    for pname, d in defaults.items():
        if not _is_mutable_literal(d) or pname not in fi.params:
            continue
        i = fi.params.index(pname)
        if i not in fi.mut_params:
            continue
        store = next((st.node for st in fi.stores if f'P{i}' in st.roots and not st.guarded), fi.fn)
        callers = [(g, call) for g in E.funcs.values() for call, targets, _ in g.calls if fi in targets]
        omitted = [(g, call) for g, call in callers if _arg_for_param(call, fi, i) is None
                   and not any(k.arg is None for k in call.keywords)]
        if callers and not omitted:
            continue
        where = (f'left out by {omitted[0][0].qual}, line {omitted[0][1].lineno}' if omitted
                 else 'a public function: callers may leave it out')
        out.append((pname, store, where))
    return out


def _mutable_default_control(rule: str) -> None:
    """Positive control: the accumulator-default pattern must be recognised on every run."""
    import types
    from ..effects import Effects
    src = ("def collect(data, found=[]):\n    for x in data:\n        found += [x]\n    return found\n"
           "def use(d):\n    return collect(d)\n")
    tree = ast.parse(src)
    fn = tree.body[0]
    a = fn.args
    ok = _is_mutable_literal(a.defaults[0]) and any(isinstance(n, ast.AugAssign) and isinstance(n.target, ast.Name)
                                                   and n.target.id == 'found' for n in ast.walk(fn))
    if not ok:
        raise AnalysisError(rule, 'pqv/rules/c06.py', 'positive control of the mutable-default rule failed')


def class_mutable_rule(ctx: Ctx, rule: str, class_names) -> None:
    """A mutable container defined at class level is shared by all instances: a method may mutate it in place only
    if every constructor rebinds it on the instance first."""
    m = ctx.model
    for cname in class_names:
        ci = m.cls(cname)
        for c in ci.mro:
            for attr, val in c.attrs.items():
                mutable = isinstance(val, (ast.List, ast.Dict, ast.Set)) or (
                    isinstance(val, ast.Call) and ast.unparse(val.func) in ('list', 'dict', 'set', 'defaultdict', 'OrderedDict'))
                if not mutable:
                    continue
                # rebinding in __init__ (of the concrete class chain)
                rebound = False
                for cc in ci.mro:
                    init = cc.methods.get('__init__')
                    if init is None:
                        continue
                    for n in init.body:
                        for t in ast.walk(n):
                            if isinstance(t, (ast.Assign, ast.AnnAssign)):
                                tg = t.targets if isinstance(t, ast.Assign) else [t.target]
                                if any(isinstance(x, ast.Attribute) and isinstance(x.value, ast.Name) and x.value.id == 'self'
                                       and x.attr == attr for x in tg) and not (isinstance(t, ast.AnnAssign) and t.value is None):
                                    rebound = True
                # in-place mutations through self.<attr>
                muts = []
                for cc in ci.mro:
                    for fn in cc.methods.values():
                        for n in ast.walk(fn):
                            tgt = None
                            if isinstance(n, ast.AugAssign):
                                tgt = n.target
                            elif isinstance(n, ast.Assign) and isinstance(n.targets[0], ast.Subscript):
                                tgt = n.targets[0].value
                            elif isinstance(n, ast.Call) and isinstance(n.func, ast.Attribute) and n.func.attr in (
                                    'append', 'extend', 'update', 'insert', 'add', 'setdefault', 'pop', 'remove', 'clear'):
                                tgt = n.func.value
                            if isinstance(tgt, ast.Subscript):
                                tgt = tgt.value
                            if isinstance(tgt, ast.Attribute) and isinstance(tgt.value, ast.Name) and tgt.value.id == 'self' \
                                    and tgt.attr == attr:
                                muts.append((cc, fn, n))
                if not muts:
                    continue
                ok = rebound
                cc, fn, n = muts[0]
                ctx.ob(rule, site_of(cc.module, n), f'{cname}.{attr}: class-level container is rebound per instance before it is '
                                                    f'mutated', ok,
                       f'{c.name}.{attr} = {ast.unparse(val)} is shared by all instances and {cc.name}.{fn.name} mutates it in '
                       f'place ({norm_stmt(n)}) without __init__ rebinding it: state leaks from one object to the next',
                       key=f'{cname}.{attr}|class-mutable')


def decoder_state_rule(ctx: Ctx, rule: str, names=None) -> None:
    """Every write to state that outlives the call, performed by code reachable from decode, is a guarded lazy
    initialisation (decoders named in `names`, default all)."""
    m = ctx.model
    E = effects(m)
    base = m.cls('BaseDecoder')
    decs = [c for c in m.subclasses(base) if 'decode' in c.methods and (names is None or c.name in names)]
    if names is not None and len(decs) != len(set(names)):
        raise AnalysisError(rule, 'panqec/decoders', f'decoder classes {sorted(set(names) - {c.name for c in decs})} not found')
    for c in sorted(decs, key=lambda c: c.name):
        fi = E.by_node[c.methods['decode']]
        reach = E.reachable([fi])
        writes = [w for w in fi.self_writes]
        unguarded = [w for w in writes if not w.guarded]
        if not unguarded:
            ctx.ob(rule, fi.site, f'{c.name}.decode: persistent writes are guarded lazy initialisations '
                                  f'({len(writes)} write(s), {len(reach)} reachable functions)', True, '',
                   key=f'{c.name}.decode|state', facts=sorted({f'{w.func.qual}:self.{w.attr}' for w in writes}))
        for w in unguarded:
            ctx.ob(rule, f'{w.func.mi.relpath}:{getattr(w.node, "lineno", 0)}',
                   f'{c.name}.decode writes persistent state self.{w.attr} in {w.func.qual}', False,
                   f'{w.how}: {norm_stmt(w.node)} - state written during decode that survives the call and is not a '
                   f'guarded lazy initialisation; a later decode can depend on earlier syndromes',
                   key=f'{c.name}.decode|state[{w.func.qual}.{w.attr}]')


def run(ctx: Ctx) -> None:
    ctx.rule('R06.1', 'decode never stores through its syndrome argument (directly or via callees)', floor=9)
    ctx.rule('R06.2', 'values handed out by the cached probability_distribution are never stored through', floor=5)
    ctx.rule('R06.3', 'persistent writes reachable from decode are guarded lazy initialisations only', floor=9)
    ctx.rule('R06.4', 'BP-OSD typestate: reset priors -> decode -> use the returned value, per ldpc object and call', floor=6)
    ctx.rule('R06.5', 'get_initial_state works on a copy of the syndrome', floor=2)
    ctx.trust('third-party decode()/update_channel_probs() do not write their array arguments; PyMatching decode is '
              'stateless; the sweep decoders\' tie-break generator may advance (allowed by the property)',
              'NumPy view/copy rules as tabulated in pqv/effects.py')
    m = ctx.model
    E = effects(m)
    base = m.cls('BaseDecoder')
    decs = [c for c in m.subclasses(base) if 'decode' in c.methods]
    ctx.need(len(decs) >= 9, 'R06.1', 'panqec/decoders', f'only {len(decs)} decoder classes with decode found')
    reach_all = set()
    for c in sorted(decs, key=lambda c: c.name):
        fi = E.by_node[c.methods['decode']]
        ctx.need('syndrome' in fi.params, 'R06.1', fi.site, f'{c.name}.decode has no syndrome parameter')
        pi = fi.params.index('syndrome')
        bad = [s for s in fi.stores if f'P{pi}' in s.roots]
        ok = pi not in fi.mut_params
        detail = ''
        if not ok:
            s = bad[0] if bad else None
            detail = (f'{s.how}: {norm_stmt(s.node)} at {s.func.mi.relpath}:{getattr(s.node, "lineno", 0)}; no copy on '
                      f'the way from the parameter' if s else 'stores through the syndrome parameter')
        ctx.ob('R06.1', fi.site if ok or not bad else f'{bad[0].func.mi.relpath}:{getattr(bad[0].node, "lineno", 0)}',
               f'{c.name}.decode leaves the caller\'s syndrome untouched', ok, detail, key=f'{c.name}.decode|syndrome')
        reach_all |= {f.qual for f in E.reachable([fi])}
    decoder_state_rule(ctx, 'R06.3')
    ctx.extra['decode_reachable_functions'] = len(reach_all)

    # helper class Support (constructed per call): its decode must not write through the matrix it is given
    sup = m.cls('Support')
    init = E.by_node[sup.methods['__init__']]
    hpar = init.params.index('H') if 'H' in init.params else None
    ctx.need(hpar is not None, 'R06.3', init.site, 'Support.__init__ has no H parameter')
    aliased = set()
    for n in ast.walk(init.fn):
        if isinstance(n, ast.Assign) and isinstance(n.value, ast.Name) and n.value.id == 'H':
            for t in n.targets:
                if isinstance(t, ast.Attribute) and isinstance(t.value, ast.Name) and t.value.id == 'self':
                    aliased.add(t.attr)
    written = {}
    for c in (sup, m.cls('Clustering_Tree'), m.cls('Peeling_Tree')):
        for fn in c.methods.values():
            fi = E.by_node[fn]
            for s in fi.stores:
                if s.attr in aliased and ('P0' in s.roots or 'PERSIST' in s.roots) and s.how != 'attribute assignment':
                    written[s.attr] = s
            for n in ast.walk(fn):
                # self.support.H[...] = / support.H[...] =
                if isinstance(n, (ast.Assign, ast.AugAssign)):
                    tg = n.targets if isinstance(n, ast.Assign) else [n.target]
                    for t in tg:
                        if isinstance(t, ast.Subscript):
                            b = t.value
                            if isinstance(b, ast.Attribute) and b.attr in aliased and b.attr != '_H_to_grow':
                                written[b.attr] = n
    ctx.ob('R06.3', init.site, f'Support keeps the cached check matrix read-only (aliased fields {sorted(aliased)})',
           not written, f'the matrix passed to Support aliases code.Hx/Hz (cached on the code) and is written through '
                        f'self.{list(written)[0] if written else ""}', key='Support|matrix-readonly', facts=sorted(aliased))

    # R06.2
    cached = [f for f in E.funcs.values() if f.is_cached]
    ctx.need(any(f.fn.name == 'probability_distribution' for f in cached), 'R06.2', 'panqec/error_models',
             'positive control failed: the lru_cache on probability_distribution was not recognised')
    with ctx.part():
        frozen_rule(ctx, 'R06.2')
    ctx.extra['cached_functions'] = [f.qual for f in cached]
    with ctx.part():
        cache_key_rule(ctx, 'R06.2')

    # module-level state (class-level state is covered by the self writes above)
    with ctx.part():
        global_state_rule(ctx, 'R06.3', [c.methods['decode'] for c in decs], 'a syndrome is decoded')

    # R06.4
    facts = [f for f in sector.analyse(m, only=('BeliefPropagationOSDDecoder',)) if f.tag in ('typestate', 'deterministic')]
    with ctx.part():
        facts_to_obs(ctx, facts, {'typestate': 'R06.4', 'deterministic': 'R06.4'})

    # R06.5
    for cname in ('SweepDecoder3D', 'RotatedSweepDecoder3D'):
        ci, fn = m.method(cname, 'get_initial_state')
        fi = E.by_node[fn]
        pi = fi.params.index('syndrome') if 'syndrome' in fi.params else 1
        ok = pi not in fi.mut_params and f'P{pi}' not in fi.ret_roots
        bad = [s for s in fi.stores if f'P{pi}' in s.roots]
        ctx.ob('R06.5', fi.site, f'{cname}.get_initial_state copies the syndrome before zeroing rows', ok,
               (f'{bad[0].how}: {norm_stmt(bad[0].node)}' if bad else 'returns an alias of its argument'),
               key=f'{cname}.get_initial_state|copy')
