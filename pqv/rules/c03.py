"""C03 - Pauli representations are lossless and the symplectic product is exact."""
from __future__ import annotations

import ast
import itertools

import numpy as np

from ..domains import BITS, PAULIS, Poly
from ..interp import (NOT_HANDLED, TOP, BoundMethod, Closure, Env, Ext, Hooks, Interp, Obj, guard, site_of)
from ..model import AnalysisError, norm_stmt
from ..report import Ctx
from ..symnp import MiniCSR, call_numpy, scipy_ctor

EXPLANATION = (
    'R03.1: bs_prod and _bs_prod_sparse are interpreted on symbolic matrices (entries are GF(2) polynomial '
    'variables a_r.x_i, a_r.z_i, b_s.x_i, b_s.z_i; n=2 qubits; 1-D and 2-D operands with 1 or 2 rows; dense, '
    'list and sparse operands in every combination). Every entry of the result must be the polynomial '
    'sum_i (a.x_i*b.z_i + a.z_i*b.x_i) reduced mod 2, with shape (rows,) for a matrix times a vector. This is the '
    'symplectic form itself, so bilinearity, symmetry and vanishing on equal arguments follow. '
    'R03.2: every Pauli<->bits converter in the package is partially evaluated on the finite Pauli domain '
    '(strings IXYZ / its bit pairs / Pauli numbers) and must encode I=(0,0) X=(1,0) Y=(1,1) Z=(0,1). '
    'R03.3: measure_syndrome(e) is bs_prod(stabilizer_matrix, e).'
)


class SymHooks(Hooks):
    def call(self, it, func, args, kwargs, node, env):
        r = scipy_ctor(func, args, kwargs)
        if r is not NOT_HANDLED:
            return r
        r = call_numpy(func, args, kwargs)
        if r is not NOT_HANDLED:
            return r
        if isinstance(func, Ext) and func.name.startswith('builtins.str.'):
            f = getattr(str, func.name.split('.')[-1], None)
            if f is not None and all(isinstance(a, (str, int, dict)) for a in args):
                return f(*args, **kwargs)
        return NOT_HANDLED


# ------------------------------------------------------------------- R03.1

def _sym_matrix(name: str, rows, n: int) -> np.ndarray:
    """rows=None -> 1-D vector of length 2n; else (rows, 2n)."""
    def ent(r, c):
        half = 'x' if c < n else 'z'
        return Poly.var(f'{name}{r}{half}{c % n}')
    if rows is None:
        a = np.empty((2 * n,), dtype=object)
        for c in range(2 * n):
            a[c] = ent(0, c)
        return a
    a = np.empty((rows, 2 * n), dtype=object)
    for r in range(rows):
        for c in range(2 * n):
            a[r, c] = ent(r, c)
    return a


def _expected_form(ra, rb, n: int):
    out = []
    for r in range(ra or 1):
        row = []
        for s in range(rb or 1):
            p = Poly.const(0)
            for i in range(n):
                p = p + Poly.var(f'a{r}x{i}') * Poly.var(f'b{s}z{i}') + Poly.var(f'a{r}z{i}') * Poly.var(f'b{s}x{i}')
            row.append(p % 2)
        out.append(row)
    return out


def _r031(ctx: Ctx) -> None:
    m = ctx.model
    mi, fn = m.func('panqec.bpauli', 'bs_prod')
    site = site_of(mi, fn)
    n = 3 if ctx.tier == 'thorough' else 2
    shapes = [None, 1, 2, 3] if ctx.tier == 'thorough' else [None, 1, 2]
    reprs = ['dense', 'sparse', 'list']
    for ra, rb in itertools.product(shapes, shapes):
        for ka, kb in itertools.product(reprs, reprs):
            if (ka == 'sparse' and ra is None) or (kb == 'sparse' and rb is None):
                continue                                     # csr matrices are always 2-D
            A = _sym_matrix('a', ra, n)
            B = _sym_matrix('b', rb, n)

            def conv(x, k):
                if k == 'sparse':
                    return MiniCSR(x)
                if k == 'list':
                    return x.tolist()
                return x
            a, b = conv(A, ka), conv(B, kb)
            it = Interp(m, SymHooks())

            def thunk():
                return it.call_closure(Closure(fn, mi), [a, b], {}, fn)
            outs = guard('R03.1', mi, fn)(lambda: it.explore(thunk))
            what = f'bs_prod: a {ka} {"1-D" if ra is None else f"{ra}x2n"}, b {kb} {"1-D" if rb is None else f"{rb}x2n"}'
            ok = len(outs) == 1 and outs[0].kind == 'return'
            detail = ''
            got = None
            if not ok:
                detail = f'paths: {outs!r}'
            else:
                v = outs[0].value
                if isinstance(v, MiniCSR):
                    v = v.toarray()
                if v is TOP or 'TOP' in repr(v):
                    raise AnalysisError('R03.1', site, f'{what}: result not tracked by the analysis ({v!r})')
                if not isinstance(v, np.ndarray):
                    ok, detail = False, f'result is {v!r}, not an array'
                else:
                    want = _expected_form(ra, rb, n)
                    flat_want = [p for row in want for p in row]
                    flat_got = list(v.reshape(-1))
                    got = [repr(x) for x in flat_got]
                    if len(flat_got) != len(flat_want) or any(
                            not (isinstance(g, Poly) and g == w) for g, w in zip(flat_got, flat_want)):
                        ok = False
                        detail = f'entries {got}; expected sum_i a.x_i*b.z_i + a.z_i*b.x_i mod 2: ' \
                                 f'{[repr(w) for w in flat_want]}'
                    elif ra is not None and rb is None and v.shape != (ra,):
                        ok, detail = False, f'matrix x vector must have shape ({ra},), got {v.shape}'
                    elif ra is None and rb is not None and v.shape != (rb,):
                        ok, detail = False, f'vector x matrix must have shape ({rb},), got {v.shape}'
                    elif ra is not None and rb is not None and ka != 'sparse' and kb != 'sparse' \
                            and v.shape != (ra, rb):
                        ok, detail = False, f'matrix x matrix must have shape ({ra},{rb}), got {v.shape}'
            ctx.ob('R03.1', site, what, ok, detail, key=f'bs_prod|{ka}:{ra}|{kb}:{rb}',
                   facts={'entries': got})


def _r031_overlap(ctx: Ctx) -> None:
    """Overlap >= 2: without the mod-2 reduction the result is 2 or 4, not 0."""
    m = ctx.model
    mi, fn = m.func('panqec.bpauli', 'bs_prod')
    site = site_of(mi, fn)
    n = 2
    A = _sym_matrix('a', 1, n)
    ones = np.ones((1, 2 * n), dtype=int)
    cases = [('equal symbolic arguments (omega(a,a) = 0)', A, A, Poly.const(0)),
             ('all-ones operands (overlap 4)', ones, ones, 0),
             ('all-ones matrix x all-ones vector', np.ones((2, 2 * n), dtype=int), np.ones(2 * n, dtype=int), 0)]
    # dense operands of different integer dtypes (what the library itself produces: to_bsf gives np.uint, a hand-written
    # array int64, logicals uint8): NumPy promotes uint64 with a signed type to float64, on which % 2 is defined and the
    # bit operators are not
    dts = ['uint8', 'int8', 'int32', 'int64', 'uint64', 'uint32']
    for da, db in itertools.product(dts, dts):
        if da == db and da != 'uint64':
            continue
        cases.append((f'all-ones operands of dtype {da} x {db}', np.ones((1, 2 * n), dtype=da), np.ones((1, 2 * n), dtype=db), 0))
    for label, a0, b0, want in cases:
        for ka, kb in itertools.product(['dense', 'sparse'], ['dense', 'sparse']):
            if 'dtype' in label and (ka, kb) != ('dense', 'dense'):
                continue
            if (ka == 'sparse' and a0.ndim == 1) or (kb == 'sparse' and b0.ndim == 1):
                continue
            a = MiniCSR(np.array(a0)) if ka == 'sparse' else np.array(a0)
            b = MiniCSR(np.array(b0)) if kb == 'sparse' else np.array(b0)
            it = Interp(m, SymHooks())
            outs = guard('R03.1', mi, fn)(lambda: it.explore(
                lambda: it.call_closure(Closure(fn, mi), [a, b], {}, fn)))
            ok = len(outs) == 1 and outs[0].kind == 'return'
            got = None
            if ok:
                v = outs[0].value
                if v is TOP or 'TOP' in repr(v):
                    raise AnalysisError('R03.1', site, f'bs_prod ({label}): result not tracked by the analysis ({v!r})')
                v = v.toarray() if isinstance(v, MiniCSR) else v
                got = list(np.asarray(v, dtype=object).reshape(-1))
                ok = all((g == want) for g in got) and len(got) >= 1
            ctx.ob('R03.1', site, f'bs_prod reduces mod 2: {label}, a {ka}, b {kb}', ok,
                   (f'got {got!r}, expected all entries {want!r}' if got is not None else f'paths: {outs!r}'), key=f'bs_prod|mod2|{label}|{ka}|{kb}',
                   facts={'got': repr(got)})


# ------------------------------------------------------------------- R03.2

WORD = 'IXYZ'
WORD_BSF = [0, 1, 1, 0, 0, 0, 1, 1]          # x bits then z bits of I X Y Z


def _run_fn(ctx: Ctx, rule: str, mi, fn, args, self_obj=None, cls=None, hooks=None):
    it = Interp(ctx.model, hooks or SymHooks())

    def thunk():
        return it.call_closure(Closure(fn, mi, cls), list(args), {}, fn, self_obj=self_obj)
    outs = guard(rule, mi, fn)(lambda: it.explore(thunk))
    return outs


def _single(ctx, rule, mi, fn, outs):
    ctx.need(len(outs) == 1, rule, site_of(mi, fn), f'expected one path, got {outs!r}')
    o = outs[0]
    if o.kind != 'return':
        return f'raises {o.exc}'
    if 'TOP' in repr(o.value):
        raise AnalysisError(rule, site_of(mi, fn), f'{getattr(fn, "name", "?")}: result not fully evaluated ({o.value!r})')
    return o.value


def _aslist(v):
    if isinstance(v, MiniCSR):
        v = v.toarray()
    if isinstance(v, np.ndarray):
        return v.tolist()
    return v


def pauli_table_sites(ctx: Ctx, rule: str) -> None:
    m = ctx.model
    bp = m.module('panqec.bpauli')

    def ob(site, what, got, want, key):
        ok = got == want
        ctx.ob(rule, site, what, ok, f'got {got!r}, expected {want!r} (I=(0,0) X=(1,0) Y=(1,1) Z=(0,1))',
               key=key, facts={'got': repr(got)})

    # pauli_to_bsf
    mi, fn = m.func('panqec.bpauli', 'pauli_to_bsf')
    v = _single(ctx, rule, mi, fn, _run_fn(ctx, rule, mi, fn, [WORD]))
    ob(site_of(mi, fn), "pauli_to_bsf('IXYZ')", _aslist(v), WORD_BSF, 'pauli_to_bsf|table')

    # pauli_string_to_bvector
    mi, fn = m.func('panqec.bpauli', 'pauli_string_to_bvector')
    v = _single(ctx, rule, mi, fn, _run_fn(ctx, rule, mi, fn, [WORD]))
    ob(site_of(mi, fn), "pauli_string_to_bvector('IXYZ')", _aslist(v), WORD_BSF, 'pauli_string_to_bvector|table')

    # bvector_to_pauli_string
    mi, fn = m.func('panqec.bpauli', 'bvector_to_pauli_string')
    v = _single(ctx, rule, mi, fn, _run_fn(ctx, rule, mi, fn, [np.array(WORD_BSF)]))
    ob(site_of(mi, fn), 'bvector_to_pauli_string(bits of IXYZ)', v, WORD, 'bvector_to_pauli_string|table')

    # bsf_to_pauli dense 1-D, dense 2-D, sparse
    mi, fn = m.func('panqec.bpauli', 'bsf_to_pauli')
    v = _single(ctx, rule, mi, fn, _run_fn(ctx, rule, mi, fn, [np.array(WORD_BSF)]))
    ob(site_of(mi, fn), 'bsf_to_pauli(dense 1-D bits of IXYZ)', v, WORD, 'bsf_to_pauli|dense1')
    v = _single(ctx, rule, mi, fn, _run_fn(ctx, rule, mi, fn, [np.array([WORD_BSF, WORD_BSF[4:] + WORD_BSF[:4]])]))
    ob(site_of(mi, fn), 'bsf_to_pauli(dense 2-D)', v, [WORD, 'IZYX'], 'bsf_to_pauli|dense2')
    v = _single(ctx, rule, mi, fn, _run_fn(ctx, rule, mi, fn, [MiniCSR(np.array([WORD_BSF, WORD_BSF[4:] + WORD_BSF[:4]]))]))
    ob(site_of(mi, fn), 'bsf_to_pauli(sparse rows)', v, [WORD, 'IZYX'], 'bsf_to_pauli|sparse')
    # the same row as bsparse.insert_mod2 would store it when the Z bits are inserted first (unsorted indices)
    v = _single(ctx, rule, mi, fn, _run_fn(ctx, rule, mi, fn, [MiniCSR(np.array([WORD_BSF]), store=UNSORTED)]))
    ob(site_of(mi, fn), 'bsf_to_pauli(sparse row, indices stored Z-before-X)', v, [WORD], 'bsf_to_pauli|sparse-unsorted')

    # bsf_wt: weight = number of qubits with x or z set, per representation
    mi, fn = m.func('panqec.bpauli', 'bsf_wt')
    for pauli in 'XYZ':
        bits = [0, 0, 0, 0]
        bits[0], bits[2] = BITS[pauli]
        v = _single(ctx, rule, mi, fn, _run_fn(ctx, rule, mi, fn, [np.array(bits)]))
        ob(site_of(mi, fn), f'bsf_wt(dense, single {pauli} on 2 qubits)', _int(v), 1, f'bsf_wt|dense[{pauli}]')
        v = _single(ctx, rule, mi, fn, _run_fn(ctx, rule, mi, fn, [MiniCSR(np.array([bits]))]))
        ob(site_of(mi, fn), f'bsf_wt(sparse, single {pauli} on 2 qubits)', _int(v), 1, f'bsf_wt|sparse[{pauli}]')
    v = _single(ctx, rule, mi, fn, _run_fn(ctx, rule, mi, fn, [np.array(WORD_BSF)]))
    ob(site_of(mi, fn), 'bsf_wt(dense bits of IXYZ)', _int(v), 3, 'bsf_wt|dense[IXYZ]')
    v = _single(ctx, rule, mi, fn, _run_fn(ctx, rule, mi, fn, [MiniCSR(np.array([WORD_BSF]))]))
    ob(site_of(mi, fn), 'bsf_wt(sparse bits of IXYZ)', _int(v), 3, 'bsf_wt|sparse[IXYZ]')
    v = _single(ctx, rule, mi, fn, _run_fn(ctx, rule, mi, fn, [MiniCSR(np.array([WORD_BSF]), store=UNSORTED)]))
    ob(site_of(mi, fn), 'bsf_wt(sparse bits of IXYZ, indices stored Z-before-X)', _int(v), 3, 'bsf_wt|sparse-unsorted')
    # weights above 255 in the dtype the library produces (pauli_to_bsf / generate give uint8): counting with a
    # fixed-width accumulator wraps
    for label, word in (('all Y', 'Y' * 300), ('X then Y', 'X' * 40 + 'Y' * 260)):
        big = np.array([1 if c in 'XY' else 0 for c in word] + [1 if c in 'YZ' else 0 for c in word], dtype=np.uint8)
        v = _single(ctx, rule, mi, fn, _run_fn(ctx, rule, mi, fn, [big]))
        ob(site_of(mi, fn), f'bsf_wt(dense uint8, {label} on 300 qubits)', _int(v), 300, f'bsf_wt|dense-uint8[{label}]')
        v = _single(ctx, rule, mi, fn, _run_fn(ctx, rule, mi, fn, [MiniCSR(big.reshape(1, -1))]))
        ob(site_of(mi, fn), f'bsf_wt(sparse uint8, {label} on 300 qubits)', _int(v), 300, f'bsf_wt|sparse-uint8[{label}]')
    stack = [[1, 0, 0, 0], [1, 0, 1, 0], [0, 1, 0, 0]]          # X on qubit 0 twice (once as Y), Z... : rows XI, YI, IX
    vd = _single(ctx, rule, mi, fn, _run_fn(ctx, rule, mi, fn, [np.array(stack)]))
    vs = _single(ctx, rule, mi, fn, _run_fn(ctx, rule, mi, fn, [MiniCSR(np.array(stack))]))
    ctx.ob(rule, site_of(mi, fn), 'bsf_wt(stack of rows): sparse and dense representations agree', _int(vd) == _int(vs),
           f'bsf_wt of the rows XI, YI, IX is {_int(vd)!r} for the dense array and {_int(vs)!r} for the same rows as a '
           f'sparse matrix', key='bsf_wt|stack-agree', facts={'dense': repr(vd), 'sparse': repr(vs)})

    # bsparse.insert_mod2 / is_one on a sparse row: toggles exactly the given column
    bmi, ifn = m.func('panqec.bsparse', 'insert_mod2')
    _, ofn = m.func('panqec.bsparse', 'is_one')
    row = MiniCSR(np.zeros((1, 6), dtype=int))
    hist = []
    for col, want_row in ((3, [0, 0, 0, 1, 0, 0]), (0, [1, 0, 0, 1, 0, 0]), (5, [1, 0, 0, 1, 0, 1]), (3, [1, 0, 0, 0, 0, 1]),
                          (1, [1, 1, 0, 0, 0, 1])):
        outs = _run_fn(ctx, rule, bmi, ifn, [col, row])
        ctx.need(len(outs) == 1 and outs[0].kind == 'return', rule, site_of(bmi, ifn), f'insert_mod2({col}): {outs!r}')
        hist.append((col, row.toarray()[0].tolist(), want_row))
    bad = [h for h in hist if h[1] != h[2]]
    ctx.ob(rule, site_of(bmi, ifn), 'bsparse.insert_mod2 toggles exactly the given column of the row (insert, insert, insert, '
                                    'remove, insert)', not bad,
           f'after inserting {bad[0][0]} the row is {bad[0][1]}, expected {bad[0][2]}' if bad else '', key='insert_mod2|toggle',
           facts=[h[1] for h in hist])
    ones = []
    for col in range(6):
        v = _single(ctx, rule, bmi, ofn, _run_fn(ctx, rule, bmi, ofn, [col, row]))
        ones.append(bool(v))
    ob(site_of(bmi, ofn), 'bsparse.is_one reads the row insert_mod2 built', ones, [True, True, False, False, False, True],
       'is_one|row')

    # mbp_decoder.symplectic_to_pauli / pauli_to_symplectic (1,2,3 = X,Y,Z)
    mbp = m.module('panqec.decoders.belief_propagation.mbp_decoder')
    consts = {}
    for nm in ('PAULI_I', 'PAULI_X', 'PAULI_Y', 'PAULI_Z'):
        ctx.need(nm in mbp.assigns, rule, mbp.relpath, f'{nm} not defined')
        consts[nm[-1]] = ast.literal_eval(mbp.assigns[nm])
    mi, fn = m.func(mbp.name, 'symplectic_to_pauli')
    v = _single(ctx, rule, mi, fn, _run_fn(ctx, rule, mi, fn, [MiniCSR(np.array([WORD_BSF]))]))
    ob(site_of(mi, fn), 'mbp symplectic_to_pauli(bits of IXYZ)', _aslist(v),
       [[consts[p] for p in WORD]], 'mbp.symplectic_to_pauli|table')
    mi, fn = m.func(mbp.name, 'pauli_to_symplectic')
    arr = np.array([consts[p] for p in WORD])
    v = _single(ctx, rule, mi, fn, _run_fn(ctx, rule, mi, fn, [arr]))
    ob(site_of(mi, fn), 'mbp pauli_to_symplectic(numbers of IXYZ)', _aslist(v), WORD_BSF,
       'mbp.pauli_to_symplectic|table')
    v = _single(ctx, rule, mi, fn, _run_fn(ctx, rule, mi, fn, [arr, True]))
    ob(site_of(mi, fn), 'mbp pauli_to_symplectic(reverse=True) = [z|x]', _aslist(v),
       WORD_BSF[4:] + WORD_BSF[:4], 'mbp.pauli_to_symplectic|reverse')
    # the decoder uses H_pauli entries 1..3 and w+1 for w in range(3) in lambda_channel rows px,py,pz
    ctx.ob(rule, mbp.relpath + ':0', 'mbp Pauli numbering I,X,Y,Z = 0,1,2,3 (rows of p_channel)',
           consts == {'I': 0, 'X': 1, 'Y': 2, 'Z': 3},
           f'constants are {consts}; p_channel is stacked [pi,px,py,pz] so numbers must be 0,1,2,3',
           key='mbp|pauli-numbers', facts=consts)

    # _gui.send_random_errors: literal map
    ci, fn = m.method('GUI', 'send_random_errors')
    maps = [n for n in ast.walk(fn) if isinstance(n, ast.Assign) and isinstance(n.value, ast.Dict)
            and all(isinstance(k, ast.Tuple) for k in n.value.keys) and len(n.value.keys) == 4]
    # (the map feeds a list the handler never returns: when the dead code is removed there is nothing to check)
    ctx.need(len(maps) <= 1, rule, site_of(ci.module, fn), 'several bit-pair maps in send_random_errors')
    if maps:
        d = ast.literal_eval(maps[0].value)
        ob(site_of(ci.module, maps[0]), 'GUI.send_random_errors bit-pair map', d, {v: k for k, v in BITS.items()},
           'GUI.send_random_errors|bsf_to_str_map')


def _int(v):
    try:
        return int(v)
    except Exception:
        return v


# ---------------------------------------------- StabilizerCode converters (shared with C02)

QUBITS = ['q0', 'q1', 'q2', 'q3']
# storage layouts of the sparse row IXYZ = [0,1,1,0 | 0,0,1,1]: a csr row may keep its column indices in any order
# (bsparse.insert_mod2 appends) and may keep explicit zeros (`m.data %= 2` after a sum)
UNSORTED = [(0, 6), (0, 7), (0, 1), (0, 2)]
EXPLICIT_ZERO = [(0, 0), (0, 1), (0, 2), (0, 4), (0, 6), (0, 7)]


class CodeHooks(SymHooks):
    def __init__(self, stabilizers=None):
        self.stabilizers = stabilizers or {}

    def call(self, it, func, args, kwargs, node, env):
        if isinstance(func, BoundMethod) and func.closure.fn.name == 'get_stabilizer':
            return dict(self.stabilizers[args[0]])
        return super().call(it, func, args, kwargs, node, env)


def mini_code(ctx: Ctx, stab_locs=()) -> Obj:
    ci = ctx.model.cls('StabilizerCode')
    o = Obj(ci, 'code')
    o.fields['n'] = len(QUBITS)
    o.fields['qubit_coordinates'] = list(QUBITS)
    o.fields['qubit_index'] = {q: i for i, q in enumerate(QUBITS)}
    o.fields['stabilizer_coordinates'] = list(stab_locs)
    o.fields['stabilizer_index'] = {s: i for i, s in enumerate(stab_locs)}
    o.fields['n_stabilizers'] = len(stab_locs)
    o.fields['_stabilizer_matrix'] = MiniCSR.zeros((0, 2 * len(QUBITS)))
    return o


def stabilizer_code_tables(ctx: Ctx, rule: str) -> None:
    m = ctx.model
    ci = m.cls('StabilizerCode')
    mi = ci.module
    op = {'q1': 'X', 'q2': 'Y', 'q3': 'Z'}
    bits = WORD_BSF

    def ob(fn, what, got, want, key):
        ctx.ob(rule, site_of(mi, fn), what, got == want,
               f'got {got!r}, expected {want!r} (X -> column i, Z -> column n+i, Y -> both)', key=key,
               facts={'got': repr(got)})

    _, fn = m.own_method('StabilizerCode', 'to_bsf')
    v = _single(ctx, rule, mi, fn, _run_fn(ctx, rule, mi, fn, [dict(op)], self_obj=mini_code(ctx), cls=ci,
                                           hooks=CodeHooks()))
    ob(fn, "StabilizerCode.to_bsf({q1:X, q2:Y, q3:Z})", _aslist(v), [float(b) for b in bits] if False else bits,
       'StabilizerCode.to_bsf|table')

    _, fn = m.own_method('StabilizerCode', 'from_bsf')
    for label, arg in (('1-D array', np.array(bits)), ('1x2n array', np.array([bits])),
                       ('sparse row', MiniCSR(np.array([bits]))),
                       ('sparse row, indices stored Z-before-X', MiniCSR(np.array([bits]), store=UNSORTED)),
                       ('sparse row with an explicitly stored zero', MiniCSR(np.array([bits]), store=EXPLICIT_ZERO))):
        v = _single(ctx, rule, mi, fn, _run_fn(ctx, rule, mi, fn, [arg], self_obj=mini_code(ctx), cls=ci,
                                               hooks=CodeHooks()))
        ob(fn, f'StabilizerCode.from_bsf({label} of IXYZ)', v, op, f'StabilizerCode.from_bsf|{label}')

    # stabilizer_matrix rows are the BSF images of get_stabilizer(location), in coordinate order, mod 2
    stabs = {'s0': {'q0': 'X', 'q1': 'Y', 'q2': 'Z'}, 's1': {'q3': 'Y'}, 's2': {'q0': 'Z', 'q3': 'X'}}
    want = [[1, 1, 0, 0, 0, 1, 1, 0], [0, 0, 0, 1, 0, 0, 0, 1], [0, 0, 0, 1, 1, 0, 0, 0]]
    r = ci.find_method('stabilizer_matrix')
    ctx.need(r is not None, rule, site_of(mi, ci.node), 'stabilizer_matrix not found')
    fn = r[1]
    v = _single(ctx, rule, mi, fn, _run_fn(ctx, rule, mi, fn, [], self_obj=mini_code(ctx, list(stabs)), cls=ci,
                                           hooks=CodeHooks(stabs)))
    ob(fn, 'StabilizerCode.stabilizer_matrix rows = BSF of get_stabilizer(location) in coordinate order',
       _aslist(v), want, 'StabilizerCode.stabilizer_matrix|rows')

    # site(): multiplication table of single-qubit Paulis (equal -> removed, unequal -> third Pauli)
    _, fn = m.own_method('StabilizerCode', 'site')
    table = {}
    good = True
    for p in 'XYZ':
        for q in 'XYZ':
            o = {'q0': p}
            _single(ctx, rule, mi, fn, _run_fn(ctx, rule, mi, fn, [o, q, 'q0'], self_obj=mini_code(ctx), cls=ci,
                                               hooks=CodeHooks()))
            table[p + q] = o.get('q0', 'I')
            bx = (BITS[p][0] ^ BITS[q][0], BITS[p][1] ^ BITS[q][1])
            wantp = {v: k for k, v in BITS.items()}[bx]
            if table[p + q] != wantp:
                good = False
    o = {}
    _single(ctx, rule, mi, fn, _run_fn(ctx, rule, mi, fn, [o, 'Z', 'q1'], self_obj=mini_code(ctx), cls=ci,
                                       hooks=CodeHooks()))
    table['I*Z'] = o.get('q1', 'I')
    good = good and table['I*Z'] == 'Z'
    ctx.ob(rule, site_of(mi, fn), 'StabilizerCode.site product table (XOR of bit pairs; equal Paulis cancel)', good,
           f'product table {table}', key='StabilizerCode.site|table', facts=table)


def _r033(ctx: Ctx) -> None:
    m = ctx.model
    ci, fn = m.method('StabilizerCode', 'measure_syndrome')
    mi = ci.module
    rets = [n for n in ast.walk(fn) if isinstance(n, ast.Return)]
    ok = False
    txt = ''
    if len(rets) == 1 and isinstance(rets[0].value, ast.Call):
        c = rets[0].value
        txt = ast.unparse(c)
        r = m.resolve(mi, ast.unparse(c.func)) if isinstance(c.func, (ast.Name, ast.Attribute)) else None
        is_bs = bool(r and r[0] == 'func' and r[2].name == 'bs_prod' and r[1].name == 'panqec.bpauli')
        if is_bs and len(c.args) == 2:
            a0, a1 = c.args
            ok = (ast.unparse(a0) == 'self.stabilizer_matrix'
                  and isinstance(a1, ast.Name) and a1.id == fn.args.args[1].arg)
    ctx.ob('R03.3', site_of(mi, fn), 'measure_syndrome(e) = bs_prod(self.stabilizer_matrix, e)', ok,
           f'returns {txt}', key='StabilizerCode.measure_syndrome|form', facts=txt)


def _r034(ctx: Ctx) -> None:
    """bvector <-> int converters are mutually inverse on every 2-qubit vector (finite domain)."""
    m = ctx.model
    mi = m.module('panqec.bpauli')
    f_to = mi.functions.get('bvector_to_int')
    f_from = mi.functions.get('int_to_bvector')
    f_tos = mi.functions.get('bvectors_to_ints')
    f_froms = mi.functions.get('ints_to_bvectors')
    ctx.need(all([f_to, f_from, f_tos, f_froms]), 'R03.4', mi.relpath, 'integer converters not found')
    n = 2
    vecs = [list(v) for v in itertools.product((0, 1), repeat=2 * n)]
    ints = []
    bad = None
    for v in vecs:
        o = _single(ctx, 'R03.4', mi, f_to, _run_fn(ctx, 'R03.4', mi, f_to, [np.array(v)]))
        want = int(''.join(map(str, v)), 2)
        if o != want:
            bad = f'bvector_to_int({v}) = {o!r}, expected {want}'
            break
        ints.append(o)
        back = _aslist(_single(ctx, 'R03.4', mi, f_from, _run_fn(ctx, 'R03.4', mi, f_from, [o, n])))
        if back != v:
            bad = f'int_to_bvector({o}, {n}) = {back!r}, expected {v}'
            break
    ctx.ob('R03.4', site_of(mi, f_to), 'bvector_to_int / int_to_bvector are inverse on all 16 two-qubit vectors', bad is None,
           bad or '', key='bvector_int|roundtrip')
    # long operators: no fixed-width overflow (n = 40 qubits -> 80 bits)
    bad = None
    nn = 40
    for label, v in (('all ones', [1] * (2 * nn)), ('leading one', [1] + [0] * (2 * nn - 1)),
                     ('alternating', [i % 2 for i in range(2 * nn)]), ('trailing one', [0] * (2 * nn - 1) + [1])):
        o = _single(ctx, 'R03.4', mi, f_to, _run_fn(ctx, 'R03.4', mi, f_to, [np.array(v)]))
        want = int(''.join(map(str, v)), 2)
        if not (isinstance(o, int) and o == want):
            bad = f'bvector_to_int({label}, 80 bits) = {o!r}, expected {want}'
            break
        back = _aslist(_single(ctx, 'R03.4', mi, f_from, _run_fn(ctx, 'R03.4', mi, f_from, [o, nn])))
        if back != v:
            bad = f'int_to_bvector(bvector_to_int({label})) differs from the input on {nn} qubits'
            break
    ctx.ob('R03.4', site_of(mi, f_to), 'integer conversion is exact for 40-qubit operators (no fixed-width overflow)', bad is None,
           bad or '', key='bvector_int|wide')
    bad = None
    o = _single(ctx, 'R03.4', mi, f_tos, _run_fn(ctx, 'R03.4', mi, f_tos, [[np.array(v) for v in vecs]]))
    if o != [int(''.join(map(str, v)), 2) for v in vecs]:
        bad = f'bvectors_to_ints = {o!r}'
    else:
        b = _single(ctx, 'R03.4', mi, f_froms, _run_fn(ctx, 'R03.4', mi, f_froms, [list(o), n]))
        if [_aslist(x) for x in b] != vecs:
            bad = f'ints_to_bvectors(bvectors_to_ints(vs)) = {[_aslist(x) for x in b]!r}'
    ctx.ob('R03.4', site_of(mi, f_tos), 'bvectors_to_ints / ints_to_bvectors are inverse on the list of all vectors', bad is None,
           bad or '', key='bvectors_ints|roundtrip')


# in-place by contract (name and docstring say so); everything else in the two modules is a function of its arguments
_INPLACE_BY_CONTRACT = {
    'insert_mod2': 'documented in-place insertion into a row matrix',
    'gf2_rank': 'rank helper (neither a product nor a converter); consumes the list of ints it is given - '
                              'its only caller, brank, passes a fresh list',
}


def _r035(ctx: Ctx) -> None:
    """Products and converters are functions of their arguments: no store through a parameter (an attribute
    cached on an operand survives an in-place update of that operand), and no memoisation."""
    from .c06 import effects
    E = effects(ctx.model)
    fis = [f for f in E.funcs.values() if f.mi.name in ('panqec.bpauli', 'panqec.bsparse') and f.ci is None
           and isinstance(f.fn, (ast.FunctionDef,)) and f.qual.count('.') == 2]
    ctx.need(len(fis) >= 25, 'R03.5', 'panqec/bpauli.py', f'only {len(fis)} functions found in bpauli/bsparse')
    for f in sorted(fis, key=lambda f: f.qual):
        if f.qual.split('.')[-1] in _INPLACE_BY_CONTRACT:      # by function name: the helpers may move between the two modules
            continue
        bad = [s_ for s_ in f.stores if any(r.startswith('P') and r[1:].isdigit() for r in s_.roots)]
        via = sorted(f.mut_params)
        ok = not bad and not via and not f.is_cached
        detail = ''
        if bad:
            detail = (f'{bad[0].how}: {norm_stmt(bad[0].node)} writes into an argument; a value kept on an operand goes '
                      f'stale when the operand is updated in place (bsparse.insert_mod2) and the caller\'s data change')
        elif via:
            detail = f'parameter(s) {[f.params[i] for i in via if i < len(f.params)]} are modified through a callee'
        elif f.is_cached:
            detail = 'memoised on arguments that are mutable arrays'
        ctx.ob('R03.5', f.site if not bad else f'{f.mi.relpath}:{getattr(bad[0].node, "lineno", 0)}',
               f'{f.qual} leaves its arguments untouched', ok, detail, key=f'{f.qual}|pure')


def run(ctx: Ctx) -> None:
    ctx.rule('R03.5', 'products and converters neither modify nor annotate their arguments', floor=25)
    ctx.rule('R03.4', 'integer <-> bvector converters are mutually inverse (finite domain, plus 80-bit vectors)', floor=3)
    ctx.rule('R03.1', 'bs_prod (dense, list, sparse; 1-D/2-D) is the GF(2) symplectic form entry by entry', floor=70)
    ctx.rule('R03.2', 'every Pauli<->bits converter encodes I=(0,0) X=(1,0) Y=(1,1) Z=(0,1)', floor=25)
    ctx.rule('R03.3', 'measure_syndrome is the symplectic product with the parity-check matrix', floor=1)
    ctx.trust('numpy dot/transpose/slicing/reshape semantics (performed on symbolic object arrays); '
              'scipy csr slicing/dot/.data/.indices semantics as modelled by pqv.symnp.MiniCSR',
              'uint8 accumulation wraps mod 256, which preserves parity')
    with ctx.part():
        _r031(ctx)
    with ctx.part():
        _r031_overlap(ctx)
    with ctx.part():
        pauli_table_sites(ctx, 'R03.2')
    with ctx.part():
        stabilizer_code_tables(ctx, 'R03.2')
    with ctx.part():
        _r033(ctx)
    with ctx.part():
        _r034(ctx)
    with ctx.part():
        _r035(ctx)
