"""C04 - success is declared iff the residual error is a stabilizer."""
from __future__ import annotations

import ast

import numpy as np

from ..interp import (NOT_HANDLED, TOP, BoundMethod, Closure, Env, Ext, Hooks, Interp, Obj, PathRaise, Unsupported, guard,
                      site_of,
                      truth)
from ..model import AnalysisError, walk_no_nested
from ..nphooks import np_name
from ..report import Ctx
from ..symnp import Entry, call_numpy, entry_array
from .simfacts import Atom, Term, TermHooks, interpret_method_terms, is_all_zero, is_any_nonzero

EXPLANATION = (
    'R04.1 truth tables: is_success and every inline copy of the success test (run_once, '
    'bposd_decoder.test_decoder, mbp_decoder.test_decoder, SplittingSimulation.get_next_error) are '
    'interpreted with the two predicates "in codespace" (A) and "logical error" (B) as free booleans; all four '
    'assignments are enumerated and the result must be A and not B (its negation for the splitting failure '
    'test). R04.2: in_codespace must be "every entry of measure_syndrome(error) is zero" and '
    'is_logical_error "some entry of logical_errors(error) is non-zero", on the same argument. R04.3: '
    'get_effective_error is interpreted on symbolic arrays for k in {1,2,3} logical qubits and 1-D / 2-D '
    'error stacks; every output row must be [X-effects | Z-effects] with X-effect = product with logicals_z '
    '(all three shape branches), and StabilizerCode.logical_errors / run_once must pass (error, logicals_x, '
    'logicals_z) so that the layout holds end to end.'
)


# ------------------------------------------------------------------- R04.1

class _H041(TermHooks):
    def __init__(self, store):
        self.store = store
        self.seen_args = []

    def call(self, it, func, args, kwargs, node, env):
        if isinstance(func, BoundMethod):
            nm = func.closure.fn.name
            if nm == 'in_codespace':
                self.seen_args.append(('A', args[0] if args else None))
                return Atom('A', it, self.store)
            if nm == 'is_logical_error':
                self.seen_args.append(('B', args[0] if args else None))
                return Atom('B', it, self.store)
        return super().call(it, func, args, kwargs, node, env)


def _truth_table_is_success(ctx: Ctx) -> None:
    m = ctx.model
    ci, fn = m.method('StabilizerCode', 'is_success')
    mi = ci.module
    site = site_of(mi, fn)
    store = {}
    hooks = _H041(store)
    it = Interp(m, hooks)
    err = Term('total_error')

    def thunk():
        return it.call_closure(Closure(fn, mi, ci), [err], {}, fn, self_obj=Obj(ci, 'code'))
    rows = {}
    outs = guard('R04.1', mi, fn)(lambda: it.explore(thunk, fresh=store.clear))
    # explore() clears the store before each run; the store after the run tells which atoms were read.
    # Re-run per path to read the assignments deterministically.
    table = _collect_table(it, thunk, store, 'R04.1', mi, fn)
    ok = all(v == (a and not b) for (a, b), v in table.items()) and len(table) == 4
    ctx.ob('R04.1', site, 'StabilizerCode.is_success truth table', ok,
           f'table (A=in codespace, B=logical error) -> success: {sorted(table.items())}; expected A and not B',
           key='StabilizerCode.is_success|table', facts={str(k): v for k, v in sorted(table.items())})
    same = all(a is err or a == err for _, a in hooks.seen_args) and hooks.seen_args
    ctx.ob('R04.1', site, 'StabilizerCode.is_success tests its own argument in both predicates', bool(same),
           f'predicates applied to {hooks.seen_args!r}', key='StabilizerCode.is_success|args')


def _collect_table(it: Interp, thunk, store: dict, rule: str, mi, fn) -> dict:
    """Enumerate paths; complete partial assignments (short-circuit) to all four rows."""
    table = {}

    def run():
        store.clear()
        v = thunk()
        return v, dict(store)
    outs = guard(rule, mi, fn)(lambda: it.explore(lambda: run()))
    for o in outs:
        if o.kind != 'return':
            raise AnalysisError(rule, site_of(mi, fn), f'success test raises on a path: {o.exc}')
        val, asg = o.value
        t = truth(val)
        if t is None:
            raise AnalysisError(rule, site_of(mi, fn), f'success value not a decided boolean: {val!r}')
        for a in ([asg['A']] if 'A' in asg else [True, False]):
            for b in ([asg['B']] if 'B' in asg else [True, False]):
                if (a, b) in table and table[(a, b)] != t:
                    raise AnalysisError(rule, site_of(mi, fn), 'inconsistent truth table')
                table[(a, b)] = t
    return table


class _HInline(TermHooks):
    """For functions containing an inline success test: everything about the
    simulation is opaque except the two predicates."""

    def __init__(self, store):
        self.store = store

    def attr(self, it, obj, name, node):
        return NOT_HANDLED

    def call(self, it, func, args, kwargs, node, env):
        if isinstance(func, BoundMethod):
            nm = func.closure.fn.name
            if nm == 'in_codespace':
                return Atom('A', it, self.store)
            if nm == 'is_logical_error':
                return Atom('B', it, self.store)
        return NOT_HANDLED


def _expr_truth_table(ctx: Ctx, rule: str, mi, fn_node, expr: ast.expr, env_atoms: dict) -> dict:
    """Truth table of a boolean expression over the atoms bound in env_atoms
    (name -> 'A' | 'B' | ('notB-term', ...))."""
    m = ctx.model
    store = {}
    it = Interp(m, TermHooks())

    def thunk():
        store.clear()
        env = Env(mi)
        for name, kind in env_atoms.items():
            env.vars[name] = Atom(kind, it, store)
        v = it.ev(expr, env)
        return v, dict(store)
    table = {}
    outs = guard(rule, mi, fn_node)(lambda: it.explore(thunk))
    for o in outs:
        if o.kind != 'return':
            raise AnalysisError(rule, site_of(mi, expr), 'success expression raises')
        val, asg = o.value
        t = truth(val)
        if t is None:
            raise AnalysisError(rule, site_of(mi, expr), f'success expression not decided: {val!r}')
        for a in ([asg['A']] if 'A' in asg else [True, False]):
            for b in ([asg['B']] if 'B' in asg else [True, False]):
                table[(a, b)] = t
    return table


def _classify_def(ctx: Ctx, mi, value: ast.expr, known: dict):
    """Classify the right-hand side of an assignment as atom A (in codespace),
    atom B (logical error), NB (no logical error), or None."""
    # direct calls
    if isinstance(value, ast.Call) and isinstance(value.func, ast.Attribute):
        if value.func.attr == 'in_codespace':
            return 'A'
        if value.func.attr == 'is_logical_error':
            return 'B'
        if value.func.attr in ('logical_errors',):
            return 'EFF'
    if isinstance(value, ast.Call) and isinstance(value.func, ast.Name) and value.func.id == 'get_effective_error':
        return 'EFF'
    return None


def home_of(m, modname, mi, fn, pred):
    """fn itself if pred(fn); otherwise the module-level function of the same module, called by name from fn (one
    level), for which pred holds: a step of a pipeline may live in a helper."""
    if pred(fn):
        return mi, fn
    for c_ in ast.walk(fn):
        if isinstance(c_, ast.Call) and isinstance(c_.func, ast.Name):
            try:
                mi2, fn2 = m.func(modname, c_.func.id)
            except Exception:
                continue
            if fn2 is not fn and pred(fn2):
                return mi2, fn2
    return mi, fn


def _inline_success_sites(ctx: Ctx) -> None:
    """run_once, the two test_decoder helpers and get_next_error: evaluate the
    inline success/failure expression as a truth table over A and B."""
    m = ctx.model
    sites = [
        ('panqec.simulation._direct_simulation', None, 'run_once', 'success', False),
        ('panqec.decoders.belief_propagation.bposd_decoder', None, 'test_decoder', 'success', False),
        ('panqec.decoders.belief_propagation.mbp_decoder', None, 'test_decoder', 'success', False),
    ]
    for modname, _, fname, var, negated in sites:
        mi, fn = m.func(modname, fname)
        site = site_of(mi, fn)
        mi, fn = home_of(m, modname, mi, fn, lambda f: any(
            isinstance(n_, ast.Assign) and len(n_.targets) == 1 and isinstance(n_.targets[0], ast.Name)
            and n_.targets[0].id == var for n_ in ast.walk(f)))
        # find assignments in order; bind names to atoms by the kind of their defining expression
        kinds = {}
        target_expr = None
        for node in ast.walk(fn):
            if isinstance(node, ast.Assign) and len(node.targets) == 1 and isinstance(node.targets[0], ast.Name):
                nm = node.targets[0].id
                k = _classify_def(ctx, mi, node.value, kinds)
                if k:
                    kinds[nm] = k
                if nm == var:
                    target_expr = node.value
        ctx.need(target_expr is not None, 'R04.1', site, f'assignment to {var} not found in {fname}')
        table = _table_with_effect_terms(ctx, mi, fn, target_expr, kinds)
        ok = len(table) == 4 and all(v == (a and not b) for (a, b), v in table.items())
        ctx.ob('R04.1', site_of(mi, target_expr), f'{fname}: inline success test truth table', ok,
               f'table (A=in codespace, B=logical error) -> {var}: {sorted(table.items())}; expected A and not B',
               key=f'{fname}|success-table', facts={str(k): v for k, v in sorted(table.items())})

    # SplittingSimulation.get_next_error keeps the new error iff decoding FAILED
    ci, fn = m.method('SplittingSimulation', 'get_next_error')
    mi = ci.module
    def _mentions(e):
        return any(isinstance(c, ast.Call) and isinstance(c.func, ast.Attribute)
                   and c.func.attr in ('is_logical_error', 'in_codespace', 'is_success') for c in ast.walk(e))
    # the failure test: an `if` / conditional expression test, or a boolean assigned to a local first
    tests = []
    # get_next_error and the methods of the class it calls through self (the test may live in a helper)
    bodies = [fn]
    for c_ in ast.walk(fn):
        if isinstance(c_, ast.Call) and isinstance(c_.func, ast.Attribute) and isinstance(c_.func.value, ast.Name) \
                and c_.func.value.id == 'self' and c_.func.attr in ci.methods and ci.methods[c_.func.attr] not in bodies:
            bodies.append(ci.methods[c_.func.attr])
    for f_ in bodies:
        for n in ast.walk(f_):
            if isinstance(n, (ast.If, ast.IfExp, ast.While)) and _mentions(n.test):
                tests.append((n, n.test, f_))
            elif isinstance(n, (ast.Assign, ast.Return)) and n.value is not None and _mentions(n.value) \
                    and isinstance(n.value, (ast.BoolOp, ast.UnaryOp, ast.Call, ast.Compare)) \
                    and not (isinstance(n, ast.Return) and f_ is fn):
                tests.append((n, n.value, f_))
    ctx.need(len(tests) >= 1, 'R04.1', site_of(mi, fn), 'failure test not found in get_next_error')
    for n, test, f_ in tests:
        table = _table_with_effect_terms(ctx, mi, f_, test, {})
        ok = len(table) == 4 and all(v == (not (a and not b)) for (a, b), v in table.items())
        ctx.ob('R04.1', site_of(mi, n), 'SplittingSimulation.get_next_error: failure test truth table', ok,
               f'table (A,B) -> failed: {sorted(table.items())}; expected not (A and not B)',
               key='SplittingSimulation.get_next_error|failure-table',
               facts={str(k): v for k, v in sorted(table.items())})
    ci2, fn2 = m.method('SplittingSimulation', '_run')
    ifs2 = [n for n in ast.walk(fn2) if isinstance(n, ast.If)
            and any(isinstance(c, ast.Call) and isinstance(c.func, ast.Attribute) and c.func.attr == 'is_success'
                    for c in ast.walk(n.test))]
    for n in ifs2:
        # `if self.code.is_success(total_error): raise` -- initial error must fail
        t = n.test
        ok = isinstance(t, ast.Call) and any(isinstance(s, ast.Raise) for s in n.body)
        ctx.ob('R04.1', site_of(ci2.module, n), 'SplittingSimulation._run: initial error rejected iff is_success', ok,
               'the initial error must be rejected exactly when it decodes successfully',
               key='SplittingSimulation._run|initial-failure')


class _EffHooks(TermHooks):
    """Interprets a boolean expression where names bound to an effective-error
    value become terms and predicate calls become atoms."""

    def __init__(self, store, kinds, defs=None):
        self.store, self.kinds = store, kinds
        self.defs = defs or {}          # local name -> [defining expressions] of the enclosing function
        self._active = set()

    def global_name(self, it, name, env):
        k = self.kinds.get(name)
        if k is None and len(self.defs.get(name, ())) == 1 and name not in self._active:
            # an intermediate local with a single definition: look through it
            self._active.add(name)
            try:
                v = it.ev(self.defs[name][0], env)
            except (AnalysisError, PathRaise, Unsupported, RecursionError):
                v = TOP
            finally:
                self._active.discard(name)
            if v is not TOP:
                return v
        if k == 'A':
            return Atom('A', it, self.store)
        if k == 'B':
            return Atom('B', it, self.store)
        if k == 'EFF':
            return Term('EFF')
        if name in ('self', 'code'):
            return Obj(None, name)
        import builtins
        if it.model.resolve(env.module, name) is None and not hasattr(builtins, name):
            return Term(name)          # a local of the enclosing function: opaque
        return NOT_HANDLED

    def attr(self, it, obj, name, node):
        if isinstance(obj, Obj) and obj.ci is None:
            if name in ('in_codespace', 'is_logical_error', 'is_success', 'logical_errors'):
                return _Pred(name, it, self.store)
            return Obj(None, f'{obj.label}.{name}')
        return NOT_HANDLED

    def call(self, it, func, args, kwargs, node, env):
        if isinstance(func, _Pred):
            if func.name == 'in_codespace':
                return Atom('A', it, self.store)
            if func.name == 'is_logical_error':
                return Atom('B', it, self.store)
            if func.name == 'logical_errors':
                return Term('EFF')
            if func.name == 'is_success':
                a, b = Atom('A', it, self.store), Atom('B', it, self.store)
                return bool(truth(a) and not truth(b))
        r = super().call(it, func, args, kwargs, node, env)
        if r is not NOT_HANDLED:
            # any(EFF != 0) is B, all(EFF == 0) is not B
            v = is_any_nonzero(r)
            if isinstance(v, Term) and v == Term('EFF'):
                return Atom('B', it, self.store)
            v = is_all_zero(r)
            if isinstance(v, Term) and v == Term('EFF'):
                return _NotAtom(Atom('B', it, self.store))
            return r
        return NOT_HANDLED


class _Pred:
    def __init__(self, name, it, store):
        self.name, self.it, self.store = name, it, store


class _NotAtom:
    def __init__(self, atom):
        self.atom = atom

    def pqv_truth(self):
        return not self.atom.pqv_truth()


def _table_with_effect_terms(ctx: Ctx, mi, fn, expr: ast.expr, kinds: dict) -> dict:
    m = ctx.model
    store = {}
    defs: dict = {}
    for node in walk_no_nested(fn):
        if isinstance(node, ast.Assign) and len(node.targets) == 1 and isinstance(node.targets[0], ast.Name):
            defs.setdefault(node.targets[0].id, []).append(node.value)
        elif isinstance(node, (ast.AugAssign, ast.For, ast.With, ast.AnnAssign)):
            for t in ast.walk(node.target if hasattr(node, 'target') else node):
                if isinstance(t, ast.Name) and isinstance(t.ctx, ast.Store):
                    defs.setdefault(t.id, []).extend([None, None])
    hooks = _EffHooks(store, kinds, defs)
    it = Interp(m, hooks)

    def thunk():
        store.clear()
        v = it.ev(expr, Env(mi))
        if isinstance(v, Term):
            # bool(np.all(eff == 0)) etc. left as a term at top level
            z = is_all_zero(v)
            if isinstance(z, Term) and z == Term('EFF'):
                v = _NotAtom(Atom('B', it, store))
            nz = is_any_nonzero(v) if isinstance(v, Term) else None
            if isinstance(nz, Term) and nz == Term('EFF'):
                v = Atom('B', it, store)
        t = truth(v)
        return t, dict(store)
    table = {}
    outs = guard('R04.1', mi, fn)(lambda: it.explore(thunk))
    for o in outs:
        if o.kind != 'return':
            raise AnalysisError('R04.1', site_of(mi, expr), f'success expression raises {o.exc}')
        t, asg = o.value
        if t is None:
            raise AnalysisError('R04.1', site_of(mi, expr),
                                f'success expression is not a boolean function of the two predicates: '
                                f'{ast.unparse(expr)}')
        for a in ([asg['A']] if 'A' in asg else [True, False]):
            for b in ([asg['B']] if 'B' in asg else [True, False]):
                table[(a, b)] = t
    return table


# ------------------------------------------------------------------- R04.2

def _r042(ctx: Ctx) -> None:
    m = ctx.model
    site, outs = interpret_method_terms(m, 'StabilizerCode', 'in_codespace', 'R04.2',
                                        {'measure_syndrome': 'syndrome'}, ['error'])
    ctx.need(len(outs) == 1 and outs[0].kind == 'return', 'R04.2', site, f'unexpected paths {outs}')
    v = is_all_zero(outs[0].value)
    ok = v == Term('syndrome', Term('error'))
    ctx.ob('R04.2', site, 'StabilizerCode.in_codespace == all(measure_syndrome(error) == 0)', ok,
           f'returns {outs[0].value!r}; expected "every entry of measure_syndrome(error) equals 0"',
           key='StabilizerCode.in_codespace|form', facts=repr(outs[0].value))
    site, outs = interpret_method_terms(m, 'StabilizerCode', 'is_logical_error', 'R04.2',
                                        {'logical_errors': 'effect'}, ['error'])
    ctx.need(len(outs) == 1 and outs[0].kind == 'return', 'R04.2', site, f'unexpected paths {outs}')
    v = is_any_nonzero(outs[0].value)
    ok = v == Term('effect', Term('error'))
    ctx.ob('R04.2', site, 'StabilizerCode.is_logical_error == any(logical_errors(error) != 0)', ok,
           f'returns {outs[0].value!r}; expected "some entry of logical_errors(error) is non-zero"',
           key='StabilizerCode.is_logical_error|form', facts=repr(outs[0].value))


# ------------------------------------------------------------------- R04.3

class _Fam:
    """A logical-operator matrix (k x 2n); only its shape and family matter."""

    def __init__(self, fam: str, k: int, n2: int = 6):
        self.fam, self.shape = fam, (k, n2)

    def __repr__(self):
        return f'logicals_{self.fam}'


class _Err:
    def __init__(self, m, n2: int = 6):
        self.shape = (n2,) if m is None else (m, n2)
        self.m = m

    def __repr__(self):
        return 'total_error'


class _H043(Hooks):
    def attr(self, it, obj, name, node):
        if isinstance(obj, (_Fam, _Err)) and name == 'shape':
            return obj.shape
        return NOT_HANDLED

    def call(self, it, func, args, kwargs, node, env):
        if isinstance(func, Closure) and getattr(func.fn, 'name', '') == 'bs_prod':
            a, b = args
            if isinstance(a, _Fam) and isinstance(b, _Err):
                sector = 'X' if a.fam == 'z' else 'Z'       # anticommuting with logical Z = X-type effect
                k = a.shape[0]
                if b.m is None:
                    return entry_array((k,), lambda j: Entry(sector, j, None))
                return entry_array((k, b.m), lambda j, i: Entry(sector, j, i))
            it.trace.append(('bad-bs_prod', repr(a), repr(b)))
            return TOP
        r = call_numpy(func, args, kwargs)
        if r is not NOT_HANDLED:
            return r
        return NOT_HANDLED


def _expected_layout(k: int, mm):
    if mm is None or mm == 1:
        i = None if mm is None else 0
        return [Entry('X', j, i) for j in range(k)] + [Entry('Z', j, i) for j in range(k)]
    return [[Entry('X', j, i) for j in range(k)] + [Entry('Z', j, i) for j in range(k)] for i in range(mm)]


def _tolist(v):
    if isinstance(v, np.ndarray):
        return v.tolist()
    return v


def _layout_via(ctx: Ctx, entry: str, k: int, mm) -> tuple:
    """Interpret the entry point on symbolic arrays, return (site, value, trace)."""
    m = ctx.model
    it = Interp(m, _H043())
    lx, lz, err = _Fam('x', k), _Fam('z', k), _Err(mm)
    if entry == 'get_effective_error':
        mi, fn = m.func('panqec.bpauli', 'get_effective_error')

        def thunk():
            return it.call_closure(Closure(fn, mi), [err, lx, lz], {}, fn)
    elif entry == 'logical_errors':
        ci, fn = m.method('StabilizerCode', 'logical_errors')
        mi = ci.module

        def thunk():
            o = Obj(ci, 'code')
            o.fields['logicals_x'] = lx
            o.fields['logicals_z'] = lz
            return it.call_closure(Closure(fn, mi, ci), [err], {}, fn, self_obj=o)
    else:
        raise AssertionError(entry)
    outs = guard('R04.3', mi, fn)(lambda: it.explore(thunk))
    return site_of(mi, fn), outs


def _r043(ctx: Ctx) -> None:
    branch_names = {(None,): 'single error', }
    for entry in ('get_effective_error', 'logical_errors'):
        for k in ((1, 2, 3, 4) if ctx.tier == 'thorough' else (1, 2, 3)):
            for mm in ((None, 1, 2, 3, 5) if ctx.tier == 'thorough' else (None, 1, 3)):
                site, outs = _layout_via(ctx, entry, k, mm)
                ctx.need(len(outs) == 1, 'R04.3', site, f'expected a single path for k={k}, m={mm}: {outs}')
                o = outs[0]
                want = _expected_layout(k, mm)
                got = _tolist(o.value) if o.kind == 'return' else f'raises {o.exc}'
                ok = (o.kind == 'return' and isinstance(o.value, np.ndarray) and got == want)
                what = f'{entry}: layout for k={k} logical qubits, ' \
                       f'{"one error" if mm is None else f"stack of {mm} error(s)"}'
                ctx.ob('R04.3', site, what, ok,
                       f'got {got!r}; expected rows [X-effect of qubits 0..k-1 | Z-effect of qubits 0..k-1] with '
                       f'X-effect = product with logicals_z: {want!r}',
                       key=f'{entry}|layout[k={k},m={mm}]',
                       facts={'layout': repr(got)})

    # run_once passes (total_error, code.logicals_x, code.logicals_z)
    m = ctx.model
    mi, fn = m.func('panqec.simulation._direct_simulation', 'run_once')

    def _eff_calls(f):
        return [c for c in ast.walk(f) if isinstance(c, ast.Call)
                and ((isinstance(c.func, ast.Name) and c.func.id == 'get_effective_error')
                     or (isinstance(c.func, ast.Attribute) and c.func.attr == 'logical_errors'))]
    mi, fn = home_of(m, 'panqec.simulation._direct_simulation', mi, fn, lambda f: bool(_eff_calls(f)))
    calls = _eff_calls(fn)
    ctx.need(len(calls) == 1, 'R04.3', site_of(mi, fn), 'run_once: effective-error computation not found')
    c = calls[0]
    if isinstance(c.func, ast.Name):
        fams = []
        bound = {}
        _, gfn = m.func('panqec.bpauli', 'get_effective_error')
        params = [a.arg for a in gfn.args.args]
        for i, a in enumerate(c.args):
            bound[params[i]] = a
        for kw in c.keywords:
            bound[kw.arg] = kw.value
        ok = (isinstance(bound.get('logicals_x'), ast.Attribute) and bound['logicals_x'].attr == 'logicals_x'
              and isinstance(bound.get('logicals_z'), ast.Attribute) and bound['logicals_z'].attr == 'logicals_z'
              and ast.unparse(bound['logicals_x'].value) == ast.unparse(bound['logicals_z'].value) == 'code')
        ctx.ob('R04.3', site_of(mi, c), 'run_once: get_effective_error(total, code.logicals_x, code.logicals_z)', ok,
               f'call is {ast.unparse(c)}; the logicals_x parameter must receive code.logicals_x and '
               f'logicals_z code.logicals_z',
               key='run_once|effective-error-args', facts=ast.unparse(c))
    else:
        ctx.ob('R04.3', site_of(mi, c), 'run_once: effective error via code.logicals_errors', True, '',
               key='run_once|effective-error-args', facts=ast.unparse(c))


def _r043_values(ctx: Ctx) -> None:
    """The logical effect itself, not only its layout: get_effective_error on fully symbolic logicals and errors
    (every X and Z bit a GF(2) variable, so logicals of mixed type as deformed codes have them) must give, entry by
    entry, the symplectic product of the error with the matching logical."""
    from .c03 import SymHooks, _sym_matrix
    from ..domains import Poly
    m = ctx.model
    mi, fn = m.func('panqec.bpauli', 'get_effective_error')
    site = site_of(mi, fn)
    n = 2

    def omega(a, r, b, s_):
        p_ = Poly.const(0)
        for i in range(n):
            p_ = p_ + Poly.var(f'{a}{r}x{i}') * Poly.var(f'{b}{s_}z{i}') + Poly.var(f'{a}{r}z{i}') * Poly.var(f'{b}{s_}x{i}')
        return p_ % 2
    for k in (1, 2):
        for mm in (None, 2):
            LX, LZ, E = _sym_matrix('lx', k, n), _sym_matrix('lz', k, n), _sym_matrix('e', mm, n)
            it = Interp(m, SymHooks())
            outs = guard('R04.3', mi, fn)(lambda: it.explore(lambda: it.call_closure(Closure(fn, mi), [E, LX, LZ], {}, fn)))
            ctx.need(len(outs) == 1 and outs[0].kind == 'return' and isinstance(outs[0].value, np.ndarray), 'R04.3', site,
                     f'get_effective_error on symbolic operands (k={k}, m={mm}): {outs!r}')
            v = outs[0].value
            rows = [v] if v.ndim == 1 else list(v)
            want = [[omega('lz', i, 'e', j) for i in range(k)] + [omega('lx', i, 'e', j) for i in range(k)]
                    for j in range(mm or 1)]
            got = [[x for x in r] for r in rows]
            ok = len(got) == len(want) and all(len(g) == len(w) and all(isinstance(a, Poly) and a == b for a, b in zip(g, w))
                                               for g, w in zip(got, want))
            ctx.ob('R04.3', site, f'get_effective_error = symplectic products with the logicals, entry by entry (k={k}, '
                                  f'{"one error" if mm is None else f"{mm} errors"}, logicals of mixed X/Z type)', ok,
                   f'got {[[repr(x) for x in r] for r in got]!r}; expected X-effect_i = omega(logicals_z[i], e), '
                   f'Z-effect_i = omega(logicals_x[i], e) with omega(a,b) = sum_j a.x_j b.z_j + a.z_j b.x_j mod 2',
                   key=f'get_effective_error|values[k={k},m={mm}]')


def run(ctx: Ctx) -> None:
    ctx.rule('R04.1', 'success <=> in codespace and no logical error (truth tables of every success test)', floor=6)
    ctx.rule('R04.2', 'in_codespace = all syndrome bits zero; is_logical_error = some logical effect bit set', floor=2)
    ctx.rule('R04.4', 'logicals / parity checks cached on the code are never modified after initialisation', floor=100)
    ctx.rule('R04.3', 'logical effect = [X-effects | Z-effects], X-effect = product with logicals_z, in every '
                      'shape branch and at every producer', floor=19)
    ctx.trust('numpy concatenate/array/transpose/reshape semantics (performed on symbolic object arrays)',
              'bs_prod(L, e) has shape (k,) for a 1-D error and (k, m) for a stack (decided in C03)')
    with ctx.part():
        _truth_table_is_success(ctx)
    with ctx.part():
        _inline_success_sites(ctx)
    with ctx.part():
        _r042(ctx)
    with ctx.part():
        _r043(ctx)
    with ctx.part():
        _r043_values(ctx)
    from .c06 import code_state_rule, frozen_rule
    with ctx.part():
        code_state_rule(ctx, 'R04.4')
    with ctx.part():
        frozen_rule(ctx, 'R04.4', 'panqec.codes')
