"""Symbolic arrays: numpy object arrays whose entries are symbols, polynomials
or tags.  numpy is used here as the analyser's own container library (exact
shape/transpose/concatenate semantics); no panqec code is executed."""
from __future__ import annotations

from typing import Any

import numpy as np

from .model import AnalysisError
from .interp import NOT_HANDLED, TOP, Ext, SliceV, register_host_type, to_host_index
from .nphooks import np_name

register_host_type(np.ndarray)
register_host_type(np.generic)

_PURE = {
    'concatenate', 'hstack', 'vstack', 'stack', 'array', 'asarray', 'reshape', 'transpose', 'zeros', 'ones',
    'zeros_like', 'hsplit', 'vsplit', 'split', 'squeeze', 'ravel', 'mod', 'dot', 'add', 'atleast_2d',
    'array_equal', 'count_nonzero', 'nonzero', 'where', 'arange', 'eye', 'shape', 'ndim', 'copy',
    'expand_dims', 'flip', 'roll', 'tile', 'repeat', 'union1d', 'setdiff1d', 'append', 'sum', 'any', 'all',
    'logical_or', 'logical_and', 'logical_not', 'logical_xor', 'min', 'max', 'amin', 'amax', 'argmin', 'argmax',
    'unique', 'sort', 'argsort', 'cumsum', 'diff', 'isclose', 'allclose', 'abs', 'floor', 'ceil', 'round',
    'minimum', 'maximum', 'prod', 'mean', 'empty', 'full', 'linspace', 'ix_', 'diag', 'outer', 'kron',
    'left_shift', 'right_shift', 'bitwise_and', 'bitwise_or', 'bitwise_xor', 'packbits', 'unpackbits', 'power',
    'uint8', 'uint16', 'uint32', 'uint64', 'int8', 'int16', 'int32', 'int64', 'uint', 'int_', 'float64', 'bool_',
    'flatnonzero', 'searchsorted', 'multiply', 'subtract', 'divide', 'floor_divide', 'remainder', 'sign', 'square',
    'ascontiguousarray', 'asfortranarray', 'asanyarray', 'atleast_3d', 'column_stack', 'row_stack', 'dstack', 'take',
    'compress', 'delete', 'insert', 'flipud', 'fliplr', 'triu', 'tril', 'identity', 'array_split', 'cumprod', 'nansum',
    'log', 'exp', 'sqrt', 'log2', 'log10', 'log1p', 'vdot', 'inner', 'matmul', 'tensordot', 'einsum', 'trace', 'count_nonzero', 'intersect1d', 'in1d', 'isin', 'bincount',
    'atleast_1d', 'select', 'choose', 'clip', 'logical_and', 'not_equal', 'equal', 'greater', 'less',
    'take_along_axis', 'swapaxes', 'moveaxis', 'empty_like', 'ones_like', 'full_like', 'greater_equal', 'less_equal',
    'argwhere', 'lexsort', 'meshgrid', 'indices', 'broadcast_to',
}


def sym_array(entries, dtype=object) -> np.ndarray:
    """Build an object ndarray from nested lists without numpy trying to
    interpret the entries."""
    def shape_of(x):
        if isinstance(x, (list, tuple)) and not getattr(x, '_is_entry', False) and not _is_entry_tuple(x):
            if len(x) == 0:
                return (0,)
            return (len(x),) + shape_of(x[0])
        return ()

    shp = shape_of(entries)
    a = np.empty(shp, dtype=dtype)

    def fill(idx, x):
        if len(idx) == len(shp):
            a[idx] = x
        else:
            for i, y in enumerate(x):
                fill(idx + (i,), y)
    fill((), entries)
    return a


def _is_entry_tuple(x) -> bool:
    return isinstance(x, Entry)


class Entry:
    """A symbolic array entry (deliberately not a sequence, so numpy never
    unpacks it)."""
    _is_entry = True

    def __init__(self, *key):
        self.key = tuple(key)

    def __eq__(self, o):
        return isinstance(o, Entry) and o.key == self.key

    def __ne__(self, o):
        return not self.__eq__(o)

    def __hash__(self):
        return hash(('Entry', self.key))

    def __repr__(self):
        return 'E' + repr(self.key)


def entry_array(shape, f) -> np.ndarray:
    a = np.empty(shape, dtype=object)
    for idx in np.ndindex(*shape):
        a[idx] = f(*idx)
    return a


def call_numpy(func, args: list, kwargs: dict) -> Any:
    """Perform a whitelisted pure numpy function on host/concrete arguments."""
    name = np_name(func)
    if name and name.endswith('.at') and name.count('.') == 1 and hasattr(np, name.split('.')[0]):
        # ufunc.at(a, indices, b): unbuffered in-place operation, performed for real on the tracked array
        uf = getattr(np, name.split('.')[0])
        if args and isinstance(args[0], np.ndarray) and not any(a is TOP for a in args[1:]) and not kwargs:
            try:
                uf.at(args[0], *[to_host_index(a) for a in args[1:]])
            except Exception as e:          # noqa
                raise AnalysisError('engine', f'numpy.{name}', f'in-place ufunc call failed in the model: {e!r}')
            return None
        raise AnalysisError('engine', f'numpy.{name}', 'in-place ufunc call with operands the analysis does not track')
    if not name or name not in _PURE:
        return NOT_HANDLED

    def bad(x, d=0):
        if x is TOP:
            return True
        if isinstance(x, (list, tuple)) and d < 3:
            return any(bad(y, d + 1) for y in x)
        return False
    if any(bad(a) for a in args) or any(bad(v) for v in kwargs.values()):
        if kwargs.get('out') is not None:
            raise AnalysisError('engine', f'numpy.{name}', 'out= array written by a call with an unknown operand')
        return TOP
    kw = {k: to_host_index(v) for k, v in kwargs.items()}
    conv = [to_host_index(a) for a in args]
    if 'dtype' in kw:
        # symbolic (object) entries cannot be cast; unknown dtype expressions are dropped as well
        if isinstance(kw['dtype'], Ext) or any(_has_object(a) for a in conv if isinstance(a, (list, tuple, np.ndarray))):
            kw.pop('dtype')
    f = getattr(np, name)
    if name in ('array', 'asarray') and conv and isinstance(conv[0], (list, tuple)):
        # keep object dtype when entries are symbolic
        flat_obj = _has_object(conv[0])
        if flat_obj:
            try:
                return np.array(_to_obj_lists(conv[0]), dtype=object)
            except Exception:
                return TOP
    try:
        return f(*conv, **kw)
    except Exception:
        return TOP


def _has_object(x) -> bool:
    if isinstance(x, np.ndarray):
        return x.dtype == object
    if isinstance(x, (list, tuple)) and not isinstance(x, Entry):
        return any(_has_object(y) for y in x)
    return not isinstance(x, (int, float, bool, str, np.generic))


def _to_obj_lists(x):
    if isinstance(x, np.ndarray):
        return x
    if isinstance(x, (list, tuple)) and not isinstance(x, Entry):
        return [_to_obj_lists(y) for y in x]
    return x


# ---------------------------------------------------------------- MiniCSR

class _DataView:
    """`.data` of a MiniCSR; supports `data %= 2` / `data % 2` and `== 1`."""

    def __init__(self, owner: 'MiniCSR', mod: int = 0):
        self.owner, self.mod = owner, mod

    def __mod__(self, m):
        return _DataView(self.owner, m)

    __imod__ = __mod__

    def _values(self):
        a = self.owner.a
        return [a[r, c] for r, c in self.owner.entries()]

    def __eq__(self, o):
        return np.array([x == o for x in self._values()], dtype=bool)

    def __len__(self):
        return len(self._values())

    __hash__ = None


def _nonzero_mask(a: np.ndarray) -> np.ndarray:
    if a.dtype == object:
        return np.array([[not _is_zero(x) for x in row] for row in a], dtype=bool).reshape(a.shape)
    return a != 0


def _is_zero(x) -> bool:
    z = getattr(x, 'is_zero', None)
    if z is not None:
        return z()
    try:
        return x == 0
    except Exception:
        return False


class MiniCSR:
    """Tiny stand-in for scipy.sparse.csr_matrix / dok_matrix over a dense 2-D
    numpy array (numeric or symbolic object entries).

    The STORAGE is modelled as scipy defines it: `store` is the list of stored
    (row, col) entries in storage order - None for the canonical form (non-zero
    entries, sorted).  `.indices`, `.data`, `.nnz`, `getnnz` talk about storage
    (explicit zeros count, order as stored); `nonzero()`, `toarray()`, slicing
    and arithmetic talk about values.  `data %= m` keeps the stored entries
    (so it leaves explicit zeros behind), `a + b` and `dot` return canonical
    matrices (scipy's binary operations drop zero results).
    """

    def __init__(self, a, store=None):
        a = np.array(a) if not isinstance(a, np.ndarray) else a
        if a.ndim == 1:
            a = a.reshape(1, -1)
        self.a = a
        self.store = None if store is None else [(int(r), int(c)) for r, c in store]

    @staticmethod
    def zeros(shape, dtype=int):
        return MiniCSR(np.zeros(shape, dtype=dtype))

    def entries(self):
        if self.store is not None:
            return list(self.store)
        r, c = np.nonzero(_nonzero_mask(self.a))
        return list(zip(r.tolist(), c.tolist()))

    def _mask(self):
        """Boolean mask of stored entries (value non-zero or explicit zero)."""
        m = np.zeros(self.a.shape, dtype=bool)
        for r, c in self.entries():
            m[r, c] = True
        return m

    def _derived(self, a, mask):
        """Matrix with values `a`, storing (sorted) the entries of `mask`; canonical when that is just the non-zeros."""
        a = np.array(a) if not isinstance(a, np.ndarray) else a
        if a.ndim == 1:
            a = a.reshape(1, -1)
        mask = np.asarray(mask, dtype=bool).reshape(a.shape)
        if (mask == _nonzero_mask(a)).all():
            return MiniCSR(a)
        r, c = np.nonzero(mask)
        return MiniCSR(a, list(zip(r.tolist(), c.tolist())))

    @property
    def shape(self):
        return self.a.shape

    @property
    def T(self):
        return self._derived(self.a.T, self._mask().T)

    @property
    def data(self):
        return _DataView(self)

    @property
    def nnz(self):
        return len(self.entries())

    def pqv_setattr(self, name, value):
        if name == 'data' and isinstance(value, _DataView) and value.owner is self and value.mod:
            ent = self.entries()
            self.a = self.a % value.mod
            canon = MiniCSR(self.a).entries()
            self.store = None if ent == canon else ent
            return
        if name == 'indices' and self.a.shape[0] == 1 and isinstance(value, np.ndarray) and value.dtype != object:
            # direct assignment of the column indices of a row matrix (bsparse.insert_mod2): the row now stores
            # exactly these columns, in this order; the values follow with the `.data` assignment (ones until then)
            cols = [int(c) for c in value.tolist()]
            if any(c < 0 or c >= self.a.shape[1] for c in cols) or len(set(cols)) != len(cols):
                raise AttributeError('indices out of range / duplicated')
            a = np.zeros(self.a.shape, dtype=int)
            for c in cols:
                a[0, c] = 1
            self.a = a
            self.store = [(0, c) for c in cols]
            if self.store == MiniCSR(self.a).entries():
                self.store = None
            return
        if name == 'data' and self.a.shape[0] == 1 and isinstance(value, np.ndarray):
            ent = self.entries()
            if len(value) != len(ent):
                raise AttributeError('data length differs from the number of stored entries')
            store = list(ent)
            for (r_, c_), v_ in zip(ent, value.tolist()):
                self.a[r_, c_] = v_
            self.store = None if store == MiniCSR(self.a).entries() else store
            return
        if name == 'indptr' and self.a.shape[0] == 1 and isinstance(value, np.ndarray):
            if [int(x) for x in value.tolist()] != [0, len(self.entries())]:
                raise AttributeError('indptr inconsistent with the stored entries')
            return
        raise AttributeError(name)

    @property
    def indices(self):
        return np.array([c for _, c in self.entries()], dtype=int)

    def nonzero(self):
        nz = _nonzero_mask(self.a)
        ent = [(r, c) for r, c in self.entries() if nz[r, c]]
        return (np.array([r for r, _ in ent], dtype=int), np.array([c for _, c in ent], dtype=int))

    def getnnz(self, axis=None):
        return self._mask().sum(axis=axis)

    def eliminate_zeros(self):
        nz = _nonzero_mask(self.a)
        if self.store is not None:
            self.store = [(r, c) for r, c in self.store if nz[r, c]]

    def sort_indices(self):
        if self.store is not None:
            self.store = sorted(self.store)

    def dot(self, o):
        ob = o.a if isinstance(o, MiniCSR) else o
        return MiniCSR(self.a.dot(ob))

    def __add__(self, o):
        return MiniCSR(self.a + (o.a if isinstance(o, MiniCSR) else o))

    def __getitem__(self, idx):
        r = self.a[idx]
        if isinstance(r, np.ndarray):
            mk = self._mask()[idx]
            pos = np.arange(self.a.size).reshape(self.a.shape)[idx]
            if r.ndim == 1:
                # row or column selection keeps 2-D like scipy
                if isinstance(idx, tuple) and len(idx) == 2 and isinstance(idx[1], (int, np.integer)):
                    r, mk, pos = r.reshape(-1, 1), mk.reshape(-1, 1), pos.reshape(-1, 1)
                else:
                    r, mk, pos = r.reshape(1, -1), mk.reshape(1, -1), pos.reshape(1, -1)
            d = self._derived(r, mk)
            if self.store is not None and d.store is not None or (self.store is not None and self.store != sorted(self.store)):
                # keep the storage order of the surviving entries within each row
                ncol = self.a.shape[1]
                rank = {rr * ncol + cc: k for k, (rr, cc) in enumerate(self.store)}
                ent = [(i, j) for i, j in zip(*np.nonzero(mk))]
                ent.sort(key=lambda e: (e[0], rank.get(int(pos[e]), 0)))
                d.store = [(int(i), int(j)) for i, j in ent]
                if d.store == MiniCSR(d.a).entries():
                    d.store = None
            return d
        return r

    def __setitem__(self, idx, v):
        mk = self._mask()
        self.a[idx] = v
        mk[idx] = True
        d = self._derived(self.a, mk & (_nonzero_mask(self.a) | mk))
        self.store = d.store

    def __iter__(self):
        for i in range(self.a.shape[0]):
            yield self[i:i + 1]

    def __len__(self):
        return self.a.shape[0]

    def toarray(self):
        return np.array(self.a)

    todense = toarray

    def tocsr(self):
        return self

    def copy(self):
        return MiniCSR(np.array(self.a), self.store)

    def astype(self, *a, **k):
        return self

    def pqv_isinstance(self, types):
        from .interp import Ext
        for t in types:
            if isinstance(t, Ext) and t.name.split('.')[-1] in ('csr_matrix', 'spmatrix', 'dok_matrix'):
                return True
        return False

    def __repr__(self):
        return f'MiniCSR({self.a.tolist()!r}' + (f', store={self.store!r})' if self.store is not None else ')')


register_host_type(MiniCSR)
register_host_type(_DataView)


def scipy_ctor(func, args, kwargs):
    """csr_matrix(...) / dok_matrix(...) constructors."""
    if not isinstance(func, Ext):
        return NOT_HANDLED
    last = func.name.split('.')[-1]
    if last not in ('csr_matrix', 'dok_matrix'):
        return NOT_HANDLED
    if not args:
        return TOP
    a = args[0]
    if isinstance(a, MiniCSR):
        return a
    if isinstance(a, np.ndarray):
        return MiniCSR(np.array(a))
    if isinstance(a, list):
        return MiniCSR(np.array(a))
    if isinstance(a, tuple) and len(a) == 2 and all(isinstance(x, (int, np.integer)) for x in a):
        return MiniCSR.zeros(a)
    if isinstance(a, tuple) and len(a) in (2, 3):
        # (data, (rows, cols)) and (data, indices, indptr): built as scipy builds them - duplicates are summed, the
        # stored entries are exactly the listed ones (explicit zeros and the given order within a row included)
        def concrete(x):
            try:
                arr = np.asarray(x)
            except Exception:
                return None
            return arr if arr.dtype != object and arr.ndim == 1 else None
        data = concrete(a[0])
        if data is None:
            return TOP
        if len(a) == 2:
            if not (isinstance(a[1], (tuple, list)) and len(a[1]) == 2):
                return TOP
            rows, cols = concrete(a[1][0]), concrete(a[1][1])
            if rows is None or cols is None or not (len(rows) == len(cols) == len(data)):
                return TOP
            order = sorted(range(len(rows)), key=lambda i: int(rows[i]))          # row-major, input order within a row
            rows, cols, data = rows[order], cols[order], data[order]
        else:
            indices, indptr = concrete(a[1]), concrete(a[2])
            if indices is None or indptr is None or len(indices) != len(data) or len(indptr) < 1:
                return TOP
            cols = indices
            rows = np.repeat(np.arange(len(indptr) - 1), np.diff(indptr).astype(int))
            if len(rows) != len(cols):
                return TOP
        shape = kwargs.get('shape')
        if shape is None:
            if len(a) == 3:
                shape = (len(a[2]) - 1, int(cols.max()) + 1 if len(cols) else 0)
            else:
                shape = (int(rows.max()) + 1 if len(rows) else 0, int(cols.max()) + 1 if len(cols) else 0)
        if not (isinstance(shape, tuple) and len(shape) == 2 and all(isinstance(x, (int, np.integer)) for x in shape)):
            return TOP
        dt = kwargs.get('dtype')
        try:
            dense = np.zeros(shape, dtype=np.dtype(dt) if dt is not None else data.dtype)
        except TypeError:
            return TOP
        store, seen = [], set()
        for r, c, v in zip(rows.tolist(), cols.tolist(), data.tolist()):
            if not (0 <= r < shape[0] and 0 <= c < shape[1]):
                return TOP
            dense[r, c] += v
            if (r, c) not in seen:
                seen.add((r, c))
                store.append((r, c))
        canonical = store == sorted(store) and all(dense[r, c] != 0 for r, c in store)
        return MiniCSR(dense, None if canonical else store)
    return TOP
