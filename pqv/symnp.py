"""Symbolic arrays: numpy object arrays whose entries are symbols, polynomials
or tags.  numpy is used here as the analyser's own container library (exact
shape/transpose/concatenate semantics); no panqec code is executed."""
from __future__ import annotations

from typing import Any

import numpy as np

from .interp import NOT_HANDLED, TOP, Ext, SliceV, register_host_type, to_host_index
from .nphooks import np_name

register_host_type(np.ndarray)
register_host_type(np.generic)

_PURE = {
    'concatenate', 'hstack', 'vstack', 'stack', 'array', 'asarray', 'reshape', 'transpose', 'zeros', 'ones',
    'zeros_like', 'hsplit', 'vsplit', 'split', 'squeeze', 'ravel', 'mod', 'dot', 'add', 'atleast_2d',
    'array_equal', 'count_nonzero', 'nonzero', 'where', 'arange', 'eye', 'shape', 'ndim', 'copy',
    'expand_dims', 'flip', 'roll', 'tile', 'repeat', 'union1d', 'setdiff1d', 'append', 'sum', 'any', 'all',
    'logical_or', 'logical_and', 'logical_not', 'logical_xor', 'min', 'max', 'amin', 'amax', 'argmin', 'argmax',
    'unique', 'sort', 'argsort', 'cumsum', 'diff', 'isclose', 'allclose', 'abs', 'floor', 'ceil', 'round',
    'minimum', 'maximum', 'prod', 'mean', 'empty', 'full', 'linspace', 'ix_', 'diag', 'outer', 'kron',
    'left_shift', 'right_shift', 'bitwise_and', 'bitwise_or', 'bitwise_xor', 'packbits', 'unpackbits', 'power',
    'uint8', 'uint16', 'uint32', 'uint64', 'int8', 'int16', 'int32', 'int64', 'uint', 'int_', 'float64', 'bool_',
    'flatnonzero', 'searchsorted', 'multiply', 'subtract', 'divide', 'floor_divide', 'remainder', 'sign', 'square',
}


def sym_array(entries, dtype=object) -> np.ndarray:
    """Build an object ndarray from nested lists without numpy trying to
    interpret the entries."""
    def shape_of(x):
        if isinstance(x, (list, tuple)) and not getattr(x, '_is_entry', False) and not _is_entry_tuple(x):
            if len(x) == 0:
                return (0,)
            return (len(x),) + shape_of(x[0])
        return ()

    shp = shape_of(entries)
    a = np.empty(shp, dtype=dtype)

    def fill(idx, x):
        if len(idx) == len(shp):
            a[idx] = x
        else:
            for i, y in enumerate(x):
                fill(idx + (i,), y)
    fill((), entries)
    return a


def _is_entry_tuple(x) -> bool:
    return isinstance(x, Entry)


class Entry:
    """A symbolic array entry (deliberately not a sequence, so numpy never
    unpacks it)."""
    _is_entry = True

    def __init__(self, *key):
        self.key = tuple(key)

    def __eq__(self, o):
        return isinstance(o, Entry) and o.key == self.key

    def __ne__(self, o):
        return not self.__eq__(o)

    def __hash__(self):
        return hash(('Entry', self.key))

    def __repr__(self):
        return 'E' + repr(self.key)


def entry_array(shape, f) -> np.ndarray:
    a = np.empty(shape, dtype=object)
    for idx in np.ndindex(*shape):
        a[idx] = f(*idx)
    return a


def call_numpy(func, args: list, kwargs: dict) -> Any:
    """Perform a whitelisted pure numpy function on host/concrete arguments."""
    name = np_name(func)
    if not name or name not in _PURE:
        return NOT_HANDLED

    def bad(x, d=0):
        if x is TOP:
            return True
        if isinstance(x, (list, tuple)) and d < 3:
            return any(bad(y, d + 1) for y in x)
        return False
    if any(bad(a) for a in args) or any(bad(v) for v in kwargs.values()):
        return TOP
    kw = {k: to_host_index(v) for k, v in kwargs.items()}
    conv = [to_host_index(a) for a in args]
    if 'dtype' in kw:
        # symbolic (object) entries cannot be cast; unknown dtype expressions are dropped as well
        if isinstance(kw['dtype'], Ext) or any(_has_object(a) for a in conv if isinstance(a, (list, tuple, np.ndarray))):
            kw.pop('dtype')
    f = getattr(np, name)
    if name in ('array', 'asarray') and conv and isinstance(conv[0], (list, tuple)):
        # keep object dtype when entries are symbolic
        flat_obj = _has_object(conv[0])
        if flat_obj:
            try:
                return np.array(_to_obj_lists(conv[0]), dtype=object)
            except Exception:
                return TOP
    try:
        return f(*conv, **kw)
    except Exception:
        return TOP


def _has_object(x) -> bool:
    if isinstance(x, np.ndarray):
        return x.dtype == object
    if isinstance(x, (list, tuple)) and not isinstance(x, Entry):
        return any(_has_object(y) for y in x)
    return not isinstance(x, (int, float, bool, str, np.generic))


def _to_obj_lists(x):
    if isinstance(x, np.ndarray):
        return x
    if isinstance(x, (list, tuple)) and not isinstance(x, Entry):
        return [_to_obj_lists(y) for y in x]
    return x


# ---------------------------------------------------------------- MiniCSR

class _DataView:
    """`.data` of a MiniCSR; supports `data %= 2` / `data % 2` and `== 1`."""

    def __init__(self, owner: 'MiniCSR', mod: int = 0):
        self.owner, self.mod = owner, mod

    def __mod__(self, m):
        return _DataView(self.owner, m)

    __imod__ = __mod__

    def __eq__(self, o):
        a = self.owner.a
        nz = a[_nonzero_mask(a)]
        return np.array([x == o for x in nz], dtype=bool)

    __hash__ = None


def _nonzero_mask(a: np.ndarray) -> np.ndarray:
    if a.dtype == object:
        return np.array([[not _is_zero(x) for x in row] for row in a], dtype=bool).reshape(a.shape)
    return a != 0


def _is_zero(x) -> bool:
    z = getattr(x, 'is_zero', None)
    if z is not None:
        return z()
    try:
        return x == 0
    except Exception:
        return False


class MiniCSR:
    """Tiny stand-in for scipy.sparse.csr_matrix / dok_matrix over a dense 2-D
    numpy array (numeric or symbolic object entries)."""

    def __init__(self, a):
        a = np.array(a) if not isinstance(a, np.ndarray) else a
        if a.ndim == 1:
            a = a.reshape(1, -1)
        self.a = a

    @staticmethod
    def zeros(shape, dtype=int):
        return MiniCSR(np.zeros(shape, dtype=dtype))

    @property
    def shape(self):
        return self.a.shape

    @property
    def T(self):
        return MiniCSR(self.a.T)

    @property
    def data(self):
        return _DataView(self)

    def pqv_setattr(self, name, value):
        if name == 'data' and isinstance(value, _DataView) and value.owner is self and value.mod:
            self.a = self.a % value.mod
            return
        raise AttributeError(name)

    @property
    def indices(self):
        return np.nonzero(_nonzero_mask(self.a))[1]

    def nonzero(self):
        return np.nonzero(_nonzero_mask(self.a))

    def getnnz(self, axis=None):
        return _nonzero_mask(self.a).sum(axis=axis)

    def dot(self, o):
        ob = o.a if isinstance(o, MiniCSR) else o
        return MiniCSR(self.a.dot(ob))

    def __add__(self, o):
        return MiniCSR(self.a + (o.a if isinstance(o, MiniCSR) else o))

    def __getitem__(self, idx):
        r = self.a[idx]
        if isinstance(r, np.ndarray):
            if r.ndim == 1:
                # row or column selection keeps 2-D like scipy
                if isinstance(idx, tuple) and len(idx) == 2 and isinstance(idx[1], (int, np.integer)):
                    r = r.reshape(-1, 1)
                else:
                    r = r.reshape(1, -1)
            return MiniCSR(r)
        return r

    def __setitem__(self, idx, v):
        self.a[idx] = v

    def __iter__(self):
        for i in range(self.a.shape[0]):
            yield MiniCSR(self.a[i:i + 1])

    def __len__(self):
        return self.a.shape[0]

    def toarray(self):
        return np.array(self.a)

    todense = toarray

    def tocsr(self):
        return self

    def copy(self):
        return MiniCSR(np.array(self.a))

    def astype(self, *a, **k):
        return self

    def pqv_isinstance(self, types):
        from .interp import Ext
        for t in types:
            if isinstance(t, Ext) and t.name.split('.')[-1] in ('csr_matrix', 'spmatrix', 'dok_matrix'):
                return True
        return False

    def __repr__(self):
        return f'MiniCSR({self.a.tolist()!r})'


register_host_type(MiniCSR)
register_host_type(_DataView)


def scipy_ctor(func, args, kwargs):
    """csr_matrix(...) / dok_matrix(...) constructors."""
    if not isinstance(func, Ext):
        return NOT_HANDLED
    last = func.name.split('.')[-1]
    if last not in ('csr_matrix', 'dok_matrix'):
        return NOT_HANDLED
    if not args:
        return TOP
    a = args[0]
    if isinstance(a, MiniCSR):
        return a
    if isinstance(a, np.ndarray):
        return MiniCSR(np.array(a))
    if isinstance(a, list):
        return MiniCSR(np.array(a))
    if isinstance(a, tuple) and len(a) == 2 and all(isinstance(x, (int, np.integer)) for x in a):
        return MiniCSR.zeros(a)
    if isinstance(a, tuple) and 'shape' in kwargs:          # (data, (rows, cols)) form: empty matrices only
        return MiniCSR.zeros(kwargs['shape'])
    return TOP
