"""Symbolic arrays: numpy object arrays whose entries are symbols, polynomials
or tags.  numpy is used here as the analyser's own container library (exact
shape/transpose/concatenate semantics); no panqec code is executed."""
from __future__ import annotations

from typing import Any

import numpy as np

from .interp import NOT_HANDLED, TOP, Ext, SliceV, register_host_type, to_host_index
from .nphooks import np_name

register_host_type(np.ndarray)

_PURE = {
    'concatenate', 'hstack', 'vstack', 'stack', 'array', 'asarray', 'reshape', 'transpose', 'zeros', 'ones',
    'zeros_like', 'hsplit', 'vsplit', 'split', 'squeeze', 'ravel', 'mod', 'dot', 'add', 'atleast_2d',
    'array_equal', 'count_nonzero', 'nonzero', 'where', 'arange', 'eye', 'shape', 'ndim', 'copy',
    'expand_dims', 'flip', 'roll', 'tile', 'repeat', 'union1d', 'setdiff1d', 'append', 'sum', 'any', 'all',
    'logical_or', 'logical_and', 'logical_not', 'logical_xor',
}


def sym_array(entries, dtype=object) -> np.ndarray:
    """Build an object ndarray from nested lists without numpy trying to
    interpret the entries."""
    def shape_of(x):
        if isinstance(x, (list, tuple)) and not getattr(x, '_is_entry', False) and not _is_entry_tuple(x):
            if len(x) == 0:
                return (0,)
            return (len(x),) + shape_of(x[0])
        return ()

    shp = shape_of(entries)
    a = np.empty(shp, dtype=dtype)

    def fill(idx, x):
        if len(idx) == len(shp):
            a[idx] = x
        else:
            for i, y in enumerate(x):
                fill(idx + (i,), y)
    fill((), entries)
    return a


def _is_entry_tuple(x) -> bool:
    return isinstance(x, Entry)


class Entry:
    """A symbolic array entry (deliberately not a sequence, so numpy never
    unpacks it)."""
    _is_entry = True

    def __init__(self, *key):
        self.key = tuple(key)

    def __eq__(self, o):
        return isinstance(o, Entry) and o.key == self.key

    def __ne__(self, o):
        return not self.__eq__(o)

    def __hash__(self):
        return hash(('Entry', self.key))

    def __repr__(self):
        return 'E' + repr(self.key)


def entry_array(shape, f) -> np.ndarray:
    a = np.empty(shape, dtype=object)
    for idx in np.ndindex(*shape):
        a[idx] = f(*idx)
    return a


def call_numpy(func, args: list, kwargs: dict) -> Any:
    """Perform a whitelisted pure numpy function on host/concrete arguments."""
    name = np_name(func)
    if not name or name not in _PURE:
        return NOT_HANDLED

    def bad(x, d=0):
        if x is TOP:
            return True
        if isinstance(x, (list, tuple)) and d < 3:
            return any(bad(y, d + 1) for y in x)
        return False
    if any(bad(a) for a in args) or any(bad(v) for v in kwargs.values()):
        return TOP
    kw = dict(kwargs)
    if 'dtype' in kw:
        kw.pop('dtype')
    f = getattr(np, name)
    conv = [to_host_index(a) for a in args]
    if name in ('array', 'asarray') and conv and isinstance(conv[0], (list, tuple)):
        # keep object dtype when entries are symbolic
        flat_obj = _has_object(conv[0])
        if flat_obj:
            try:
                return np.array(_to_obj_lists(conv[0]), dtype=object)
            except Exception:
                return TOP
    try:
        return f(*conv, **kw)
    except Exception:
        return TOP


def _has_object(x) -> bool:
    if isinstance(x, np.ndarray):
        return x.dtype == object
    if isinstance(x, (list, tuple)) and not isinstance(x, Entry):
        return any(_has_object(y) for y in x)
    return not isinstance(x, (int, float, bool, str, np.generic))


def _to_obj_lists(x):
    if isinstance(x, np.ndarray):
        return x
    if isinstance(x, (list, tuple)) and not isinstance(x, Entry):
        return [_to_obj_lists(y) for y in x]
    return x
