"""Variant table for pqv.selftest: (id, property, kind, edits, expected rule).
edits = [(relative path, old text (must occur exactly once), new text)]."""

BEM = 'panqec/error_models/_base_error_model.py'
PEM = 'panqec/error_models/_pauli_error_model.py'
SPLIT = 'panqec/simulation/_splitting_simulation.py'
SC = 'panqec/codes/base/_stabilizer_code.py'
BP = 'panqec/bpauli.py'
DIRECT = 'panqec/simulation/_direct_simulation.py'

VARIANTS = [
    # ------------------------------------------------------------------ C18
    ('c18-y-mask-eq', 'C18', 'fire',
     [(BEM, 'py * np.logical_and(error[:code.n], error[code.n:])', 'py * (error[:code.n] == error[code.n:])')],
     'R18.1'),
    ('c18-swap-px-pz', 'C18', 'fire',
     [(BEM, 'prob_vector += px * np.logical_and(error[:code.n],', 'prob_vector += pz * np.logical_and(error[:code.n],'),
      (BEM, 'prob_vector += pz * np.logical_and(np.logical_not(error[:code.n]),',
       'prob_vector += px * np.logical_and(np.logical_not(error[:code.n]),')], 'R18.1'),
    ('c18-unpack-order', 'C18', 'fire',
     [(BEM, '        pi, px, py, pz = self.probability_distribution(code, error_rate)\n\n        prob_vector',
       '        pi, px, pz, py = self.probability_distribution(code, error_rate)\n\n        prob_vector')], 'R18.1'),
    ('c18-log-of-sum', 'C18', 'fire',
     [(BEM, 'prob = np.sum(np.log(prob_vector))', 'prob = np.log(np.sum(prob_vector))')], 'R18.2'),
    ('c18-ratio-reversed', 'C18', 'fire',
     [(SPLIT, 'log_p_new_error - log_p_previous_error', 'log_p_previous_error - log_p_new_error')], 'R18.3'),
    ('c18-plain-prob-in-ratio', 'C18', 'fire',
     [(SPLIT, "            new_error, self.code, error_rate, log_output=True\n", "            new_error, self.code, error_rate\n")],
     'R18.3'),
    ('c18-z-bit-misplaced', 'C18', 'fire',
     [(SPLIT, "new_edge[self.code.n + e_index] = 1", "new_edge[e_index] = 1")], 'R18.3'),
    ('c18-silent-rename', 'C18', 'silent',
     [(BEM, '        pi, px, py, pz = self.probability_distribution(code, error_rate)\n\n        prob_vector = np.zeros(code.n)',
       '        q0, q1, q2, q3 = self.probability_distribution(code, error_rate)\n        pi, px, py, pz = q0, q1, q2, q3\n        prob_vector = np.zeros(code.n)')], None),
    ('c18-silent-reorder-terms', 'C18', 'silent',
     [(BEM, '        prob_vector += py * np.logical_and(error[:code.n], error[code.n:])\n', ''),
      (BEM, '        if log_output:\n            prob = np.sum', '        prob_vector += py * np.logical_and(error[:code.n], error[code.n:])\n        if log_output:\n            prob = np.sum')], None),
    # ------------------------------------------------------------------ C04
    ('c04-is-success-or', 'C04', 'fire',
     [(SC, 'return (self.in_codespace(total_error) and\n                not self.is_logical_error(total_error))',
       'return (self.in_codespace(total_error) or\n                not self.is_logical_error(total_error))')], 'R04.1'),
    ('c04-in-codespace-any', 'C04', 'fire',
     [(SC, 'return bool(np.all(self.measure_syndrome(error) == 0))', 'return bool(np.any(self.measure_syndrome(error) == 0))')],
     'R04.2'),
    ('c04-logical-error-all', 'C04', 'fire',
     [(SC, 'return bool(np.any(self.logical_errors(error) != 0))', 'return bool(np.all(self.logical_errors(error) != 0))')],
     'R04.2'),
    ('c04-general-k-swapped', 'C04', 'fire',
     [(BP, 'np.concatenate([effective_X[:, i], effective_Z[:, i]])', 'np.concatenate([effective_Z[:, i], effective_X[:, i]])')],
     'R04.3'),
    ('c04-families-swapped', 'C04', 'fire',
     [(BP, '    effective_Z = bs_prod(logicals_x, total_error)\n    effective_X = bs_prod(logicals_z, total_error)',
       '    effective_Z = bs_prod(logicals_z, total_error)\n    effective_X = bs_prod(logicals_x, total_error)')], 'R04.3'),
    ('c04-logical-errors-args', 'C04', 'fire',
     [(SC, 'error, self.logicals_x, self.logicals_z\n        )', 'error, self.logicals_z, self.logicals_x\n        )')], 'R04.3'),
    ('c04-run-once-ignores-codespace', 'C04', 'fire',
     [(DIRECT, 'success = bool(np.all(effective_error == 0)) and codespace', 'success = bool(np.all(effective_error == 0))')],
     'R04.1'),
    ('c04-run-once-args', 'C04', 'fire',
     [(DIRECT, 'total_error, code.logicals_x, code.logicals_z', 'total_error, code.logicals_z, code.logicals_x')], 'R04.3'),
    ('c04-splitting-keeps-success', 'C04', 'fire',
     [(SPLIT, "            if (self.code.is_logical_error(total_error)\n                    or not self.code.in_codespace(total_error)):",
       "            if (self.code.is_logical_error(total_error)\n                    and not self.code.in_codespace(total_error)):")], 'R04.1'),
    ('c04-silent-demorgan', 'C04', 'silent',
     [(SC, 'return (self.in_codespace(total_error) and\n                not self.is_logical_error(total_error))',
       'return not (self.is_logical_error(total_error) or\n                    not self.in_codespace(total_error))')], None),
    ('c04-silent-not-any', 'C04', 'silent',
     [(SC, 'return bool(np.all(self.measure_syndrome(error) == 0))', 'return not np.any(self.measure_syndrome(error) != 0)')], None),
    # (np.hstack here is NOT behaviour preserving: a (k,1) stack would interleave - the checker found that)
    ('c04-fire-hstack', 'C04', 'fire',
     [(BP, 'effective = np.concatenate([effective_X, effective_Z])', 'effective = np.hstack([effective_X, effective_Z])')], 'R04.3'),
    ('c04-silent-concat-axis', 'C04', 'silent',
     [(BP, 'effective = np.concatenate([effective_X, effective_Z])', 'effective = np.concatenate((effective_X, effective_Z), axis=0)')], None),
]
