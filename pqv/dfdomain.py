"""Abstract pandas values (column algebra) for the analysis rules.

A data frame is an opaque table; `df[key]` is a column term, column
arithmetic / comparisons / reductions build terms with structural equality
(commutative operators canonicalised), `df[cond]` is a filtered frame,
stores `df[key] = expr` are recorded.  Terms can be serialised to sympy
syntax (atomic columns and reductions become symbols) so that algebraically
equivalent rewrites are accepted.
"""
from __future__ import annotations

import ast
from typing import Any, Dict, List, Optional, Tuple

from .interp import NOT_HANDLED, TOP, SliceV


class CT:
    """Column term."""

    def __init__(self, op: str, *args):
        self.op, self.args = op, args

    def key(self):
        return (self.op,) + tuple(a.key() if isinstance(a, CT) else ('lit', repr(a)) for a in self.args)

    def __eq__(self, o):
        return isinstance(o, CT) and o.key() == self.key()

    def __hash__(self):
        return hash(self.key())

    def __repr__(self):
        if self.op == 'col':
            return f"{self.args[0]!r}[{self.args[1]!r}]"
        return f'{self.op}(' + ', '.join(map(repr, self.args)) + ')'

    # arithmetic ------------------------------------------------------------
    def _bin(self, op, o, swap=False):
        a, b = (o, self) if swap else (self, o)
        if op in ('add', 'mul', 'and', 'or'):
            a, b = sorted((a, b), key=lambda x: repr(x))
        return CT(op, a, b)

    def __add__(self, o): return self._bin('add', o)
    def __radd__(self, o): return self._bin('add', o, True)
    def __sub__(self, o): return self._bin('sub', o)
    def __rsub__(self, o): return self._bin('sub', o, True)
    def __mul__(self, o): return self._bin('mul', o)
    def __rmul__(self, o): return self._bin('mul', o, True)
    def __truediv__(self, o): return self._bin('div', o)
    def __rtruediv__(self, o): return self._bin('div', o, True)
    def __pow__(self, o): return self._bin('pow', o)
    def __and__(self, o): return self._bin('and', o)
    def __rand__(self, o): return self._bin('and', o, True)
    def __or__(self, o): return self._bin('or', o)
    def __invert__(self): return CT('not', self)
    def __neg__(self): return CT('neg', self)

    def pqv_compare(self, op, other, swapped):
        name = {'Eq': 'eq', 'NotEq': 'ne', 'Lt': 'lt', 'LtE': 'le', 'Gt': 'gt', 'GtE': 'ge'}.get(type(op).__name__)
        if name is None:
            return TOP
        if swapped:
            name = {'lt': 'gt', 'le': 'ge', 'gt': 'lt', 'ge': 'le'}.get(name, name)
        return CT(name, self, other)

    def pqv_truth(self):
        return None

    def pqv_getattr(self, name):
        if name == 'values':
            return CT('values', self)
        if name in ('iloc', 'loc', 'T'):
            return CT(name, self)
        if name in ('mean', 'sum', 'any', 'all', 'min', 'max', 'std', 'median', 'first', 'copy', 'round', 'tolist',
                    'dropna', 'drop_duplicates', 'reset_index', 'sort_index', 'sort_values', 'astype', 'apply',
                    'isna', 'notna', 'abs', 'to_numpy', 'to_list'):
            return _M(self, name)
        return TOP

    def pqv_getitem(self, idx):
        return CT('item', self, _lit(idx))


def _lit(x):
    if isinstance(x, SliceV):
        return repr(x)
    return x


class _M:
    def __init__(self, t, name):
        self.t, self.name = t, name

    def pqv_call(self, *a, **k):
        if self.name in ('copy', 'to_numpy', 'to_list', 'tolist'):
            return self.t                       # representation changes keep the column
        if self.name == 'apply':
            f = a[0] if a else k.get('func')
            t = CT('apply', self.t, _fname(f))
            t.fn, t.kw = f, dict(k)             # not part of the term's identity: kept for rules that evaluate the function
            return t
        if self.name in ('mean', 'sum', 'any', 'all', 'min', 'max', 'std', 'median', 'first', 'abs', 'isna', 'notna'):
            return CT(self.name, self.t, *[(kk, vv) for kk, vv in sorted(k.items())])
        return CT(self.name, self.t, *[_lit(x) for x in a], *[(kk, _lit(vv)) for kk, vv in sorted(k.items())])


def _fname(f) -> str:
    from .interp import Ext, Closure
    if isinstance(f, Ext):
        return f.name.split('.')[-1]
    if isinstance(f, Closure):
        fn = f.fn
        if isinstance(fn, ast.Lambda):
            return 'lambda:' + ast.unparse(fn.body)
        return getattr(fn, 'name', 'closure')
    return repr(f)


class DF:
    """Abstract data frame."""
    _n = 0

    def __init__(self, name: str, base: Optional['DF'] = None, cond: Any = None, ops: Tuple = ()):
        self.name, self.base, self.cond, self.ops = name, base, cond, ops
        self.stores: List[Tuple[Any, Any]] = []

    def __repr__(self):
        s = self.name
        if self.cond is not None:
            s += f'[{self.cond!r}]'
        for o in self.ops:
            s += f'.{o}'
        return s

    def key(self):
        return ('df', repr(self))

    def __eq__(self, o):
        return isinstance(o, DF) and repr(o) == repr(self)

    def __hash__(self):
        return hash(repr(self))

    def pqv_getitem(self, idx):
        if isinstance(idx, CT):
            return DF(self.name, self, idx if self.cond is None else CT('and', self.cond, idx), self.ops)
        if isinstance(idx, list):
            return CT('cols', self, tuple(idx))
        if isinstance(idx, str) or not isinstance(idx, (CT, DF)):
            return CT('col', self, idx)
        return TOP

    def pqv_setitem(self, idx, value):
        self.stores.append((idx, value))

    def pqv_getattr(self, name):
        if name in ('copy',):
            return _DFM(self, name)
        if name in ('dropna', 'drop_duplicates', 'reset_index', 'sort_values', 'sort_index', 'groupby', 'assign', 'drop',
                    'iterrows', 'apply', 'iloc', 'loc'):
            return _DFM(self, name)
        if name == 'shape':
            return (RowCount(self), TOP)
        if name in ('values', 'index', 'columns'):
            return CT(name, self)
        return TOP


class RowCount:
    """Number of rows of an abstract frame (len(df), df.shape[0])."""

    def __init__(self, df):
        self.df = df

    def __repr__(self):
        return f'nrows({self.df!r})'


class RowIdx:
    """The position of the generic row in `for i in range(len(df))`."""

    def __init__(self, df):
        self.df = df

    def __repr__(self):
        return 'i_row'


class _DFM:
    def __init__(self, df, name):
        self.df, self.name = df, name

    def pqv_call(self, *a, **k):
        if self.name == 'copy':
            return self.df
        desc = self.name + '(' + ', '.join([repr(_lit(x)) for x in a] + [f'{kk}={_lit(vv)!r}' for kk, vv in sorted(k.items())]) + ')'
        return DF(self.df.name, self.df.base, self.df.cond, self.df.ops + (desc,))


def to_sympy(t, syms: Dict[str, str]) -> str:
    """Serialise a column term; non-arithmetic sub-terms become symbols (recorded in syms)."""
    if isinstance(t, (int, float)):
        return repr(t)
    if isinstance(t, CT) and t.op in ('add', 'sub', 'mul', 'div', 'pow'):
        o = {'add': '+', 'sub': '-', 'mul': '*', 'div': '/', 'pow': '**'}[t.op]
        return f'({to_sympy(t.args[0], syms)} {o} {to_sympy(t.args[1], syms)})'
    if isinstance(t, CT) and t.op == 'neg':
        return f'(-{to_sympy(t.args[0], syms)})'
    r = repr(t)
    if r not in syms:
        syms[r] = f's{len(syms)}'
    return syms[r]
