"""Abstract summaries of the NumPy calls the analysed fragments use, at the
level of one array element (one qubit) or of an opaque tagged value."""
from __future__ import annotations

from typing import Any

from .model import AnalysisError
from .interp import TOP, NOT_HANDLED, Ext, truth, SliceV
from .domains import Poly, Event, Ratio, LogRatio, Bad


class Tagged:
    """f(args) for an uninterpreted function f."""

    def __init__(self, tag: str, *args):
        self.tag = tag
        self.args = args

    def __repr__(self):
        return f'{self.tag}({", ".join(map(repr, self.args))})'

    def __eq__(self, o):
        return isinstance(o, Tagged) and o.tag == self.tag and o.args == self.args

    def __hash__(self):
        return hash((self.tag, self.args))

    def pqv_getitem(self, idx):
        return Tagged('item', self, idx if not isinstance(idx, SliceV) else repr(idx))


def np_name(func) -> str:
    if isinstance(func, Ext):
        n = func.name
        for pre in ('numpy.', 'np.'):
            if n.startswith(pre):
                return n[len(pre):]
    return ''


def _b(x):
    t = truth(x)
    return TOP if t is None else t


def elementwise(name: str, args: list, kwargs: dict) -> Any:
    """Element-level semantics of a numpy function; NOT_HANDLED if unknown."""
    if kwargs.get('out') is not None or kwargs.get('where') is not None:
        # the call writes into `out` (for the elements selected by `where`): not a pure element function
        raise AnalysisError('engine', f'numpy.{name}', 'out= / where= of a numpy call is not modelled for abstract operands')
    if name == 'logical_and' and len(args) == 2:
        a, b = _b(args[0]), _b(args[1])
        if a is False or b is False:
            return False
        if a is TOP or b is TOP:
            return TOP
        return True
    if name == 'logical_or' and len(args) == 2:
        a, b = _b(args[0]), _b(args[1])
        if a is True or b is True:
            return True
        if a is TOP or b is TOP:
            return TOP
        return False
    if name == 'logical_xor' and len(args) == 2:
        a, b = _b(args[0]), _b(args[1])
        if a is TOP or b is TOP:
            return TOP
        return a != b
    if name == 'logical_not' and len(args) == 1:
        a = _b(args[0])
        return TOP if a is TOP else (not a)
    if name in ('zeros', 'zeros_like'):
        return 0
    if name in ('ones', 'ones_like'):
        return 1
    if name in ('array', 'asarray', 'copy') and len(args) >= 1:
        return args[0]
    if name == 'log' and len(args) == 1:
        a = args[0]
        if isinstance(a, Ratio):
            return LogRatio(a)
        if isinstance(a, Bad):
            return a
        return Tagged('log', a)
    if name in ('sum', 'prod', 'exp', 'sqrt', 'abs', 'mean') and len(args) >= 1:
        return Tagged(name, args[0])
    return NOT_HANDLED
