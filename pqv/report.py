"""Obligation bookkeeping, known-findings handling, evidence and exit codes."""
from __future__ import annotations

import json
import os
import re
import sys
import time
import traceback
from dataclasses import dataclass, field
from typing import Any, Callable, Dict, List, Optional

from .model import AnalysisError, Model

VERIF = os.path.dirname(os.path.dirname(os.path.abspath(__file__)))
KNOWN_FILE = os.path.join(VERIF, 'KNOWN_FINDINGS.txt')
EVIDENCE_DIR = os.path.join(VERIF, 'evidence')


@dataclass
class Obligation:
    rule: str
    site: str            # file:line
    what: str            # short description of the instance
    ok: bool
    detail: str = ''     # on failure: what is wrong
    key: str = ''        # rule|qualified construct|normalised text (line independent)
    facts: Any = None    # extracted facts (tables, labels) for evidence samples


@dataclass
class Finding:
    ob: Obligation
    known: Optional[str] = None   # text of the matching open: line


class _Part:
    def __init__(self, ctx):
        self.ctx = ctx

    def __enter__(self):
        return self

    def __exit__(self, et, ev, tb):
        if et is None:
            return False
        if issubclass(et, AnalysisError):
            self.ctx.deferred.append(ev)
            return True
        if issubclass(et, Exception):
            text = ''.join(traceback.format_exception(et, ev, tb))
            self.ctx.deferred.append(AnalysisError('internal', self.ctx.prop, 'internal exception\n' + text))
            return True
        return False


import re as _re
_LOST = _re.compile(r'(?<![A-Za-z_])TOP(?![A-Za-z_])')


class Ctx:
    """Collects obligations for one property check."""

    def __init__(self, prop: str, model: Model, tier: str, seed: int):
        self.prop = prop
        self.model = model
        self.tier = tier
        self.seed = seed
        self.obs: List[Obligation] = []
        self.notes: List[str] = []
        self.undecided: List[str] = []
        self.rules: Dict[str, str] = {}        # rule id -> one-line statement
        self.floors: Dict[str, int] = {}       # rule id -> minimum instance count
        self.trusted: List[str] = []
        self.extra: Dict[str, Any] = {}
        self.deferred: List[AnalysisError] = []   # rules that could not complete (reported after the others ran)

    def part(self):
        """`with ctx.part(): rule(ctx)` - a rule that cannot complete must not keep the other rules from
        running: its AnalysisError is kept and raised after all rules ran (a definite new violation found by
        another rule is reported first; with none, the run ends as ANALYSIS-ERROR, exit 2)."""
        return _Part(self)

    # -- declaring rules -----------------------------------------------------
    def rule(self, rid: str, text: str, floor: int = 1) -> None:
        self.rules[rid] = text
        self.floors[rid] = floor

    def ob(self, rule: str, site: str, what: str, ok: bool, detail: str = '',
           key: Optional[str] = None, facts: Any = None) -> bool:
        if rule not in self.rules:
            raise AnalysisError(rule, site, 'obligation for undeclared rule (internal error)')
        if key is None:
            key = what
        if not ok and _LOST.search(detail or ''):
            # enforced centrally: a value the analysis lost track of (TOP) is never evidence of a violation
            raise AnalysisError(rule, site, f'{what}: value not tracked by the analysis ({(detail or "")[:300]})')
        self.obs.append(Obligation(rule, site, what, bool(ok), detail, f'{rule}|{key}', facts))
        return bool(ok)

    def need(self, cond: Any, rule: str, site: str, msg: str) -> None:
        """Fail closed: the construct the rule needs is not in a recognised idiom."""
        if not cond:
            raise AnalysisError(rule, site, msg)

    def note(self, msg: str) -> None:
        self.notes.append(msg)

    def undecide(self, msg: str) -> None:
        self.undecided.append(msg)

    def trust(self, *items: str) -> None:
        for i in items:
            if i not in self.trusted:
                self.trusted.append(i)


# ----------------------------------------------------------- known findings

def load_known(path: str = KNOWN_FILE) -> Dict[str, List[dict]]:
    """open: property=<id> rule=<r> key=<key> :: <text>   /   fixed: property=<id> <commit> <text>"""
    out: Dict[str, List[dict]] = {}
    if not os.path.isfile(path):
        return out
    with open(path, encoding='utf-8') as f:
        for line in f:
            line = line.rstrip('\n')
            if not line.strip() or line.lstrip().startswith('#'):
                continue
            m = re.match(r'open:\s+property=(\S+)\s+rule=(\S+)\s+key=(.*?)\s+::\s+(.*)$', line)
            if m:
                out.setdefault(m.group(1), []).append(
                    {'rule': m.group(2), 'key': m.group(3).strip(), 'text': m.group(4).strip()})
    return out


# ------------------------------------------------------------------- driver

def run_check(prop: str, fn: Callable[[Ctx], None], root: str, tier: str, seed: int,
              explanation: str, write_evidence: bool = True, quiet: bool = False,
              selftest: Optional[Callable[[Ctx], dict]] = None) -> int:
    t0 = time.time()
    out = sys.stdout
    try:
        model = Model(root)
        ctx = Ctx(prop, model, tier, seed)
        known_keys = {f"{kf['rule']}|{kf['key']}" for kf in load_known().get(prop, [])}

        def new_failures():
            return [o for o in ctx.obs if not o.ok and o.key not in known_keys]
        try:
            fn(ctx)
            if ctx.deferred:
                raise ctx.deferred[0]
        except AnalysisError as e:
            # a rule could not complete; if definite NEW violations were already established, report those
            if not new_failures():
                raise
            ctx.note(f'analysis stopped early: {e}')
        # instance floors: a rule that matched fewer sites than confirmed by hand is a vanished anchor
        counts: Dict[str, int] = {r: 0 for r in ctx.rules}
        for o in ctx.obs:
            counts[o.rule] += 1
        has_failing = bool(new_failures())
        for r, floor in ctx.floors.items():
            if counts[r] < floor:
                if has_failing:
                    # a definite violation was found: report it; the missing instances are a consequence
                    ctx.note(f'rule {r}: only {counts[r]} instance(s) found, floor is {floor}')
                    continue
                raise AnalysisError(r, prop, f'only {counts[r]} instance(s) found, floor is {floor} '
                                             f'(vanished anchor or unrecognised idiom)')
        st = None
        if selftest is not None and tier == 'thorough' and not has_failing:
            st = selftest(ctx)
    except AnalysisError as e:
        print(f'ANALYSIS-ERROR property={prop} {e}', file=out)
        return 2
    except Exception:  # internal error: never a pass, never a violation
        tb = traceback.format_exc()
        print(f'ANALYSIS-ERROR property={prop} internal exception\n{tb}', file=out)
        return 2

    known = load_known().get(prop, [])
    failing = [o for o in ctx.obs if not o.ok]
    findings: List[Finding] = []
    used_known = set()
    for o in failing:
        k = None
        for i, kf in enumerate(known):
            if o.key == f"{kf['rule']}|{kf['key']}":
                k = kf['text']
                used_known.add(i)
                break
        findings.append(Finding(o, k))
    new = [f for f in findings if f.known is None]
    kn = [f for f in findings if f.known is not None]

    replay_dir = os.path.join(EVIDENCE_DIR, 'replay')
    replay_paths = []
    if new and write_evidence:
        os.makedirs(replay_dir, exist_ok=True)
    if not quiet:
        print(f'[{prop}] tier={tier} root={root} files={len(model.modules)} '
              f'rules={len(ctx.rules)} obligations={len(ctx.obs)} '
              f'discharged={len(ctx.obs) - len(failing)}', file=out)
        for r in sorted(ctx.rules):
            print(f'  {r}: {counts[r]} instance(s) - {ctx.rules[r]}', file=out)
        for n in ctx.notes:
            print(f'  note: {n}', file=out)
        for u in ctx.undecided:
            print(f'  UNDECIDED: {u}', file=out)
    for f in kn:
        print(f'KNOWN-FINDING: property={prop} {f.known}', file=out)
    for i, f in enumerate(new, 1):
        rp = os.path.join(replay_dir, f'{prop}-{i}.json')
        if write_evidence:
            with open(rp, 'w') as fh:
                json.dump({'property': prop, 'rule': f.ob.rule, 'site': f.ob.site, 'what': f.ob.what,
                           'detail': f.ob.detail, 'key': f.ob.key, 'facts': _jsonable(f.ob.facts),
                           'rule_text': ctx.rules.get(f.ob.rule, '')}, fh, indent=1)
        replay_paths.append(rp)
        print(f'VIOLATION property={prop} replay={rp}', file=out)
        print(f'  {f.ob.rule} {f.ob.site} {f.ob.what}\n    {f.ob.detail}\n    key={f.ob.key}', file=out)

    wall = time.time() - t0
    if write_evidence:
        _write_evidence(prop, ctx, counts, findings, explanation, wall, st)
    if not quiet and not new:
        print(f'[{prop}] OK ({wall:.2f}s)', file=out)
    return 1 if new else 0


def _jsonable(x: Any, depth: int = 0) -> Any:
    if depth > 6:
        return str(x)
    if isinstance(x, (str, int, float, bool)) or x is None:
        return x
    if isinstance(x, dict):
        return {str(k): _jsonable(v, depth + 1) for k, v in x.items()}
    if isinstance(x, (list, tuple, set, frozenset)):
        xs = list(x)
        if isinstance(x, (set, frozenset)):
            xs = sorted(xs, key=str)
        return [_jsonable(v, depth + 1) for v in xs]
    return str(x)


def _write_evidence(prop: str, ctx: Ctx, counts: Dict[str, int], findings: List[Finding],
                    explanation: str, wall: float, st: Optional[dict]) -> None:
    os.makedirs(EVIDENCE_DIR, exist_ok=True)
    nontrivial_sites = sorted({(o.rule, o.site, o.what) for o in ctx.obs})
    samples = []
    seen_rules = set()
    for o in ctx.obs:                      # one sample per rule first, then a few more
        if o.rule not in seen_rules:
            seen_rules.add(o.rule)
            samples.append({'rule': o.rule, 'site': o.site, 'instance': o.what, 'ok': o.ok,
                            'facts': _jsonable(o.facts)})
    for o in ctx.obs:
        if len(samples) >= 40:
            break
        s = {'rule': o.rule, 'site': o.site, 'instance': o.what, 'ok': o.ok, 'facts': _jsonable(o.facts)}
        if s not in samples:
            samples.append(s)
    stats = ctx.model.stats()
    cov = {
        'explanation': explanation,
        'rule': 'one case = one rule instance (rule id, source site, construct) discovered from '
                '/repo on this run; an instance is non-trivial when it carries an obligation that '
                'could fail (all listed instances do); distinct = distinct (rule, site, construct)',
        'evaluations': len(ctx.obs),
        'distinct_nontrivial': len(nontrivial_sites),
        'obligations': len(ctx.obs),
        'discharged': sum(1 for o in ctx.obs if o.ok),
        'checker_cmd': f'./check {prop} --tier {ctx.tier}',
        'trusted_base': ctx.trusted,
        'samples': samples,
        'exhaustive': True,
        'rules': {r: {'text': ctx.rules[r], 'instances': counts[r], 'floor': ctx.floors[r]}
                  for r in sorted(ctx.rules)},
        'units_analysed': stats,
        'undecided': ctx.undecided,
        'notes': ctx.notes,
        'known_findings_printed': [f.known for f in findings if f.known],
        'new_violations': [{'rule': f.ob.rule, 'site': f.ob.site, 'what': f.ob.what,
                            'detail': f.ob.detail, 'key': f.ob.key}
                           for f in findings if f.known is None],
    }
    cov.update(_jsonable(ctx.extra))
    if st is not None:
        cov['selftest'] = st
    ev = {
        'property_id': prop,
        'tier': ctx.tier,
        'seed': int(ctx.seed),
        'level': 'other',
        'coverage': cov,
        'assumptions': ctx.trusted + [
            'CPython semantics of the AST constructs interpreted by the analysers',
            'static necessary conditions only: a tree can satisfy every rule and still '
            'violate the behavioural property numerically',
        ],
        'wall_s': round(wall, 3),
        'violations': sum(1 for f in findings if f.known is None),
    }
    path = os.path.join(EVIDENCE_DIR, f'{prop}.json')
    tmp = path + '.tmp'
    with open(tmp, 'w') as f:
        json.dump(ev, f, indent=1)
    os.replace(tmp, path)
