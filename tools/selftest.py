#!/venv/bin/python
"""tools/selftest.py [property] - run the variant table against scratch copies."""
import os
import sys
HERE = os.path.dirname(os.path.dirname(os.path.abspath(__file__)))
sys.path.insert(0, HERE)
sys.dont_write_bytecode = True
from pqv.selftest import run_selftest  # noqa

if __name__ == '__main__':
    prop = sys.argv[1] if len(sys.argv) > 1 else None
    r = run_selftest(os.environ.get('PQV_ROOT', '/repo'), prop)
    print(f"variants={r['variants']} passed={r['passed']} fire={r.get('fire')} silent={r.get('silent')}")
    for f in r['failed']:
        print('FAILED', f['id'], f['kind'], f['why'])
    sys.exit(1 if r['failed'] else 0)
