# Replay of defect 25 (C16): run with /venv/bin/python from /repo at a commit before 1c06068 -> AssertionError;
# at 1c06068 or later it passes. Documentation only - no check depends on it (the deciding step is R16.4, static).
import numpy as np
from panqec.analysis import get_fit_params, fit_function
# the caller's best-fit parameters are handed to get_fit_params as the starting point of a bootstrap refit
p = np.repeat(np.linspace(0.098, 0.128, 8), 3)
d = np.tile([4., 6., 8.], 8)
true = [0.1, 1.0, 0.3, 1.5, 0.5]
f = fit_function((p, d), *true)
params_opt = np.array([0.1, 1.0, 0.3, 1.5, 0.5])
before = params_opt.copy()
# a resample that misses the two lowest rates: the starting threshold 0.1 lies outside [min p, max p] of the resample
mask = p > 0.103
get_fit_params(p[mask], d[mask], f[mask], params_0=params_opt)
print('params_opt before', before, 'after', params_opt)
assert np.array_equal(before, params_opt), 'get_fit_params modified the parameters it was given as a starting point'
