#!/bin/bash
# tools/tryref.sh <diff> - a behaviour-preserving diff must leave every check silent
f=$1
out=$(/verif/tools/try_patch.sh $f all 2>&1 | grep -v conda | grep "^VIOLATION\|^ANALYSIS-ERROR\|DOES NOT APPLY\|key=" | cut -c1-260)
echo "=== $f: $(echo "$out" | grep -c '^VIOLATION') violation(s), $(echo "$out" | grep -c '^ANALYSIS-ERROR') analysis error(s)"
echo "$out" | grep "key=\|ANALYSIS-ERROR\|DOES NOT" | head -6
