#!/venv/bin/python
"""Regenerates /verif/MANIFEST.json from the table below (kept in one place so
the manifest stays valid and in step with the rule modules)."""
import json
import os

HERE = os.path.dirname(os.path.dirname(os.path.abspath(__file__)))

BASELINE_OFF = ("cd /repo && /venv/bin/python -m pytest -ra -q -p no:cacheprovider --timeout=900 "
                "--continue-on-collection-errors")

TRUST = ("Static necessary conditions only (source of /repo/panqec parsed with ast; panqec is never imported or "
         "run). Trusted: CPython semantics of the interpreted AST fragments, NumPy/SciPy view-copy and "
         "elementwise semantics as tabulated in pqv/, third-party decoders (PyMatching, ldpc) solving the "
         "problem they are handed. ")

CLAIMS = {
    'C18': dict(
        technique='abstract interpretation over a finite Pauli/bit domain (own AST interpreter), symbolic '
                  'linear forms; path enumeration of the Metropolis step',
        text='Decides from source, for every qubit value (x,z) in {0,1}^2 and both output forms, that '
             'error_probability multiplies exactly the channel probability of the Pauli encoded by (x,z) '
             '(masks partition I,X,Y,Z), that log and product forms read the same vector, and that the '
             'splitting step uses log-likelihood differences of old/new error at one rate with a single-qubit '
             'proposal of non-zero probability. Exhaustive over the abstract domain, all sizes and rates at '
             'once; not a numerical test.',
        note=TRUST + 'Independence across qubits is the np.prod/np.sum over the per-qubit vector (trusted).',
        ref='DESIGN.md section 3, C18'),
}

CLAIMS.update({
    'C02': dict(
        technique='partial evaluation of the matrix/BSF converters on an abstract 4-qubit code; evaluation of the '
                  'CSS block selectors on an asymmetric abstract check matrix; taint search for hash-ordered '
                  'iteration in all order-defining functions',
        text='Partial claim. Decides: rows of the parity-check matrix are the BSF image of get_stabilizer in '
             'coordinate order (X->i, Z->n+i, Y->both, mod 2); to_bsf/from_bsf are inverse on dense and sparse '
             'rows; x/z row masks, Hx/Hz, syndrome parts and is_css use the right block and mask (asymmetric '
             'abstract matrix, so swaps invisible on symmetric codes show); no hash-ordered container of strings '
             'feeds qubit/stabilizer/logical order in the base class or any of the 16 code classes. Not decided: '
             'coordinates distinct/disjoint, supports non-empty, arbitrary user subclasses.',
        note=TRUST + 'MiniCSR models the scipy.sparse operations used (slicing, boolean row selection, getnnz, '
                     'nonzero, .data %= 2). Sets of ints/int-tuples are process independent in CPython.',
        ref='DESIGN.md section 3, C02'),
    'C03': dict(
        technique='abstract interpretation of bs_prod on symbolic GF(2)-polynomial matrices (all shape and '
                  'representation combinations); constant folding of every Pauli converter over the finite '
                  'Pauli domain',
        text='Partial claim. Decides: every entry of bs_prod(a,b) equals sum_i a.x_i b.z_i + a.z_i b.x_i mod 2 as '
             'a polynomial identity, for dense arrays, lists and sparse rows, 1-D and 2-D operands, including '
             'overlaps >= 2 and equal arguments (so bilinearity, symmetry, omega(a,a)=0 and linearity of the '
             'syndrome follow for all sizes); all 30 Pauli<->bits converter instances agree on I,X,Y,Z = '
             '00,10,11,01, sparse rows in every storage layout scipy allows (unsorted column indices, explicitly stored '
             'zeros); integer converters inverse incl. 80-bit vectors; measure_syndrome is that product with H; products and '
             'converters never modify or annotate their arguments (effect analysis). Not decided: brank.',
        note=TRUST + 'numpy dot/slicing/reshape semantics are used on symbolic object arrays; uint8 wrap '
                     'preserves parity.',
        ref='DESIGN.md section 3, C03'),
    'C04': dict(
        technique='truth-table enumeration of every success test by abstract interpretation with free boolean '
                  'atoms; term normalisation of the two predicates; symbolic-array interpretation of the '
                  'logical-effect layout',
        text='Decides: is_success, run_once, the two test_decoder helpers and the splitting failure test are '
             'exactly (in codespace) and not (logical error) (resp. its negation); in_codespace is "all syndrome '
             'bits zero", is_logical_error "some effect bit set", on the same argument; get_effective_error and '
             'logical_errors lay out [X-effects | Z-effects] with X-effect = product with logicals_z for k=1,2,3 '
             'and single/stacked errors (all three shape branches), and run_once passes the families in order. '
             'Assumes code validity (C01) for "commutes with all logicals = product of generators".',
        note=TRUST,
        ref='DESIGN.md section 3, C04'),
})

CLAIMS.update({
    'C05': dict(
        technique='sector-typed abstract interpretation of decoder constructors and decode methods; registry/name '
                  'table agreement; lint for scalar conversion of sized NumPy draws',
        text='Partial claim. Decides: allowed_codes names exist as exported registered classes and id is the class '
             'name; for Matching (3 configurations), BP-OSD (CSS/non-CSS, channel update on/off), union-find and both '
             'sweep-match decoders every solver is built on a check matrix of the code, gets the syndrome of the same '
             'rows, and its result lands in the half it corrects; decode returns a length-2n [X|Z] vector; the two '
             'tie-break draws are converted to scalars without raising; no memoised function keyed on a code object reads '
             'what deform() changes on it; the XCube matching decoder uses every lattice extent for the axis it belongs to '
             '(extents replaced by axis letters, evaluated per projection axis). Not decided: that PyMatching / ldpc / the '
             'union-find implementation actually solve H c = s (quantifies over solver output).',
        note=TRUST + 'XCubeMatchingDecoder and MBP are outside the pairing rule (DESIGN.md C05).',
        ref='DESIGN.md section 3, C05'),
    'C06': dict(
        technique='whole-package effect and alias analysis with interprocedural summaries (fix-point); typestate '
                  'check of ldpc objects over interpreted decode paths',
        text='Decides for all 9 decoder classes and everything reachable from decode: no store through the syndrome '
             'argument or any view of it (directly or via callees); no store anywhere in the package through arrays '
             'handed out by the lru_cached probability_distribution; every write to state outliving the call is a '
             'guarded lazy initialisation; per call and per ldpc object, priors are reset before decode and results '
             'read after it; get_initial_state copies. This covers every call history because it excludes the '
             'mechanisms by which one call can influence the next.',
        note=TRUST + 'Trusted: third-party decode()/update_channel_probs() do not write their arguments and '
                     'PyMatching decoding is stateless; the sweep tie-break generator may advance (allowed).',
        ref='DESIGN.md section 3, C06'),
    'C07': dict(
        technique='abstract interpretation over an event algebra on {I,X,Y,Z} and exact polynomials; partial '
                  'evaluation of the inverse-CDF loop on boundary variates',
        text='Partial claim. Decides: probability_distribution is (1-p, r_x p, r_y p, r_z p) in (I,X,Y,Z) order, '
             'permuted per qubit by the code\'s table; directions must sum to 1; generate pairs each letter with its '
             'own probability, uses the caller\'s generator and pauli_to_bsf; fast_choice is the inverse CDF '
             'including boundaries and zero-probability options; matching weights, BP-OSD priors (incl. [z|x] order) '
             'and the conditional update are the stated marginals/conditionals. Not decided: sampled frequencies and '
             'independence (statistical).',
        note=TRUST,
        ref='DESIGN.md section 3, C07'),
    'C08': dict(
        technique='abstract interpretation of all 13 get_deformation methods over unknown locations; interpretation '
                  'of StabilizerCode.deform through call histories on an abstract code; symbolic interpretation of the '
                  'noise-side permutation',
        text='Decides: every table on every path is a permutation of X,Y,Z of the advertised family; Hadamard exactly '
             'when qubit axis == chosen axis, invalid axes rejected, advertised = accepted names; deform maps '
             'stabilizers and both logical families through the table of the last deformation with its kwargs, always '
             'from the undeformed operators, and every lazily cached property equals that of a freshly deformed '
             'object regardless of what was read before; deformed noise is p_new[P] = p_old[D(P)] with snapshot reads; '
             'apply_deformation is the Hadamard on the flagged indices. Preservation of commutation/rank then follows '
             'from uniform per-qubit relabelling.',
        note=TRUST + 'copy(MethodType(bound method, obj)) re-resolves the attribute at copy time (modelled).',
        ref='DESIGN.md section 3, C08'),
    'C09': dict(
        technique='sector-typed abstract interpretation (event algebra) of get_weights and the matching decoders',
        text='Partial claim: only the clauses that make the matcher solve the right weighted problem - the matcher on '
             'Hz is weighted by -log odds of the X-flip marginal and receives the Z-row syndrome, its result fills the X '
             'half (dually Hx); sweep-match adds a Z-only sweep correction to an X-only matching. Minimum-weight '
             'optimality, union-find and sweep correctability are NOT decided (solver output).',
        note=TRUST + 'PyMatching returns a minimum-weight matching for the weights it is given.',
        ref='DESIGN.md section 3, C09'),
    'C13': dict(
        technique='evaluation of registry literals; partial evaluation of the range expansion on tagged '
                  'specifications with distinct axis sizes; symbolic interpretation of constructors and params',
        text='Decides: every registry key is the name of its class and register_* use the class\'s own name; '
             'expand_input_ranges and get_simulations yield exactly the Cartesian product (2x3x2x5 tagged spec, dict '
             'and list parameter forms, list of ranges, explicit runs), each object built from its own parameters and '
             'each decoder with its simulation\'s code/noise/rate (for the splitting method: decoder i stays with '
             'error_rates[i] whatever the order of the rates); a name registered again is rebound; expanding the same '
             'specification object twice gives the same simulations; params of all 26 code/decoder/noise classes report '
             'exactly the constructor arguments; recorded inputs name id/params of the held objects. Value-level '
             'equality of re-instantiated objects is not decided.',
        note=TRUST,
        ref='DESIGN.md section 3, C13'),
})

CLAIMS.update({
    'C10': dict(
        technique='path-enumerating abstract interpretation of sweep_move (flip/toggle pairing); residue-class '
                  '(mod 4) abstract interpretation of code geometry and flip_edge; wrap-axis agreement',
        text='Decides for both sweep decoders: every flip_edge is paired in the same iteration with one mod-2 toggle of '
             'the correction at the same edge (assignment is not a toggle), corrections are Z-only and decode returns '
             'to_bsf of them; for every edge residue class of Toric3D/Planar3D (cubic decoder) and '
             'RotatedPlanar3D/RotatedToric3D (rotated decoder) flip_edge toggles exactly the faces whose support '
             'contains the edge (transpose relation, all sizes at once in the bulk), toggles are s -> 1-s under an '
             'is_stabilizer guard, and periodic axes of the code are wrapped by the decoder. One known finding '
             '(rotated decoder x RotatedToric3DCode: no wrap). Not decided: termination, step bounds.',
        note=TRUST + 'Bulk analysis; boundaries are delegated to the is_stabilizer/is_qubit filters whose presence is '
                     'checked.',
        ref='DESIGN.md section 3, C10'),
    'C11': dict(
        technique='term-level abstract interpretation of run_once and _run; whole-package call-graph reachability of '
                  'global random generators',
        text='Partial claim. Decides: the recorded dictionary binds error/syndrome/correction/effective_error/codespace '
             'to generate -> measure -> decode -> (correction+error) mod 2 -> classify, with the supplied generator '
             'handed down; _run appends exactly one value per trial to each per-trial list and increments n_runs once '
             '(from empty and from loaded state); get_results computes n_fail, n_runs, n_fail/n_runs and the standard '
             'error; nothing reachable from _run draws from a process-global generator when an rng is supplied. Not '
             'decided: unbiasedness against the exact failure probability, bit-for-bit equality of third-party decoders.',
        note=TRUST,
        ref='DESIGN.md section 3, C11'),
    'C12': dict(
        technique='must-pass-through / who-may-write checks on the save path; abstract interpretation of resume '
                  'identity, result loading, the batch loop (over loaded-count configurations) and the interrupt handler',
        text='Partial claim. Decides: the results file is never opened in a truncating mode and is replaced by os.replace '
             'from a sibling temporary on every normal exit; no other writer in the simulation package; (data, path) '
             'order at every save_json call; a stored record is adopted only on equality of the whole inputs (code, '
             'noise, decoder, rate); loading assigns (never extends) own keys; every trial is run(1) under n_results < '
             'n_trials, all simulations end at exactly the target and the last save follows the last trial (54 '
             'configurations of target/loaded counts/save frequency); interrupted saves are repeated and re-raised. '
             'The destination is never deleted before the replace; for both simulation classes the record a fresh object '
             'writes is recognised again after a JSON round trip and every list the trial loop appends to is still a list '
             'after loading; nothing reachable from a memoised function reads files. '
             'Not decided: byte-offset crash enumeration (os.replace atomicity is trusted).',
        note=TRUST,
        ref='DESIGN.md section 3, C12'),
    'C14': dict(
        technique='structural quotient/remainder pairing (value numbering on the straight-line split); injectivity of '
                  'task naming; bounded partial evaluation of run_parallel with I/O replaced by recorders',
        text='Partial claim. Decides structurally that each remainder added to a per-share quotient is the remainder of '
             'the same division and goes to one share, and that result/progress file names depend injectively on the '
             'task index. Additionally (bounded, not a proof) interprets the whole function for every configuration up '
             'to a bound: trials conserved per input, >= 1 trial and own files per task, nothing raises. The unbounded '
             'integer arithmetic is not decided.',
        note=TRUST + 'glob returns the same order on every node of one run.',
        ref='DESIGN.md section 3, C14'),
    'C15': dict(
        technique='table agreement writer/reader; sympy normal forms of the estimator formulas; provenance (def-use) of '
                  'every *_se column; symbolic-array interpretation of the sector counts',
        text='Decides: per-trial columns written by the simulator = columns concatenated by aggregate, additive columns '
             'summed, identity columns only taken with first(); group-by key = full identity, sorted; n_fail, p_est, '
             'standard error sqrt(p(1-p)/(n+1)) (all five sites), word error rate and its propagated error as algebraic '
             'identities; every *_se column derives from the standard-error function and no estimate column does; '
             'count_fails = sum of the sector block over in-codespace rows, single-qubit patterns and columns; all '
             'containers end in read_entry which flattens merged lists. Not decided: pandas semantics, duplicate paths.',
        note=TRUST + 'sympy (tooling venv) decides the identities; a violation is reported only with a numeric witness.',
        ref='DESIGN.md section 3, C15'),
    'C16': dict(
        technique='structural checks of the threshold summary and ordering; partial evaluation of get_fit_status on '
                  'single-fault entries; sympy identity of the ansatz siblings',
        text='Partial claim: recovery of a planted threshold is numerical and NOT decided. Decided: threshold and interval '
             'are median and q/1-q quantiles (q <= 1/2) of one bootstrap column; rows/parameter sets/crossover table are '
             'sorted and the bootstrap generator is seeded with a constant (order independence by construction); '
             'fit_status is success exactly for a valid fit inside the data range and fit_found mirrors it; fit_function, '
             'quadratic and rescale_prob are the documented ansatz with parameters in fit order and curve_fit is called '
             'on (p, d) columns of the truncated table.',
        note=TRUST,
        ref='DESIGN.md section 3, C16'),
    'C19': dict(
        technique='loop-carried dependence of written paths; arange stop-factor rule; exact rational evaluation of the '
                  'direction; end-to-end partial evaluation generate_input -> get_simulations with recorders',
        text='Decides: the file written inside the bias-ratio loop has a path depending on the loop variable; the '
             'inclusive range stops a sub-step after max (plus 12 decimal-grid evaluations); the direction for each '
             'axis/ratio is (eta/(1+eta), rest split equally), exactly summing to 1, inf handled; for two complete '
             'requests the generated specifications, read back by get_simulations, are exactly sizes x rates per bias '
             'ratio with the requested classes, the right direction per file and constructor-compatible parameters. Not '
             'decided: floating-point values of arbitrary progressions.',
        note=TRUST,
        ref='DESIGN.md section 3, C19'),
    'C20': dict(
        technique='string-set abstract interpretation of stabilizer_type vs the JSON data file; evaluation of the menu '
                  'handlers; interpretation of the data handlers with library classes replaced by recorders',
        text='Partial claim (main.js not analysed). Decides for all 16 GUI codes and both pictures that every stabilizer '
             'type string has a complete drawing entry with known colours, the code table lists every library class '
             'once, decoders offered = decoders declaring support, deformations offered = advertised names, and that '
             'code-data / decode / new-errors responses carry stabilizer_matrix, logicals and representations of the same '
             '(deformed) instance in index order, build noise model and decoder from the request with accepted keyword '
             'arguments and return the halves of decode(). Three known findings (empty rotated tables of the 2-D colour '
             'codes).',
        note=TRUST + 'gui-config.json is read as data; Flask routing is trusted.',
        ref='DESIGN.md section 3, C20'),
})

NOT_APPLICABLE = {
    'C01': 'validity of a code (commutation, anticommutation pattern, GF(2) rank) is matrix algebra over every '
           'lattice size: a statement about runtime values with no clause visible in the shape of the code; the '
           'one structural clause (deformation is a uniform per-qubit permutation) is decided under C08',
    'C17': 'true distance is a minimum over exponentially many operators; no structural clause exists for a '
           'static rule to decide',
}

PENDING = 'static check under construction in this session (see DESIGN.md section 3); not claimed until its rules run clean'

ALL = [f'C{i:02d}' for i in range(1, 21)]


# obligations added after the fourth seeding round and the third mutation run (DESIGN.md section 3.1)
ADDENDA = {
    'C02': ' Also: nothing shared between code objects (module-level container, mutable default) is written by a member of the code classes, except a memo whose key determines the value.',
    'C03': ' Also: dense operands of every pair of integer dtypes (uint64 with a signed type is promoted to float64).',
    'C04': ' Also: no store through a memoised value in panqec.codes.',
    'C05': ' Also: a sector left as a constant zero vector is an unfilled half; no store through memoised channel data in error models and decoders.',
    'C06': ' Also: the ldpc decoders are configured without a random schedule (constructor keywords and attribute stores modelled; unknown options undecided).',
    'C07': ' Also: the symbolic channel is evaluated for the generic direction and the three families with two equal rates; weights on faces and vertices of the simplex (a zero marginal has a heavy finite or infinite weight, never nan). Which generator supplies the uniform variate is C11, not this property.',
    'C08': ' Also: deform again with the same name (other keyword value, keyword dropped, same request) gives the result of the last request; direction families as in C07.',
    'C09': ' Also: the distribution the weights are computed from is the deformed channel (shared with C08); decoders of this property keep no state between decode calls.',
    'C10': ' Also: every limit or wrap of a coordinate uses the extent of the same axis; sweep_move handles every combination of excited faces and every value its tie-break can draw (no lookup error).',
    'C11': ' Also: every call, reachable from _run, of a function with an optional generator parameter passes that parameter.',
    'C13': ' Also: specifications with the same values in other roles (permuted sizes, one number under two names); mutable default arguments modified in place are shared state.',
    'C14': ' Also: with --delete-existing no node deletes the result file of a task of the same run (nodes starting one after the other on a shared abstract file system); a task starting from nothing saves exactly its share, a share of one trial included.',
    'C15': ' Also: read_entry keeps records whatever their trials recorded; n_fail written as a per-row function is decided on independent mixes of trial kinds; every per-group frame put side by side is indexed by the group key.',
    'C16': ' Also: the table the fit and bootstrap read (n_fail, p_est, each row with the code of its own group) as in C15.',
    'C18': ' Also: error_probability as resolved on the concrete noise class equals the product / log-sum of the per-qubit channel of the same object for directions with and without equal rates; the proposal vector has length 2n.',
    'C19': ' Also: sizes that are permutations of each other stay different sizes; a definite raise on a concrete request is reported.',
    'C20': ' Also: code-data requests at both ends of the lattice-size menu of main.js (read as data) with coprime dimensions.',
}
for _k, _v in ADDENDA.items():
    CLAIMS[_k]['text'] = CLAIMS[_k]['text'] + _v


def main():
    checks = []
    for pid in ALL:
        if pid in CLAIMS:
            c = CLAIMS[pid]
            checks.append({
                'property_id': pid,
                'quick_cmd': f'./check {pid} --tier quick',
                'thorough_cmd': f'./check {pid} --tier thorough',
                'evidence_file': f'/verif/evidence/{pid}.json',
                'replay_cmd_template': f'./check {pid} --replay {{path}}',
                'engine': 'pqv',
                'level_claimed': {'category': 'other', 'text': c['text'], 'design_ref': c['ref']},
                'level_note': c['note'],
                'technique': 'static analysis: ' + c['technique'],
            })
    na = []
    for pid in ALL:
        if pid in CLAIMS:
            continue
        na.append({'property_id': pid, 'reason': NOT_APPLICABLE.get(pid, PENDING)})
    man = {
        'version': 1,
        'setup_cmd': "/venv/bin/python -c \"import ast, json, sys; sys.path.insert(0, '/verif'); "
                     "import pqv.model, pqv.interp, pqv.report; print('pqv ready')\"",
        'hooks': {
            'guard': 'PANQEC_VERIF',
            'enable': 'not used: static analysis needs no instrumentation of /repo; checks read the working tree',
            'baseline_off_cmd': BASELINE_OFF,
            'source_commits': [],
            'add_only': True,
        },
        'engines': [{
            'name': 'pqv',
            'path': '/verif/pqv',
            'serves_properties': sorted(CLAIMS),
            'kind_free_text': 'repository-specific static analyser: ast program model, class-hierarchy call '
                              'resolution, abstract interpreter with pluggable domains, statement CFG, effect '
                              'and alias analysis, table/registry agreement checks',
        }],
        'checks': checks,
        'not_applicable': na,
        'notes': 'Technique family: static analysis only. Exit 0 = held (KNOWN-FINDING lines possible), '
                 'exit 1 = VIOLATION lines, exit 2 = ANALYSIS-ERROR (analysis could not be trusted). '
                 'Known findings: /verif/KNOWN_FINDINGS.txt.',
    }
    with open(os.path.join(HERE, 'MANIFEST.json'), 'w') as f:
        json.dump(man, f, indent=1)
        f.write('\n')
    print(f'{len(checks)} checks, {len(na)} not_applicable')


if __name__ == '__main__':
    main()
