#!/venv/bin/python
"""Writes seeded/<id>/meta.json for every kept seeded change and regenerates the table in DESIGN.md.
`caught_by` is measured, not asserted: the checks are run against a scratch copy with the patch applied."""
import json
import os
import re
import subprocess
import sys

HERE = os.path.dirname(os.path.dirname(os.path.abspath(__file__)))
SEEDS = {
    # id: (property, what it breaks, what it needs to manifest, note on strengthening)
    'C02-deform-stale-row-masks': ('C02', 'deform() no longer resets the X/Z row masks: is_css/Hx/Hz are cut with stale masks',
                                   'read is_css/Hx/x_indices on a CSS code, then deform the same object', ''),
    'C02-memoised-get-stabilizer': ('C02', 'lru_cache on Color666ToricCode.get_stabilizer while deform rewrites the returned dict in place',
                                    'deformed colour code; second call of get_stabilizer(loc)',
                                    'missed at first: effect analysis extended to nested functions and to the saved _get_undeformed_* methods; frozen rule applied to panqec.codes (R02.5, R08.3)'),
    'C03-sparse-mixed-operands-swapped': ('C03', '_bs_prod_sparse swaps operands for a dense left operand: product matrix transposed',
                                          'dense (>=2 rows) x sparse (>=2 rows), non-symmetric product', ''),
    'C03-int-conversion-uint64-overflow': ('C03', 'bvector_to_int through a uint64 dot product wraps beyond 64 bits',
                                           'operator on >= 33 qubits',
                                           'missed at first (exit 2: numpy scalar constructors not interpreted; only 2-qubit vectors tried): 80-bit vectors added (R03.4)'),
    'C04-distance-mutates-logicals': ('C04', 'd property ORs the Z half into the X half of the cached logicals through a view',
                                      'read code.d, then classify a stabilizer',
                                      'missed at first: code-state rule added (R04.4, R02.5)'),
    'C04-success-precedence': ('C04', 'run_once: bool(not np.any(effective_error) & codespace) - precedence makes out-of-codespace shots successes',
                               'a decoder that leaves the codespace',
                               'first run ended in exit 2 (bitwise & on booleans not interpreted); interpreter extended, now R04.1'),
    'C06-xcube-asarray-alias': ('C06', 'np.asarray(syndrome, dtype=int) aliases int64 inputs; decode then zeroes the caller\'s array',
                                'syndrome array already int64', ''),
    'C06-uf-support-reused': ('C06', 'UnionFindDecoder keeps its Support objects and resets them incompletely',
                              'two decodes on one decoder where an earlier cluster root recurs', ''),
    'C07-deformation-without-snapshot': ('C07', 'noise-side permutation in place without the snapshot: Z reads the overwritten X',
                                         'named deformation with r_x != r_z, Z side / normalisation', ''),
    'C07-get-weights-inplace-on-cache': ('C07', 'get_weights does px += py on the arrays held by the lru_cache',
                                         'r_y > 0 and a second use of the same (model, code, p)', ''),
    'C08-deform-captures-current-methods': ('C08', 'deform wraps the current (already deformed) methods instead of the saved undeformed ones',
                                            'two deform calls on one object', ''),
    'C08-noise-eq-by-label-cache-collision': ('C08', 'BaseErrorModel.__eq__/__hash__ by (id, label): models differing only in deformation_kwargs share one lru_cache entry',
                                              'two models with the same name but different axis on the same code and rate',
                                              'missed at first: cache-key rule added (R08.6, R06.2)'),
    'C10-shared-face-memo-across-codes': ('C10', 'flip_edge memoises adjacent faces in a class-level dict keyed without the code',
                                          'SweepDecoder3D on Planar3DCode then Toric3DCode of equal size in one process',
                                          'reported by C06 R06.3 (persistent write during decode), not by the C10 geometry rule, which analyses one code at a time'),
    'C10-correction-merged-per-round': ('C10', 'rotated decoder merges each round\'s flips with dict.update: an edge flipped in two rounds is kept',
                                        'a run that revisits an edge in a later round',
                                        'caught by the structural R10.2; rule re-implemented by interpretation (identity of the dictionary object)'),
    'C12-identity-by-rounded-label': ('C12', '_find_current_simulation compares rounded labels: results of a direction equal to 6 decimals are adopted',
                                       'two noise directions differing beyond the 6th decimal + restart',
                                       'first run ended in exit 2 and the near-miss records differed by 0.1: numpy hooks and near-misses in the 9th/12th decimal added (R12.3)'),
    'C12-save-in-interrupt-handler': ('C12', 'run() saves from its KeyboardInterrupt handler: a torn in-memory state replaces the last completed save',
                                      'interrupt between the per-key appends of a trial, or while results are being loaded',
                                      'detected only by accident at first: who-may-save rule added (R12.5)'),
    'C13-list-params-truncated': ('C13', 'list-form parameters zipped with three names: deformation name / kwargs silently dropped',
                                  'list-form noise entry with more than three items',
                                  'fired for the wrong reason at first (positional vs keyword form): constructor calls are now bound to parameter names and the tagged spec has 4/5-entry lists (R13.2)'),
    'C13-runs-instances-shared-by-params': ('C13', 'explicit runs share one instance per parameter set, keyed without the class name',
                                            'runs list with two code classes of equal parameters',
                                            'first run ended in exit 2: json.dumps hook and a runs specification with two classes added (R13.2)'),
    'C05-uf-update-parents-shortcut': ('C05', 'Support._update_parents follows one parent link instead of find_root: stale parents drop stabilizers from the peeling tree (IndexError / wrong syndrome)',
                                       'dense errors on 8x8+ lattices with parent chains of depth >= 3',
                                       'NOT detected: internal invariant of the union-find solver; C05/C09 explicitly do not decide solver output'),
    'C05-flip-edge-without-boundary-guard': ('C05', 'SweepDecoder3D.flip_edge indexes stabilizer_index without the is_stabilizer guard: KeyError on Planar3DCode boundaries',
                                             'Planar3DCode and a sweep that flips a boundary edge', 'reported by C10 R10.4 (guarded toggles)'),
    'C09-get-weights-inplace-second-decoder': ('C09', 'get_weights accumulates the marginals in place on the lru_cached arrays: the second decoder built from the same model gets wrong weights',
                                               'deformed, Y-containing noise and a second MatchingDecoder/get_weights call', 'reported by C06 R06.2 (frozen values)'),
    'C09-uf-peeling-parity': ('C09', 'Peeling_Tree._update_syndrome flips a parent once instead of once per syndrome leaf',
                              'L=5 toric code, two syndrome leaves under one parent',
                              'NOT detected: internal parity bookkeeping of the union-find peeling; correctability is listed as not decided'),
    'C11-xy-deformation-skipped': ('C11', 'noise deformation loop skips qubits whose table fixes X: the XY deformation is dropped (calibration)',
                                   'deformation_name="XY" with r_y != r_z', 'reported by C07 R07.8 / C08 R08.6'),
    'C11-success-ignores-codespace': ('C11', 'run_once: success = not is_logical_error(total) - the codespace check is lost',
                                      'a decoder that can leave a residual syndrome',
                                      'reported by C04 R04.1; the success truth table was added to C11 R11.1 as well'),
    'C14-remainder-to-nonexistent-task': ('C14', 'left-over trials given to a task index that does not exist for the last input',
                                          '>1 input, n_tasks % n_inputs != 0, trials % tasks != 0', ''),
    'C14-rounded-share-zero-trials': ('C14', 'n_runs = round(trials/m): the last task can get 0 or negative trials',
                                      '>= 4 tasks per input and few trials per task',
                                      'first run ended in exit 2 (structural rule lost its pattern before the bounded evaluation ran): bounded evaluation now runs first and violations take precedence over analysis errors'),
    'C15-find-files-accumulators-hoisted': ('C15', 'find_files: zip/json accumulators hoisted out of the loop over paths: files of earlier paths are appended again',
                                            'Analysis given a list of two or more paths',
                                            'missed at first: find_files is now interpreted on a mixed path list (R15.6)'),
    'C15-sector-trials-len-not-sum': ('C15', 'sector n_trials = k * len(codespace) instead of k * sum(codespace)', 'at least one trial outside the codespace', ''),
    'C16-bootstrap-counts-from-untruncated-frame': ('C16', 'bootstrap Beta counts read positionally from the untruncated frame',
                                                    'fit window narrower than the data or a dropped NaN row',
                                                    'missed at first: R16.4 now checks that rng.beta reads (n_fail, n_trials) from the very table the fit columns come from'),
    'C16-results-paths-shared-between-analyses': ('C16', 'Analysis.__init__ no longer rebinds results_paths: the class-level list accumulates paths of earlier Analysis objects',
                                                  'two Analysis objects in one process',
                                                  'missed at first: class-level mutable container rule added (R16.2, R15.6, R12.3)'),
    'C18-copyto-into-cached-pi': ('C18', 'error_probability builds its vector with np.asarray(pi) + np.copyto: writes land in the lru_cached p_I array',
                                  'second query on the same (model, code, rate)', ''),
    'C18-masked-log-skips-zero': ('C18', 'log form computed with np.log(..., where=v>0): zero-probability factors are skipped instead of giving -inf',
                                  'a direction with a zero component and an error containing that Pauli', ''),
    'C19-arange-full-step': ('C19', 'np.arange(min, max + step, step): a value beyond max for some decimal ranges', '0.1:0.3:0.1 and similar', ''),
    'C19-memoised-direction-mutated': ('C19', 'lru_cache on get_direction_from_bias_ratio while generate_input adds deformation_name to the returned dict',
                                       'two generate-input calls in one process, the first with a deformation', 'reported by C06 R06.2 (frozen values)'),
    'C20-code-instance-cached-across-requests': ('C20', 'GUI keeps one code instance per (name, size) and deforms it in place: a later "None" request returns the deformed data',
                                                 'deformed request followed by an undeformed one on the same server',
                                                 'first run ended in exit 2: GUI.__init__ is now interpreted and request histories were added (R20.4)'),
    'C20-noise-deformation-from-code-field': ('C20', 'error model built from code_deformation_name instead of noise_deformation_name',
                                              'biased noise with a noise deformation different from the code\'s', ''),

    # ---------------------------------------------------------------- round 2 (a different mechanism per property)
    'C02-from-bsf-reads-stored-indices': ('C02', 'from_bsf reads csr .indices instead of .nonzero(): explicitly stored zeros count as support',
                                          'a sparse row produced by `m = a + b; m.data %= 2` on overlapping Paulis',
                                          'missed at first: the sparse stand-in now models STORAGE (explicit zeros, index order) separately from values (R02.1, R03.2)'),
    'C02-logicals-iterate-string-set': ('C02', 'Toric3DCode logicals built by iterating a module-level set of axis names: order depends on PYTHONHASHSEED',
                                        'two processes with different hash seeds',
                                        'missed at first: the hash-order rule now follows module-level and class-level sets (R02.3)'),
    'C03-prod-through-hsplit-fast-path': ('C03', '_bs_prod_sparse routed through bsparse.hsplit, whose single-row fast path ignores stored values',
                                          'a single sparse row holding explicit zeros', ''),
    'C03-xz-blocks-cached-on-operand': ('C03', 'X/Z blocks of a sparse operand cached as an attribute of the operand: stale after bsparse.insert_mod2',
                                        'product, in-place update of the row, product again',
                                        'reported by the effect rules of C02/C04/C06 at first, C03 itself ended in exit 2: purity rule R03.5 added and rules now continue after one of them cannot complete'),
    'C04-matrix-row-drops-x-bit-of-y': ('C04', 'stabilizer_matrix assembles one key per qubit: a Y in a generator contributes only its Z bit',
                                        'a code whose generators contain Y (XY deformation)', 'reported by C02 R02.1 / C03 R03.2 (matrix rows are the BSF image)'),
    'C04-deform-keeps-cached-logicals-z': ('C04', 'deform() resets a list of cached attributes that omits _logicals_z',
                                           'read d or logicals_z, then deform the same object', 'reported by C08 R08.5 (deform resets every cached property)'),
    'C05-matching-reused-output-buffer': ('C05', 'MatchingDecoder writes into one buffer allocated in __init__; SweepMatchDecoder accumulates into it in place',
                                          'one SweepMatchDecoder decoding twice', 'reported by C06 R06.3 (persistent write during decode)'),
    'C05-ldpc-decoders-memoised-per-code': ('C05', 'ldpc decoder objects built by an lru_cache function keyed on the code object: stale after code.deform()',
                                            'deform the same code object again, then create a new decoder',
                                            'missed at first: R05.5 added (nothing memoised per code object reads what deform() changes)'),
    'C06-update-probabilities-inplace-on-cache': ('C06', 'vectorised update_probabilities does `p_same += py` on the arrays held by the lru_cache',
                                                  'channel_update=True, CSS code, r_y != 0, second decode',
                                                  'caught by R06.2; C07 R07.7 first reported it for a wrong reason (and a CORRECT vectorised rewrite was a false alarm): masks, np.where, out=/where= modelled, lost values are undecided'),
    'C06-sweep-conditional-copy-inplace': ('C06', 'get_initial_state copies the syndrome only when the vertex sector is non-zero; sweep_move flips in place',
                                           'pure-Z syndrome', ''),
    'C07-noise-eq-by-label': ('C07', 'PauliErrorModel.__eq__/__hash__ by label: two models differing in deformation_kwargs share the lru_cache entry',
                              'two instances with equal label, different deformation axis, same code and rate', ''),
    'C07-bposd-joint-prior-order': ('C07', 'non-CSS BP-OSD prior stacked [x | z] instead of [z | x]', 'deformed (non-CSS) code and r_x != r_z', ''),
    'C08-deformation-lookup-per-axis': ('C08', 'noise-side deformation looked up once per qubit axis instead of per qubit',
                                        'a deformation that depends on position (checkerboard, colour codes)', ''),
    'C08-deform-reset-misses-row-masks': ('C08', 'deform() resets a list of cached attributes that omits _x_indices/_z_indices',
                                          'read is_css/Hx before deforming the same object', ''),
    'C09-matching-merge-independent': ('C09', 'Matching.from_check_matrix(..., merge_strategy="independent"): identical columns are merged into a lighter edge',
                                       'rotated planar code (duplicate columns), flip marginals above 0.2',
                                       'first reported for a wrong reason (constructor form not followed -> "TOP stored"): from_check_matrix/merge_strategy are modelled (R09.1) and a value the analysis lost is never a violation'),
    'C09-uf-sector-memo-keyed-by-shape': ('C09', 'UnionFindDecoder memoises sector corrections keyed by (H.shape, syndrome bytes): Hx and Hz collide',
                                          'equal X and Z sector patterns on the torus',
                                          'first run ended in exit 2 everywhere: memo-key completeness added to the effect analysis (C06 R06.3); C05/C07/C09 stay undecided on this change'),
    'C10-initial-state-vertex-count': ('C10', 'get_initial_state zeroes the first prod(size) entries instead of the z_indices',
                                       'Planar3DCode (fewer vertices than prod(size))', ''),
    'C10-flip-edge-missing-face-none-index': ('C10', 'flip_edge uses stabilizer_index.get(...): a missing face indexes with None and inverts the whole state',
                                              'open boundary edge with an odd number of missing faces', ''),
    'C11-update-probabilities-alias-cached': ('C11', 'update_probabilities returns/modifies the cached px/pz arrays in place: the sampler\'s channel drifts',
                                              'channel_update=True and more than one trial', 'reported by C06 R06.2; C05/C07 undecided (item store into a probability array)'),
    'C11-n-runs-counted-after-run': ('C11', 'n_runs incremented once after _run returns instead of per trial',
                                     'a run(k) interrupted part-way', ''),
    'C12-save-remove-then-rename': ('C12', 'save_json removes the destination and then renames the temporary file',
                                    'process killed between the two calls', 'missed at first: R12.1 no-delete obligation added'),
    'C12-results-file-read-memoised': ('C12', 'results file parsed through an lru_cache(maxsize=1) helper: a second load in the same process is stale and shares lists',
                                       'load, save, load again in one process', 'missed at first: R12.6 added (no memoised I/O on the load path; frozen values in panqec.simulation)'),
    'C13-get-simulations-consumes-ranges': ('C13', 'list-of-ranges branch assigns data["ranges"] = sub_ranges on the caller\'s dict',
                                            'the same specification object expanded twice', 'missed at first: second-expansion obligation added to R13.2'),
    'C13-register-setdefault': ('C13', 'register_* use setdefault: registering a redefined class under a taken name is ignored',
                                'register, redefine, register again', 'missed at first: rebinding obligation added to R13.1'),
    'C14-tasks-per-input-hoisted': ('C14', 'tasks-per-input hoisted out of the core loop while the body still increments it', 'n_tasks % n_inputs != 0 and >= 2 cores', ''),
    'C14-guard-cores-instead-of-tasks': ('C14', 'new guard raises when n_cores < n_inputs although n_nodes*n_cores >= n_inputs', 'multi-node run with few cores per node', ''),
    'C15-read-entry-flatten-two-levels': ('C15', 'read_entry flattens two levels only: a merge of merged files loses trials', 'nesting depth 3',
                                          'missed at first: R15.6 now nests the merged lists three and four deep'),
    'C15-single-qubit-uint8-dot': ('C15', 'single-qubit rates via dot products of the uint8 indicator columns: counts wrap modulo 256',
                                   'a pooled point with >= 256 trials of one class',
                                   'missed at first: R15.5 now evaluates on the pipeline\'s dtype with 320 trials per class'),
    'C16-zero-trial-estimate-zero': ('C16', 'p_est = n_fail/max(n_trials, 1): zero-trial entries enter the fit as p = 0 instead of NaN',
                                     'results holding queued (zero-trial) entries', 'reported by C15 R15.3 (estimator formula)'),
    'C16-fit-status-absolute-tolerance': ('C16', 'get_fit_status called with tol=ftol_std as an absolute tolerance: narrow valid intervals flagged as zero',
                                          'threshold near 1e-3 with good statistics',
                                          'missed at first: call-site arguments are resolved and a low-threshold entry added to R16.3'),
    'C18-metropolis-carried-loglik': ('C18', 'get_next_error returns the proposal\'s log-likelihood with the kept previous error; _run carries it forward',
                                      'a move accepted by the draw but discarded because decoding succeeds',
                                      'missed at first: R18.3 now requires (error, log-likelihood of THAT error) on every returning path'),
    'C18-log-of-product-underflow': ('C18', 'log form computed as log(prod(v)): -inf once the product underflows', 'heavy error on a large code', ''),
    'C19-bias-filename-collision': ('C19', "file suffix str(eta).replace('.', ''): 1.5 and 15 share a file", 'ratio list containing x.y and xy',
                                    'missed at first: a request with look-alike ratios added to R19.4'),
    'C19-falsy-range-entries-dropped': ('C19', '_parse_parameters_range filters falsy entries: the rate 0.0 (and {}) are dropped',
                                        'an error-rate grid containing 0', 'missed at first: grids starting at 0 added to R19.4 and R13.2'),
    'C20-decoder-options-mutable-default': ('C20', 'decoder options collected in a mutable default dict: options of one /decode request leak into the next',
                                            'BP-OSD or MBP request followed by any other decoder',
                                            'missed at first: the interpreter now keeps mutable default arguments alive between calls; decode histories added to R20.4'),
    'C20-colormap-entry-removed': ('C20', 'colormap entry removed while one gui-config.json entry still names it', 'Rotated Planar 2D, rotated picture', ''),

    # ---------------------------------------------------------------- round 3
    'C02-from-bsf-unsorted-indices': ('C02', 'from_bsf loses the sort of the stored column indices (revert of a repository fix)', 'a csr row with a Z index stored before its X index (bsparse.insert_mod2)', ''),
    'C02-matrix-row-y-keeps-z-bit': ('C02', 'stabilizer_matrix records one key per qubit: Y contributes only its Z bit', 'a stabilizer containing Y (XY deformation, user-defined code)', ''),
    'C03-dense-weight-uint8-vdot': ('C03', 'bsf_wt (dense) by inclusion-exclusion with np.vdot on uint8: the Y count wraps at 256', 'a uint8 BSF array with >= 256 Y', 'first ended in exit 2 (np.vdot not evaluated): whitelist extended, 300-qubit uint8 cases added to R03.2'),
    'C03-bsf-to-pauli-unsorted-indices': ('C03', 'bsf_to_pauli (sparse) loses the sort of the stored indices (revert of a repository fix)', 'unsorted csr row', ''),
    'C04-batched-effect-without-transpose': ('C04', 'batched get_effective_error concatenates without transposing: rows no longer [X-effects | Z-effects]', 'batch of m >= 2 errors on a code with k >= 2', ''),
    'C04-deform-logicals-drop-kwargs': ('C04', 'deformed logicals are built without the deformation keyword arguments', "deform('XZZX', deformation_axis='x')", 'reported by C08 R08.3 (forwarding of name and kwargs)'),
    'C05-plain-bp-when-osd-order-zero': ('C05', 'BP-OSD builds a plain ldpc.BpDecoder when osd_order == 0', 'osd_order=0 (GUI, example inputs) and a syndrome on which BP does not converge', 'missed at first: osd_order=0 configurations and the "has an OSD stage" obligation added to R05.3'),
    'C05-extract-syndrome-contiguous-block': ('C05', 'extract_x/z_syndrome take a contiguous block of rows instead of the boolean mask', 'a code whose X and Z stabilizers are interleaved (2-D colour codes)', 'first ended in exit 2 (builtin slice() not interpreted): interpreter extended, reported by C02 R02.2 on an interleaved abstract matrix'),
    'C06-result-read-from-ldpc-buffer': ('C06', 'decode reads osdw_decoding again instead of the return value (revert of a repository fix)', 'reused decoder, zero sector after a non-zero one', ''),
    'C06-channel-pushed-only-when-changed': ('C06', 'channel probabilities pushed to ldpc only when the cached arrays changed + conditional update skipped for a zero correction', 'channel_update=True and a zero X sector after a conditioned call', 'reported by R06.3 (state kept on the decoder between calls)'),
    'C07-deformation-lookup-per-axis': ('C07', 'noise-side deformation looked up once per qubit_axis', 'codes whose deformation depends on position (colour codes)', ''),
    'C07-conditional-update-guard-wrong-event': ('C07', 'the not-flipped branch of the conditional update is guarded by P(flip) != 0: where it is 0 the prior stays 0 instead of p/(1-0)', 'channel_update=True and a vertex of the simplex (pure X noise)', 'missed at first: R07.7 now judges the returned value path by path, knowing which probabilities the path assumed to be zero'),
    'C08-get-stabilizer-memoised-toric2d': ('C08', 'lru_cache on Toric2DCode.get_stabilizer while deform rewrites the returned dict in place', 'deform, read the matrix, deform again', ''),
    'C08-effective-error-half-product': ('C08', 'get_effective_error uses half of each symplectic product (logical X assumed pure X-type)', 'a deformed code (logicals of mixed type)', 'missed at first (C04 exit 2): value-level rule with fully symbolic logicals added (R04.3)'),
    'C09-weights-rate-clamped': ('C09', 'weights computed at min(error_rate, 0.5)', 'total rate above 1/2 with non-uniform weights', 'missed at first: the (code, rate) the channel is asked for is now checked at every consumer (R09.1, R07.6, R18.1, R18.3, R07.3)'),
    'C09-get-weights-fast-path-ignores-name': ('C09', 'PauliErrorModel.get_weights override returns undeformed weights when deformation_kwargs is empty', "deformation_name='XZZX' without keyword arguments", 'first ended in exit 2: get_weights as resolved on the concrete class is now evaluated against the distribution of the same object (R09.1, R07.5)'),
    'C10-fancy-index-toggle-once': ('C10', 'faces of all flipped edges toggled in one fancy-indexed assignment: a face shared by two edges flips once', 'two edges flipped in one step that share a face', 'first ended in exit 2: toggle-per-edge obligation added to R10.1'),
    'C10-automaton-in-place-on-syndrome': ('C10', 'get_initial_state returns the syndrome itself when no vertex is excited; sweep_move flips in place', 'pure-Z error decoded twice from the same array', 'reported by C06 R06.1/R06.5; C10 R10.5 ends undecided'),
    'C11-sampling-table-keyed-by-label': ('C11', 'per-qubit sampling tables kept in a module-level dict keyed by (model label, code label, rate)', 'two models differing only in deformation axis', 'first ended in exit 2: module-level state rule added (R11.3, R07.3, R06.3) with a positive control'),
    'C11-matching-output-buffer-aliased': ('C11', 'MatchingDecoder returns one preallocated array on every call: recorded corrections of earlier trials are overwritten', 'two run_once records from one decoder, audited afterwards', 'reported by C06 R06.3'),
    'C12-pending-list-hoisted': ('C12', 'the n_results < n_trials test is hoisted out of the trial loop', 'simulations with different saved counts (a specification that grew)', ''),
    'C12-replace-before-close': ('C12', 'save_json streams through an opener alias and calls os.replace inside the writing with-block', 'kill right after the rename', 'first ended in exit 2: opener aliases followed, replace must come after the writer is closed (R12.1)'),
    'C13-decoder-rate-setdefault': ('C13', "decoder parameters keep the first error rate (setdefault on the shared dict)", 'a range with two or more error rates', ''),
    'C13-falsy-entries-filtered': ('C13', 'falsy entries of a parameter list are dropped', 'rate 0.0 or {} in a list', ''),
    'C14-input-index-proportional': ('C14', 'task -> input mapping changed to i_task*n_inputs//n_tasks while the rest assumes the floor layout', 'n_tasks % n_inputs != 0', ''),
    'C14-input-list-through-set': ('C14', 'input list de-duplicated through a set of paths: order depends on PYTHONHASHSEED per node', 'nodes = separate processes', 'first reported for a wrong reason (a TOP file name counted as a task with 0 trials): untracked task arguments are now undecided and the input-order obligation (no hash-ordered collection of paths) was added to R14.2'),
    'C15-round-after-grouping': ('C15', 'error_rate rounded after the groupby instead of before', '0.3 in one file, 0.1*3 in another', 'missed at first: rounding-before-grouping obligation added to R15.2'),
    'C15-merge-extend-instead-of-append': ('C15', 'merge_results extends with the loaded object: a dict file contributes its keys', 'mix of list files and single-simulation dict files', ''),
    'C16-n-fail-first-file-only': ('C16', 'n_fail taken with first() per group', 'a data point split over several files', 'reported by C15 R15.1'),
    'C16-parsed-entries-cached-by-second': ('C16', 'parsed entries cached under (path, int(mtime))', 'file rewritten within the same second', 'reported by C15 R15.6'),
    'C18-local-loglik-update': ('C18', 'log-likelihood of the proposal computed by a local update that assumes an empty qubit', 'proposal on a qubit that already carries another Pauli', ''),
    'C18-select-first-match': ('C18', 'np.select with [x, z, x&z]: a Y is priced as X', 'error containing Y with p_x != p_y', ''),
    'C19-range-point-count-floor': ('C19', 'range expanded with int((max-min)/step)+1 points', '(max-min)/step just below an integer in floating point', ''),
    'C19-rectangular-size-squared': ('C19', 'two-number sizes read as L x L x L', 'a rectangular 2-D size such as 4x6', ''),
    'C20-qubit-template-reused': ('C20', 'qubit descriptions copied from the first qubit, only axis and location refreshed', 'codes whose qubit drawing depends on the qubit (rotated 3-D codes)', 'first ended in exit 2: copy.deepcopy interpreted, representations are per-location dictionaries, every path of the handler is judged (R20.4)'),
    'C20-noise-deformation-dropped-when-symmetric': ('C20', 'noise deformation dropped when r_x == r_z', "'Pure Y' noise with the 'XY' deformation", 'missed at first: every noise direction x noise deformation of the menu is requested; dropping is accepted exactly when the direction is invariant under the swap (R20.4)'),
    # ---- round 4
    'C02-shared-parity-check-cache': ('C02', 'stabilizer_matrix served from a module-level cache keyed by (class name, size, deformation): another code class of the same name and size gets the first one\'s matrix',
                                      'two user-defined code classes with the same name and size in one process',
                                      'reported by C06/C11 only at first: the module-level state rule now also runs over the members of the code classes (R02.5)'),
    'C02-row-mask-uint8-dot': ('C02', 'x_indices/z_indices from Hx.dot(ones(uint8)) > 0: row weights wrap modulo 256', 'a CSS stabilizer whose X or Z part has weight 256', ''),
    'C03-dense-bitand-float': ('C03', 'dense bs_prod reduces with & 1 instead of % 2: TypeError when NumPy promotes the product to float64',
                               'dense operands of dtype uint64 and a signed integer type (to_bsf gives np.uint, a literal array int64)',
                               'reported for the wrong reason at first ("result is TOP"): a lost value is now undecided; Poly & 1 modelled as parity; dense dtype pairs added to R03.1; a TypeError on concrete numbers is a raising path'),
    'C03-from-bsf-stored-zeros': ('C03', 'from_bsf reads .indices of a sparse row: explicitly stored zeros come back as Paulis', 'a sparse row after s = a + b; s.data %= 2', ''),
    'C04-single-row-hstack-interleave': ('C04', 'get_effective_error of a one-row 2-D batch uses hstack: [X0,Z0,X1,Z1] instead of [X|Z]', 'error of shape (1, 2n) on a code with k >= 2', ''),
    'C04-cached-plaquette-dict': ('C04', 'RotatedPlanar2DCode.get_stabilizer returns a memoised dict that deform() rewrites in place: later undeformed instances get XZZX generators with undeformed logicals',
                                  'a deformed and an undeformed instance of the same size in one process',
                                  'reported by C02/C06/C08 only at first: the frozen rule now also runs in C04 (R04.4)'),
    'C05-get-weights-inplace-cache': ('C05', 'get_weights adds py into the memoised px, pz in place: weights drift with every decoder built, the zero syndrome gets a non-zero matching',
                                      'seven or more decoders built from one noise model object and rate',
                                      'reported by C06 only at first: the frozen rule now also runs in C05 over error models and decoders (R05.5)'),
    'C05-bposd-skip-zero-prior-sector': ('C05', 'BP-OSD returns zeros for a sector whose prior is identically zero instead of decoding it', 'pure X or pure Z noise configured, syndrome with the other component',
                                         'exit 2 at first: zeros(n) concatenated with a correction is typed as an unfilled half; undecided facts no longer hide violations found on other paths'),
    'C06-matching-memo-sectorless-key': ('C06', 'matchings memoised per decoder by the bytes of the sector syndrome alone: a Z-sector pattern answers a later X-sector query', 'one decoder, same defect pattern in both sectors', ''),
    'C06-bposd-random-schedule': ('C06', 'random_schedule_seed set on the ldpc decoders: the shuffle generator lives in the long-lived object and advances with every call', 'a reused decoder and a syndrome on which BP is order-sensitive',
                                  'missed at first: the configuration of the ldpc object (constructor keywords and attribute stores) is modelled, random schedules are reported (R06.4), unknown options are undecided; attribute stores on tracked non-project objects are no longer dropped'),
    'C07-deformation-skipped-when-rx-eq-rz': ('C07', 'probability_distribution skips the deformation when r_x == r_z', 'XY deformation with r_x = r_z != r_y',
                                             'missed at first: R08.6/R07.8 now run for the generic direction and the three families with two equal rates'),
    'C07-fast-choice-bisect-left': ('C07', 'fast_choice with bisect_left: a variate exactly on a cumulative boundary selects the previous letter', 'u on a boundary (u = 0 at p = 1)', ''),
    'C08-deform-noop-same-kwarg-names': ('C08', 'deform returns early when name and the NAMES of the keyword arguments equal the last request', 'deform(XZZX, axis=x) then deform(XZZX, axis=y)',
                                         'missed at first: R08.4 scenarios with the same name again (other keyword value, keyword dropped, same request); the abstract table depends on the keyword value'),
    'C08-noise-skip-when-x-fixed': ('C08', 'noise-side deformation skipped on qubits whose table fixes X: XY never applied', 'XY deformation with r_y != r_z', ''),
    'C09-sweep-visited-states-persist': ('C09', 'SweepDecoder3D keeps the visited automaton states across decode calls: a repeated syndrome is not swept', 'same face syndrome decoded twice by one decoder',
                                         'reported by C06 only at first: the decoder state rule now also runs in C09 over the matching / union-find / sweep decoders (R09.2)'),
    'C09-vectorised-permutation-overwrite': ('C09', 'vectorised deformation permutation reads arrays it has already overwritten: p_Z undeformed under XZZX', 'XZZX noise with r_x != r_z',
                                            'reported by C07/C08 only at first: C09 now includes the deformed-channel obligation next to weights-vs-distribution (R09.1)'),
    'C10-bounding-box-wrong-axis': ('C10', 'flip_edge pre-filter bounds the y coordinate of a face with 2*L_x', 'RotatedPlanar3DCode with L_y > L_x, edge in the far-y strip',
                                    'missed at first: a coordinate compared with / wrapped by the lattice extent of another axis is reported (R10.4 axes)'),
    'C10-site-keeps-identity-entries': ('C10', 'site() keeps cancelled entries as I and decode fills Z from the keys: twice-flipped edges stay in the correction', 'an automaton run that revisits an edge', ''),
    'C11-trivial-syndrome-skips-error': ('C11', 'run_once skips the decoder on a zero syndrome and classifies the zero vector instead of the error', 'a sampled non-trivial logical operator', ''),
    'C11-deformed-generate-drops-rng': ('C11', 'generate does not pass rng to fast_choice for deformed models: global random.random()', 'deformed noise and a seeded run',
                                        'missed at first (C07 exit 2): R11.3 threading obligation for every call of a function with an optional generator; C07 judges every path and no longer judges the source of the variate'),
    'C12-resume-loop-final-save-rename': ('C12', 'loop over the remaining trials but the final save still tests the absolute index', 'resumed run whose last trial is not on a periodic save', ''),
    'C12-load-results-forward-search': ('C12', 'load_results searches only entries after the simulation\'s own position: grown specs lose saved trials', 'a rate appended to a spec with two sizes', ''),
    'C13-list-ranges-mutable-default': ('C13', 'list-of-ranges helper accumulates into a mutable default argument', 'two parses in one process',
                                        'missed at first: mutable defaults modified in place are module-level state (shared global-state rule, R13.2); second expansion runs in the same interpreter'),
    'C13-decoder-range-aliased-dict': ('C13', 'decoder range appends the same dict object: every decoder gets the last parameter set', 'two or more decoder parameter sets', ''),
    'C14-delete-existing-glob': ('C14', '--delete-existing removes every results_*.json* before the loop: a node that starts later erases the files of earlier nodes', 'two or more nodes not starting together',
                                 'missed at first: R14.3 runs the nodes one after the other on a shared abstract file system with delete_existing'),
    'C14-single-trial-never-saved': ('C14', 'the final save folded into the i_trial > 0 block: a task with one trial never writes its file', 'trials // tasks per input == 1',
                                     'reported by C12 only at first: the accounting rule runs in C14 for tasks starting from nothing (R14.4)'),
    'C15-class-level-results-paths': ('C15', 'results_paths extended on the class-level list: every Analysis re-reads the paths of earlier ones', 'two Analysis objects in one process', ''),
    'C15-read-entry-drops-all-zero': ('C15', 'read_entry drops records whose effective_error has no non-zero entry', 'a chunk without a logical error',
                                      'missed at first: read_entry is evaluated on records without errors, with only failures and outside the code space (R15.6)'),
    'C16-nfail-codespace-only': ('C16', 'n_fail counts only failures inside the code space: the bootstrap resamples from other counts than p_est', 'trials that end outside the code space',
                                 'exit 2 in C15 at first: row-wise lambdas over success/codespace are decided on three independent mixes (R15.3); C16 includes the input-table obligations (R16.5)'),
    'C16-nth-positional-concat': ('C16', 'identity columns taken with groupby.nth(0) and glued on by position: codes attached to the counts of other groups', 'rows not in sorted key order',
                                  'exit 2 in C15 at first: how each side-by-side frame is indexed is decided (R15.1 aligned, R16.5)'),
    'C18-count-based-probability-override': ('C18', 'PauliErrorModel.error_probability override prices errors by letter counts with undeformed rates unless r_x != r_z', 'XY deformation with r_x = r_z != r_y',
                                             'missed at first: error_probability as resolved on the concrete class is compared with the per-qubit channel of the same object (R18.4)'),
    'C18-loglik-memo-by-counts': ('C18', 'log-likelihoods memoised by (rate, #X, #Y, #Z)', 'deformed noise, chain revisiting the same counts elsewhere', ''),
    'C19-code-cache-sorted-values': ('C19', 'codes of a range built once per (name, sorted parameter values): permuted sizes share one object', 'sizes that are permutations of each other',
                                     'missed at first: the tagged specifications of R13.2 and a request of R19.4 contain permuted sizes / one value under two names'),
    'C19-direction-rounded': ('C19', 'direction rounded to 6 decimals', 'bias ratio >= 1e4', ''),
    'C20-lattice-size-clamp': ('C20', 'sizes clamped to [1, 12] on the server: coprime (13, 12) answered as 12 x 12', 'L = 12 with coprime dimensions',
                               'missed at first: send_code_data is evaluated at both ends of the lattice-size menu of main.js with coprime (R20.4)'),
    'C20-decoder-offer-stale-global': ('C20', 'send_decoder_names iterates the module-level decoder table while add_decoder fills the per-instance copy', 'add_decoder then /decoder-names', ''),
    # ---- round 5 (20 changes, ten properties)
    'C02-is-css-from-labels': ('C02', 'is_css decided from the Pauli letters of the generators: a generator made of Y only counts as one type', 'XY-deformed 2-D codes, user codes with pure-Y checks',
                               'internal exception at first (the abstract CSS code had a matrix but no operators): operators derived from the rows, an all-Y matrix added to R02.2'),
    'C02-block-slice-vacuous-guard': ('C02', 'Hx/Hz cut with slice(first row, last row + 1) behind a guard that tests increasing instead of consecutive', 'CSS code with interleaved X and Z rows (the 2-D colour codes)', ''),
    'C04-success-fast-path-weight-below-d': ('C04', 'is_success returns True for undetected errors whose X and Z weights are both below d, without asking the logicals', 'deformed (non-CSS) code whose minimum-weight logical mixes X and Z',
                                             'undecided: the success value depends on a comparison of uninterpreted weights; which of the two outcomes is wrong is not something the truth table can attribute to a feasible path'),
    'C04-logical-effect-shared-buffer': ('C04', 'logical_errors returns one preallocated buffer: earlier results are overwritten by later calls', 'results of two calls held at the same time', ''),
    'C05-uf-adjacent-defect-prepass': ('C05', 'union-find pre-pass flips qubits between lit neighbours and then ZEROES the touched checks instead of adding the syndrome of the flips', 'a defect with two lit neighbours', ''),
    'C05-bposd-shared-decoder-colour-codes': ('C05', 'one ldpc decoder (built on Hx) shared for both sectors when the code id starts with Color', 'Color3DCode (Hx != Hz)', ''),
    'C10-flip-edge-try-around-loop': ('C10', 'one try/except KeyError around the loop over the four faces: the first missing face aborts the remaining toggles', 'boundary edge of Planar3DCode', ''),
    'C10-correction-dict-kept-on-give-up': ('C10', 'the correction dictionary lives on the decoder and is cleared on the converged exit only', 'a decode that runs out of sweeps, followed by another decode on the same object',
                                            'reported by C06/C09 only at first: the decoder-state rule also runs in C10 (R10.2)'),
    'C12-first-write-not-atomic': ('C12', 'save_json writes straight into the destination when no previous file exists', 'gzip output, killed during the very first checkpoint write', ''),
    'C12-chunked-trials-overshoot': ('C12', 'trials run in chunks of save_frequency, clamped against the batch-wide start instead of each simulation', 'grown specification, raised target, save_frequency > 1', ''),
    'C13-rates-rounded-six-decimals': ('C13', 'error rates rounded to six decimals when ranges are parsed', 'rates finer than 1e-6',
                                       'missed at first: the tagged specification contains rates of the rare-event regime'),
    'C13-append-skips-label-duplicates': ('C13', 'BatchSimulation.append skips a simulation whose labels equal those of one already appended (labels carry no decoder parameters)', 'two decoder parameter sets', ''),
    'C15-mean-of-record-fractions': ('C15', 'p_est is the plain mean of per-record failure fractions', 'records of unequal length in one group', ''),
    'C15-dedupe-identical-records': ('C15', 'read_files skips records whose inputs and arrays hash like one already read', 'two distinct runs with identical outcomes',
                                     'undecided at first (the fingerprint was computed from values the interpretation did not have): read_files is evaluated with one concrete record per file, the SAME content in every file, and hashlib / json.dumps evaluated for real on concrete bytes'),
    'C16-label-abbreviates-containers': ('C16', 'get_label abbreviates long container-valued parameters: two families get one label and are fitted together', 'two parameter sets that differ late in a nested parameter',
                                         'missed at first: get_label is evaluated on pairs that differ deep inside a container (R16.2)'),
    'C16-find-files-accumulator-reset': ('C16', 'find_files resets its accumulator for every supplied path', 'a list of two or more locations',
                                         'reported by C15 only at first: C16 includes the file-discovery obligations (R16.5)'),
    'C19-shared-noise-dict-deferred-write': ('C19', 'one error-model dictionary shared by all queued specifications, files written afterwards', 'two or more bias ratios', ''),
    'C19-lazy-map-exhausted-for-splitting': ('C19', 'codes and noise models as map objects: the second itertools.product (splitting method) finds them exhausted', 'method splitting',
                                             'missed at first: map / filter / zip results and generator expressions are one-shot in the interpreter'),
    'C20-numpy-int-in-representation': ('C20', 'triangle vertices of RhombicToricCode become np.int64: the JSON response fails', 'Rhombic Toric 3D',
                                        'missed: the GUI rules compare the response with what the library returns, they do not type the values the library computes'),
    'C20-random-errors-fast-path-yz-swapped': ('C20', 'send_random_errors samples with its own table in the order I, X, Z, Y', 'noise with different Y and Z rates',
                                               'undecided: the handler no longer returns generate(code, p); the vectorised sampling is not followed'),
}
EXTRA_FILE = os.path.join(HERE, 'seeded', 'EXTRA.json')


def caught_by(sid):
    d = os.path.join(HERE, 'seeded', sid)
    out = subprocess.run([os.path.join(HERE, 'tools', 'try_patch.sh'), os.path.join(d, 'patch.diff'), 'all'],
                         capture_output=True, text=True).stdout
    rules = []
    lines = out.splitlines()
    for i, l in enumerate(lines):
        if l.startswith('VIOLATION property='):
            prop = l.split('property=')[1].split()[0]
            rule = lines[i + 1].strip().split()[0] if i + 1 < len(lines) else '?'
            if (prop, rule) not in rules:
                rules.append((prop, rule))
    err = [l for l in lines if l.startswith('ANALYSIS-ERROR')]
    return rules, err


def main():
    seeds = dict(SEEDS)
    if os.path.exists(EXTRA_FILE):
        seeds.update({k: tuple(v) for k, v in json.load(open(EXTRA_FILE)).items()})
    rows = []
    from concurrent.futures import ThreadPoolExecutor
    todo = [sid for sid in sorted(seeds) if os.path.isdir(os.path.join(HERE, 'seeded', sid))]
    only = set(sys.argv[1:])
    cached = {}
    if only:                      # tools/seed_meta.py <id> ...: re-run only these, reuse meta.json of the others
        for sid in todo:
            mp = os.path.join(HERE, 'seeded', sid, 'meta.json')
            if sid not in only and os.path.exists(mp):
                mj = json.load(open(mp))
                cached[sid] = ([tuple(x.split(' ', 1)) for x in mj.get('reported_by', [])], mj.get('analysis_errors', []))
    with ThreadPoolExecutor(max_workers=14) as ex:
        results = dict(zip([t for t in todo if t not in cached], ex.map(caught_by, [t for t in todo if t not in cached])))
    results.update(cached)
    for sid in todo:
        d = os.path.join(HERE, 'seeded', sid)
        prop, breaks, needs, note = seeds[sid]
        rules, err = results[sid]
        confirm = open(os.path.join(d, 'confirm.txt')).read().strip().splitlines()[-1] if os.path.exists(os.path.join(d, 'confirm.txt')) else ''
        meta = {'id': sid, 'property': prop, 'breaks': breaks, 'needs_to_manifest': needs,
                'confirmed': confirm,
                'what_was_run': ['tools/confirm_seed.sh seeded/%s  (fresh worktree of /repo HEAD: demo on clean tree, demo with patch, full suite vs baseline)' % sid,
                                 'tools/try_patch.sh seeded/%s/patch.diff all  (all quick checks against a scratch copy with the patch)' % sid],
                'reported_by': [f'{p} {r}' for p, r in rules], 'analysis_errors': err, 'strengthening': note}
        with open(os.path.join(d, 'meta.json'), 'w') as f:
            json.dump(meta, f, indent=1)
        rows.append((sid, prop, breaks, needs, ', '.join(f'{p} {r}' for p, r in rules) or ('**missed**' if not err else 'exit 2'), note))
    table = ['| seeded change | property | what it breaks | reported by | strengthening needed |', '|---|---|---|---|---|']
    for sid, prop, breaks, needs, rep, note in rows:
        table.append(f'| `{sid}` | {prop} | {breaks}; needs: {needs} | {rep} | {note or "none"} |')
    p = os.path.join(HERE, 'DESIGN.md')
    s = open(p).read()
    s = re.sub(r'<!-- SEEDED-TABLE-BEGIN -->.*?<!-- SEEDED-TABLE-END -->',
               '<!-- SEEDED-TABLE-BEGIN -->\n' + '\n'.join(table) + '\n<!-- SEEDED-TABLE-END -->', s, flags=re.S)
    open(p, 'w').write(s)
    print(f'{len(rows)} seeds; missed: {[r[0] for r in rows if r[4] in ("**missed**", "exit 2")]}')


if __name__ == '__main__':
    main()
