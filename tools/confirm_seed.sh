#!/bin/bash
# tools/confirm_seed.sh <dir with patch.diff and demo.py> : confirm a seeded change in a fresh scratch worktree of /repo
# prints: CLEAN_DEMO=<rc> PATCHED_DEMO=<rc> TESTS=<summary> NEW_FAILURES=<n>
set -u
D=$(readlink -f "$1"); PATCH=${2:-patch.diff}; DEMO=${3:-demo.py}
WT=$(mktemp -d /tmp/pqv-confirm-XXXXXX)
git -C /repo worktree add -q --detach "$WT" HEAD >/dev/null 2>&1
cp "$D/$DEMO" "$WT/$DEMO"
( cd "$WT" && timeout 600 /venv/bin/python "$DEMO" >/dev/null 2>&1 ); C=$?
( cd "$WT" && git apply "$D/$PATCH" ) || { echo "PATCH DOES NOT APPLY on HEAD"; git -C /repo worktree remove --force "$WT"; exit 3; }
( cd "$WT" && timeout 600 /venv/bin/python "$DEMO" >/dev/null 2>&1 ); P=$?
( cd "$WT" && /venv/bin/python -m pytest -q -p no:cacheprovider --timeout=900 --junitxml="$WT/junit.xml" >"$WT/pytest.log" 2>&1 )
SUMMARY=$(tail -1 "$WT/pytest.log")
NEWF=$(/venv/bin/python - "$WT/junit.xml" <<'PY'
import json, sys, xml.etree.ElementTree as ET
base=set(json.load(open('/root/.vp/BASELINE.json'))['stable_pass'])
passed=set()
for tc in ET.parse(sys.argv[1]).iter('testcase'):
    if not [c for c in tc if c.tag in ('failure','error','skipped')]:
        passed.add(f"{tc.get('classname')}::{tc.get('name')}")
print(len(base-passed))
PY
)
echo "CLEAN_DEMO=$C PATCHED_DEMO=$P TESTS=[$SUMMARY] BASELINE_TESTS_NOT_PASSING=$NEWF"
git -C /repo worktree remove --force "$WT"
