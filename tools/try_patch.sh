#!/bin/bash
# tools/try_patch.sh <patch.diff> [property ...]  - run the checks against a scratch copy of /repo with the patch applied
set -u
PATCH=$(readlink -f "$1"); shift
PROPS=${*:-all}
TMP=$(mktemp -d /tmp/pqv-try-XXXXXX)
cp -r /repo/panqec "$TMP/panqec"
( cd "$TMP" && patch -p1 -s --no-backup-if-mismatch < "$PATCH" ) || { echo "PATCH DOES NOT APPLY"; rm -rf "$TMP"; exit 3; }
for p in $PROPS; do
  /verif/check $p --root "$TMP" --no-evidence 2>&1 | grep -v conda | grep -A3 "^VIOLATION\|^ANALYSIS-ERROR" | cut -c1-400
done
rm -rf "$TMP"
