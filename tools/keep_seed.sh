#!/bin/bash
# tools/keep_seed.sh <base dir> <P> <k> <id> - copy <base>/<P>/patch<k>.diff + demo<k>.py to seeded/<id>/ and confirm it
B=$1; P=$2; k=$3; id=$4
d=/verif/seeded/$id
mkdir -p $d
cp $B/$P/patch$k.diff $d/patch.diff
cp $B/$P/demo$k.py $d/demo.py
/verif/tools/confirm_seed.sh $d > $d/confirm.txt 2>&1
echo "$id: $(tail -1 $d/confirm.txt)"
