#!/venv/bin/python
"""Mutation run (a measurement of the checker, not a check).

Generates single-point AST mutants of the files the properties are anchored in, keeps those that still pass the whole
baseline test suite ("test-surviving": the kind of change the brief asks the checks to catch or the property does not
care about), and runs all quick checks against each survivor.  Output: a JSON report and a table of survivors that no
check reports, for manual triage (equivalent mutant / outside every property / genuine miss).

Everything happens in scratch directories under $TMPDIR that are removed as soon as a mutant is done.
Usage: tools/mutate.py [--n 300] [--seed 1] [--jobs 14] [--out /verif/mutation/report.json]
"""
import argparse
import ast
import copy
import json
import os
import random
import shutil
import subprocess
import sys
import tempfile
from concurrent.futures import ProcessPoolExecutor

REPO = '/repo'
HERE = os.path.dirname(os.path.dirname(os.path.abspath(__file__)))
FILES = [
    'panqec/bpauli.py', 'panqec/bsparse.py', 'panqec/utils.py', 'panqec/cli.py', 'panqec/config.py',
    'panqec/codes/base/_stabilizer_code.py', 'panqec/error_models/_base_error_model.py',
    'panqec/error_models/_pauli_error_model.py', 'panqec/simulation/_base_simulation.py',
    'panqec/simulation/_direct_simulation.py', 'panqec/simulation/_splitting_simulation.py',
    'panqec/simulation/_batch_simulation.py', 'panqec/decoders/matching/_matching_decoder.py',
    'panqec/decoders/belief_propagation/bposd_decoder.py', 'panqec/decoders/union_find/uf_decoder.py',
    'panqec/decoders/sweepmatch/_sweep_decoder_3d.py', 'panqec/decoders/sweepmatch/_rotated_sweep_decoder.py',
    'panqec/decoders/sweepmatch/_sweep_match_decoder.py', 'panqec/decoders/sweepmatch/_rotated_sweep_match_decoder.py',
    'panqec/decoders/xcube/_xcube_matching_decoder.py', 'panqec/gui/_gui.py',
    'panqec/codes/surface_2d/_toric_2d_code.py', 'panqec/codes/surface_3d/_toric_3d_code.py',
    'panqec/codes/surface_3d/_rotated_planar_3d_code.py',
]
ANALYSIS_FUNCS = {'get_standard_error', 'get_word_error_rate', 'get_single_qubit_error_rate', 'count_fails', 'read_entry',
                  'fit_function', 'get_fit_params', 'fit_fss_params', 'aggregate', 'calculate_total_error_rates',
                  'calculate_word_error_rates', 'calculate_single_qubit_error_rates', 'calculate_sector_error_rates',
                  'get_fit_status', 'calculate_thresholds', 'read_files', 'find_files', 'get_bootstrap_params'}
SWAPS = [('Hx', 'Hz'), ('px', 'pz'), ('p_x', 'p_z'), ('logicals_x', 'logicals_z'), ('x_indices', 'z_indices'),
         ('Lx', 'Ly'), ('Ly', 'Lz'), ('r_x', 'r_z'), ('extract_x_syndrome', 'extract_z_syndrome'), ('x_decoder', 'z_decoder'),
         ('matcher_x', 'matcher_z'), ('weights_x', 'weights_z'), ('n_fail', 'n_trials'), ('min_value', 'max_value')]
SWAP = {}
for a, b in SWAPS:
    SWAP[a], SWAP[b] = b, a
CMP = {ast.Lt: ast.LtE, ast.LtE: ast.Lt, ast.Gt: ast.GtE, ast.GtE: ast.Gt, ast.Eq: ast.NotEq, ast.NotEq: ast.Eq}
BIN = {ast.Add: ast.Sub, ast.Sub: ast.Add, ast.FloorDiv: ast.Mod, ast.Mod: ast.FloorDiv, ast.Mult: ast.Add}


def candidates(rel):
    """[(description, lineno, mutated source)] for one file."""
    src = open(os.path.join(REPO, rel)).read()
    tree = ast.parse(src)
    out = []
    funcs = []
    for n in ast.walk(tree):
        if isinstance(n, (ast.FunctionDef,)):
            if rel.endswith('analysis.py') and n.name not in ANALYSIS_FUNCS:
                continue
            funcs.append(n)
    seen = set()
    for fn in funcs:
        for n in ast.walk(fn):
            key = (type(n).__name__, getattr(n, 'lineno', 0), getattr(n, 'col_offset', 0))
            if key in seen or not hasattr(n, 'lineno'):
                continue
            seen.add(key)
            muts = []
            if isinstance(n, ast.Compare) and len(n.ops) == 1 and type(n.ops[0]) in CMP:
                def m(node, n=n):
                    node.ops = [CMP[type(n.ops[0])]()]
                muts.append((f'{type(n.ops[0]).__name__}->{CMP[type(n.ops[0])].__name__}', m))
            if isinstance(n, ast.BinOp) and type(n.op) in BIN and not isinstance(n.left, ast.Constant) \
                    and not (isinstance(n.op, ast.Mod) and isinstance(n.left, (ast.Constant, ast.JoinedStr))):
                def m(node, n=n):
                    node.op = BIN[type(n.op)]()
                muts.append((f'{type(n.op).__name__}->{BIN[type(n.op)].__name__}', m))
            if isinstance(n, ast.BinOp) and isinstance(n.op, ast.Mod) and isinstance(n.right, ast.Constant) and n.right.value == 2:
                muts.append(('drop %2', 'REPLACE_LEFT'))
            if isinstance(n, ast.BoolOp):
                def m(node, n=n):
                    node.op = ast.Or() if isinstance(n.op, ast.And) else ast.And()
                muts.append(('and<->or', m))
            if isinstance(n, ast.UnaryOp) and isinstance(n.op, ast.Not):
                muts.append(('drop not', 'REPLACE_OPERAND'))
            if isinstance(n, ast.Name) and n.id in SWAP and isinstance(n.ctx, ast.Load):
                def m(node, n=n):
                    node.id = SWAP[n.id]
                muts.append((f'{n.id}->{SWAP[n.id]}', m))
            if isinstance(n, ast.Attribute) and n.attr in SWAP and isinstance(n.ctx, ast.Load):
                def m(node, n=n):
                    node.attr = SWAP[n.attr]
                muts.append((f'.{n.attr}->.{SWAP[n.attr]}', m))
            if isinstance(n, ast.Constant) and isinstance(n.value, str) and n.value in ('X', 'Z', 'x', 'z'):
                def m(node, n=n):
                    node.value = {'X': 'Z', 'Z': 'X', 'x': 'z', 'z': 'x'}[n.value]
                muts.append((f"'{n.value}' swapped", m))
            if isinstance(n, ast.Constant) and type(n.value) is int and n.value in (0, 1, 2) and not isinstance(n.value, bool):
                def m(node, n=n):
                    node.value = {0: 1, 1: 0, 2: 1}[n.value]
                muts.append((f'{n.value}->{ {0: 1, 1: 0, 2: 1}[n.value]}', m))
            if isinstance(n, ast.Subscript) and isinstance(n.slice, ast.Slice) and n.slice.step is None \
                    and (n.slice.lower is None) != (n.slice.upper is None):
                def m(node, n=n):
                    node.slice.lower, node.slice.upper = node.slice.upper, node.slice.lower
                muts.append(('slice [:k]<->[k:]', m))
            if isinstance(n, ast.Call) and len(n.args) == 2 and not n.keywords and not any(isinstance(a, ast.Starred) for a in n.args):
                def m(node, n=n):
                    node.args = [node.args[1], node.args[0]]
                muts.append(('swap call arguments', m))
            for desc, m in muts:
                t2 = copy.deepcopy(tree)
                target = None
                for x in ast.walk(t2):
                    if type(x) is type(n) and getattr(x, 'lineno', -1) == n.lineno and getattr(x, 'col_offset', -1) == n.col_offset \
                            and getattr(x, 'end_col_offset', -1) == getattr(n, 'end_col_offset', -1):
                        target = x
                        break
                if target is None:
                    continue
                if m == 'REPLACE_LEFT' or m == 'REPLACE_OPERAND':
                    repl = target.left if m == 'REPLACE_LEFT' else target.operand

                    class R(ast.NodeTransformer):
                        def generic_visit(self, node):
                            for f, v in ast.iter_fields(node):
                                if isinstance(v, list):
                                    node.__dict__[f] = [repl if x is target else (self.visit(x) if isinstance(x, ast.AST) else x) for x in v]
                                elif v is target:
                                    setattr(node, f, repl)
                                elif isinstance(v, ast.AST):
                                    self.visit(v)
                            return node
                    R().visit(t2)
                else:
                    m(target)
                # textual splice: keep the file's formatting, replace only the mutated statement
                stmt_old = _enclosing_stmt(tree, n)
                stmt_new = _enclosing_stmt_by_pos(t2, stmt_old)
                if stmt_old is None or stmt_new is None:
                    continue
                try:
                    new_txt = ast.unparse(stmt_new)
                except Exception:
                    continue
                lines = src.split('\n')
                indent = lines[stmt_old.lineno - 1][:stmt_old.col_offset]
                new_lines = [indent + l if i == 0 else (indent + l) for i, l in enumerate(new_txt.split('\n'))]
                mutated = '\n'.join(lines[:stmt_old.lineno - 1] + new_lines + lines[stmt_old.end_lineno:])
                try:
                    compile(mutated, rel, 'exec')
                except SyntaxError:
                    continue
                if mutated == src:
                    continue
                out.append((f'{rel}:{n.lineno} {fn.name}: {desc}', n.lineno, mutated))
    return out


def _enclosing_stmt(tree, node):
    best = None
    for s in ast.walk(tree):
        if isinstance(s, ast.stmt) and not isinstance(s, (ast.FunctionDef, ast.ClassDef, ast.If, ast.For, ast.While, ast.With, ast.Try)) \
                and s.lineno <= node.lineno <= s.end_lineno and any(x is node for x in ast.walk(s)):
            if best is None or (s.end_lineno - s.lineno) < (best.end_lineno - best.lineno):
                best = s
    return best


def _enclosing_stmt_by_pos(tree, old):
    if old is None:
        return None
    for s in ast.walk(tree):
        if isinstance(s, ast.stmt) and type(s) is type(old) and s.lineno == old.lineno and s.col_offset == old.col_offset:
            return s
    return None


def run_one(args):
    idx, desc, rel, mutated = args
    tmp = tempfile.mkdtemp(prefix='pqv-mut-')
    try:
        for d in ('panqec', 'tests'):
            shutil.copytree(os.path.join(REPO, d), os.path.join(tmp, d), ignore=shutil.ignore_patterns('__pycache__', '*.pyc'))
        shutil.copy(os.path.join(REPO, 'pytest.ini'), tmp)
        with open(os.path.join(tmp, rel), 'w') as f:
            f.write(mutated)
        env = dict(os.environ, PYTHONDONTWRITEBYTECODE='1')
        r = subprocess.run(['/venv/bin/python', '-m', 'pytest', '-x', '-q', '-p', 'no:cacheprovider', '--timeout=900',
                            '--deselect', 'tests/decoders/belief_propagation/test_mbp.py::TestMemoryBeliefPropagationDecoder::test_decode_trivial_syndrome'],
                           cwd=tmp, env=env, capture_output=True, text=True, timeout=1500)
        survived = r.returncode == 0
        res = {'id': idx, 'mutant': desc, 'survived_tests': survived}
        if survived:
            rep = []
            errs = []
            out = subprocess.run([os.path.join(HERE, 'check'), 'all', '--root', tmp, '--no-evidence'], capture_output=True, text=True,
                                 timeout=1500).stdout
            lines = out.splitlines()
            for i, l in enumerate(lines):
                if l.startswith('VIOLATION property='):
                    prop = l.split('property=')[1].split()[0]
                    rule = lines[i + 1].strip().split()[0] if i + 1 < len(lines) else '?'
                    if f'{prop} {rule}' not in rep:
                        rep.append(f'{prop} {rule}')
                elif l.startswith('ANALYSIS-ERROR'):
                    errs.append(l[:200])
            res['reported_by'] = rep
            res['analysis_errors'] = errs
        return res
    except subprocess.TimeoutExpired:
        return {'id': idx, 'mutant': desc, 'survived_tests': False, 'timeout': True}
    finally:
        shutil.rmtree(tmp, ignore_errors=True)


def main():
    ap = argparse.ArgumentParser()
    ap.add_argument('--n', type=int, default=300)
    ap.add_argument('--seed', type=int, default=1)
    ap.add_argument('--jobs', type=int, default=14)
    ap.add_argument('--out', default=os.path.join(HERE, 'mutation', 'report.json'))
    a = ap.parse_args()
    allc = []
    for rel in FILES + ['panqec/analysis.py']:
        if not os.path.exists(os.path.join(REPO, rel)):
            continue
        for desc, ln, mutated in candidates(rel):
            allc.append((desc, rel, mutated))
    rng = random.Random(a.seed)
    rng.shuffle(allc)
    chosen = allc[:a.n]
    print(f'{len(allc)} candidate mutants, running {len(chosen)}', flush=True)
    with ProcessPoolExecutor(max_workers=a.jobs) as ex:
        res = list(ex.map(run_one, [(i, d, r, m) for i, (d, r, m) in enumerate(chosen)]))
    surv = [r for r in res if r['survived_tests']]
    caught = [r for r in surv if r.get('reported_by')]
    undec = [r for r in surv if not r.get('reported_by') and r.get('analysis_errors')]
    missed = [r for r in surv if not r.get('reported_by') and not r.get('analysis_errors')]
    os.makedirs(os.path.dirname(a.out), exist_ok=True)
    json.dump({'seed': a.seed, 'candidates': len(allc), 'run': len(chosen), 'killed_by_tests': len(res) - len(surv),
               'survivors': len(surv), 'reported': len(caught), 'undecided_only': len(undec), 'silent': len(missed),
               'results': res}, open(a.out, 'w'), indent=1)
    print(f'run={len(chosen)} killed_by_tests={len(res) - len(surv)} survivors={len(surv)} reported={len(caught)} '
          f'undecided_only={len(undec)} silent={len(missed)}')
    for r in missed:
        print('SILENT', r['mutant'])
    for r in undec:
        print('UNDECIDED', r['mutant'], r['analysis_errors'][:1])


if __name__ == '__main__':
    main()
