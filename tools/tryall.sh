#!/bin/bash
# tools/tryall.sh <base dir> <P> ...  - for each <base>/<P>/patch{1,2}.diff: which checks report it (summary lines)
B=$1; shift
for P in "$@"; do
  for k in 1 2; do
    f=$B/$P/patch$k.diff
    [ -f $f ] || continue
    echo "=== $P patch$k"
    /verif/tools/try_patch.sh $f all 2>&1 | grep -v conda | grep "key=\|ANALYSIS-ERROR\|DOES NOT APPLY" | cut -c1-240 | head -8
  done
done
